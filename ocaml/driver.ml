(* driver.ml -- runs the extracted Gallina model on a cases file (one case per line) and
   prints one canonical result line per case.  Mirrors the C harnesses in ../harness.
   Only conversion glue lives here; every result is computed by code extracted from Coq. *)
open Model

let rec pos_of_int (i : int) : positive =
  if i = 1 then XH
  else if i land 1 = 1 then XI (pos_of_int (i lsr 1))
  else XO (pos_of_int (i lsr 1))

let n_of_int (i : int) : n = if i = 0 then N0 else Npos (pos_of_int i)

let rec int_of_pos (p : positive) : int =
  match p with XH -> 1 | XO q -> 2 * int_of_pos q | XI q -> 2 * int_of_pos q + 1

let int_of_n (x : n) : int = match x with N0 -> 0 | Npos p -> int_of_pos p

let rec nat_of_int (i : int) : nat = if i <= 0 then O else S (nat_of_int (i - 1))

let int_of_nat (x : nat) : int =
  let rec go acc = function O -> acc | S y -> go (acc + 1) y in
  go 0 x

let bytes_of_hex (h : string) : n list =
  if h = "-" then []
  else begin
    let len = String.length h / 2 in
    let rec go i acc =
      if i < 0 then acc
      else go (i - 1) (n_of_int (int_of_string ("0x" ^ String.sub h (2 * i) 2)) :: acc)
    in
    go (len - 1) []
  end

let hex_of_bytes (l : n list) : string =
  if l = [] then "-"
  else begin
    let b = Buffer.create 64 in
    Stdlib.List.iter (fun x -> Buffer.add_string b (Printf.sprintf "%02x" (int_of_n x))) l;
    Buffer.contents b
  end

let codec_of_int i =
  match i with 0 -> b32 | 1 -> b64 | 2 -> b64u | 3 -> b128 | _ -> failwith "codec"

let run_line (line : string) : string =
  let toks = String.split_on_char ' ' (String.trim line) in
  match toks with
  | [ "E"; c; cap; hex ] ->
      let (out, n) = encode (codec_of_int (int_of_string c)) (nat_of_int (int_of_string cap)) (bytes_of_hex hex) in
      Printf.sprintf "%d %d %s" (Stdlib.List.length out) (int_of_nat n) (hex_of_bytes out)
  | [ "D"; c; cap; hex ] ->
      let out = decode (codec_of_int (int_of_string c)) (nat_of_int (int_of_string cap)) (bytes_of_hex hex) in
      Printf.sprintf "%d %s" (Stdlib.List.length out) (hex_of_bytes out)
  | [ "R"; c; cap; hex ] ->
      let cd = codec_of_int (int_of_string c) in
      let d = bytes_of_hex hex in
      let (out, n) = encode cd (nat_of_int (int_of_string cap)) d in
      let dec = decode cd (nat_of_int (Stdlib.List.length d + 8)) out in
      Printf.sprintf "%d %d %s | %d %s" (Stdlib.List.length out) (int_of_nat n) (hex_of_bytes out)
        (Stdlib.List.length dec) (hex_of_bytes dec)
  | [ "RU"; cap; hex ] ->
      let d = bytes_of_hex hex in
      let (out, n) = encode b32 (nat_of_int (int_of_string cap)) d in
      let dec = decode b32 (nat_of_int (Stdlib.List.length d + 8)) (Stdlib.List.map toupper out) in
      Printf.sprintf "%d %s" (Stdlib.List.length dec) (hex_of_bytes dec)
  | [ "CH"; c; cap; hex ] ->
      let cd = codec_of_int (int_of_string c) in
      let d = bytes_of_hex hex in
      (match chunks cd (nat_of_int (int_of_string cap)) (nat_of_int (Stdlib.List.length d)) d with
       | None -> "STUCK"
       | Some ss ->
           let dec = Stdlib.List.concat (Stdlib.List.map (fun s -> decode cd (nat_of_int (Stdlib.List.length s)) s) ss) in
           Printf.sprintf "%d %s" (Stdlib.List.length ss) (hex_of_bytes dec))
  | [ "B58"; v ] -> Printf.sprintf "%d" (int_of_n (b32_5to8 (n_of_int (int_of_string v))))
  | [ "B85"; v ] -> Printf.sprintf "%d" (int_of_n (b32_8to5 (n_of_int (int_of_string v))))
  | _ -> "UNKNOWN-CASE"

let () =
  let ic = if Array.length Sys.argv > 1 then open_in Sys.argv.(1) else stdin in
  (try
     while true do
       let line = input_line ic in
       if String.length line > 0 && line.[0] <> '#' then
         print_endline (try run_line line with e -> "EXC " ^ Printexc.to_string e)
     done
   with End_of_file -> ());
  flush stdout
