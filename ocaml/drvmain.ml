let () =
  let ic = if Array.length Sys.argv > 1 then open_in Sys.argv.(1) else stdin in
  (try
     while true do
       let line = input_line ic in
       if String.length line > 0 && line.[0] <> '#' then
         print_endline (try run_line line with e -> "EXC " ^ Printexc.to_string e)
     done
   with End_of_file -> ());
  flush stdout
