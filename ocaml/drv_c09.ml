(* drv_c09.ml -- cases for C09/C10: server answer -> bytes -> client extraction *)
let td = ref (O, O)

let z_to_int (x : z) : int =
  match x with Z0 -> 0 | Zpos p -> int_of_pos p | Zneg p -> - (int_of_pos p)

let opt_n = function Some v -> int_of_n v | None -> -1

let show_da (r : da_result) (idd : int) (n0d : int) (tyd : int) : string =
  let rv = z_to_int r.da_rv in
  let out = if rv > 0 then sum_of_bytes (Stdlib.List.filteri (fun i _ -> i < rv) r.da_out) else "-" in
  let g d = function Some v -> int_of_n v | None -> d in
  Printf.sprintf "%d %s %d %d %d" rv out (g idd r.da_id) (g n0d r.da_name0) (g tyd r.da_type)

let run_line (line : string) : string =
  let toks = Stdlib.List.filter (fun s -> s <> "") (String.split_on_char ' ' (String.trim line)) in
  match toks with
  | [ "W"; qtype; denc; id; buflen; qn; dh ] ->
      let q = { q_name = cstr (bytes_of_hex qn); q_type = n_of_int (int_of_string qtype); q_id = n_of_int (int_of_string id) } in
      let (dg, td') = write_dns q (bytes_of_hex dh) (n_of_int (int_of_string denc)) !td in
      td := td';
      (match dg with
       | None -> "NOSEND 0"
       | Some d ->
           let r = client_extract (nat_of_int (int_of_string buflen)) d (nat_of_int (Stdlib.List.length d)) in
           Printf.sprintf "%s | %s" (sum_of_bytes d) (show_da r 0 0 65534))
  | [ "A"; buflen; _res; dg ] ->
      let d = bytes_of_hex dg in
      let r = client_extract (nat_of_int (int_of_string buflen)) d (nat_of_int (Stdlib.List.length d)) in
      show_da r 0 0 65534
  | [ "Q"; _res; dg ] ->
      let d = bytes_of_hex dg in
      let r = dns_decode_query d (nat_of_int (Stdlib.List.length d)) in
      let rv = z_to_int r.dq_rv in
      (match r.dq_q with
       | Some q when rv > 0 ->
           Printf.sprintf "%d %s %d %d" rv (hex_of_bytes q.q_name) (int_of_n q.q_type) (int_of_n q.q_id)
       | _ -> Printf.sprintf "%d -" (if rv > 0 then rv else 0))
  | _ -> "UNKNOWN-CASE"
