(* drv_c19.ml -- cases for C19 (login challenge-response, raw login, MD5).
   Seeds arrive as unsigned decimals 0 .. 2^32-1 (the bit pattern of the C int). *)
let n_of_dec (s : string) : n = n_of_int (int_of_string s)

(* C ints of LoginGlue are Z *)
let int_of_z (x : z) : int = match x with Z0 -> 0 | Zpos p -> int_of_pos p | Zneg p -> - (int_of_pos p)
let z_of_int (i : int) : z = if i = 0 then Z0 else if i > 0 then Zpos (pos_of_int i) else Zneg (pos_of_int (- i))

(* what the client sends after handshake_version accepted the reply: userid byte and hash of the
   login message, hash of the raw login *)
let glue_sent (p : n list) (seed : z) (uid : z) : string =
  Printf.sprintf "uid=%d luid=%d dns=%s raw=%s" (int_of_z uid) ((int_of_z uid) land 255)
    (hex_of_bytes (cli_dns_login p seed)) (hex_of_bytes (cli_raw_login p seed))

let rec take k l = if k <= 0 then [] else match l with [] -> [] | x :: t -> x :: take (k - 1) t

let run_line (line : string) : string =
  let toks = String.split_on_char ' ' (String.trim line) in
  match toks with
  | [ "L"; buflen; phex; seed ] ->
      (* login_calculate(buf, buflen, pass, seed): digest and the block handed to md5_append *)
      let p = bytes_of_hex phex and s = n_of_dec seed in
      (match login_out (n_of_dec buflen) p s with
       | None -> "UNTOUCHED"
       | Some d -> Printf.sprintf "%s %s" (hex_of_bytes d) (hex_of_bytes (login_block p s)))
  | [ "M"; mhex ] -> hex_of_bytes (md5 (bytes_of_hex mhex))
  | [ "M2"; _; mhex ] -> hex_of_bytes (md5 (bytes_of_hex mhex))
  | [ "CU"; phex; seed ] ->
      (* client.c send_raw_udp_login: the 16 bytes after the raw header *)
      hex_of_bytes (raw_login_up (bytes_of_hex phex) (n_of_dec seed))
  | [ "SR"; phex; seed; pkthex ] ->
      (* iodined.c handle_raw_login *)
      (match raw_server (bytes_of_hex phex) (n_of_dec seed) (bytes_of_hex pkthex) with
       | None -> "NONE"
       | Some r -> "REPLY " ^ hex_of_bytes r)
  | [ "CR"; phex; seed; hhex ] ->
      (* client.c handshake_raw_udp: what it sends, and whether it accepts the scripted answer *)
      let p = bytes_of_hex phex and s = n_of_dec seed in
      Printf.sprintf "%s %s" (hex_of_bytes (raw_login_up p s))
        (if raw_client_accepts p s (bytes_of_hex hhex) then "ACCEPT" else "REJECT")
  | [ "HV"; phex; rhex; _ ] ->
      (* client.c handshake_version on the reply, then handshake_login / send_raw_udp_login *)
      let p = bytes_of_hex phex in
      (match cli_version (bytes_of_hex rhex) with
       | None -> "rv=1"
       | Some (seed, uid) ->
           Printf.sprintf "rv=0 seed=%d %s" (int_of_n (u32_of_Z seed)) (glue_sent p seed uid))
  | [ "HF"; phex; rhex; _; ahex ] ->
      (* client.c client_handshake in raw mode; ahex = payload of the server's raw-login answer *)
      let p = bytes_of_hex phex in
      (match cli_version (bytes_of_hex rhex) with
       | None -> "rv=1"
       | Some (seed, uid) ->
           Printf.sprintf "rv=0 %s conn=%s" (glue_sent p seed uid)
             (if cli_raw_accepts p seed (bytes_of_hex ahex) then "RAW" else "DNS"))
  | [ "SV"; phex; r; uid; _; hhex ] ->
      (* iodined.c 'V' branch with rand() = r, then the login handler on the 16 hash bytes *)
      let p = bytes_of_hex phex in
      let seed = int_of_u32 (n_of_dec r) in
      let h = take 16 (bytes_of_hex hhex @ List.init 16 (fun _ -> N0)) in
      let ok = srv_login_accepts p seed h in
      Printf.sprintf "reply=%s seed=%d rand_calls=1 login=%s auth=%d"
        (hex_of_bytes (srv_version_reply seed (z_of_int (int_of_string uid))))
        (int_of_n (u32_of_Z seed)) (if ok then "ACCEPT" else "LNAK") (if ok then 1 else 0)
  | [ "SV"; phex; r; uid; _; hhex; rawhex ] ->
      (* the same, then handle_raw_login on the payload of a raw login datagram: the challenge of the version reply still holds *)
      let p = bytes_of_hex phex in
      let seed = int_of_u32 (n_of_dec r) in
      let h = take 16 (bytes_of_hex hhex @ List.init 16 (fun _ -> N0)) in
      let ok = srv_login_accepts p seed h in
      Printf.sprintf "reply=%s seed=%d rand_calls=1 login=%s auth=%d raw=%s"
        (hex_of_bytes (srv_version_reply seed (z_of_int (int_of_string uid))))
        (int_of_n (u32_of_Z seed)) (if ok then "ACCEPT" else "LNAK") (if ok then 1 else 0)
        (if not ok then "NONE" else
         match raw_server p (n_of_dec r) (bytes_of_hex rawhex) with
         | None -> "NONE"
         | Some rr -> hex_of_bytes rr)
  | "PW" :: envtok :: stdinhex :: ps ->
      (* main(): the 33-byte password buffer from the -P arguments (in order), the environment variable ("U" = unset) and
         what the prompt reads from standard input *)
      let env = if envtok = "U" then None else Some (bytes_of_hex envtok) in
      hex_of_bytes (startup_password (Stdlib.List.map bytes_of_hex ps) env (bytes_of_hex stdinhex))
  | "CS" :: os ->
      (* main() of iodine: -L n / -I n / -m n / -r in command-line order ("L:n" "I:n" "m:n" "r") *)
      let opt (t : string) : copt =
        if t = "r" then Or else
        let v = z_of_int (int_of_string (String.sub t 2 (String.length t - 2))) in
        match t.[0] with 'L' -> OL v | 'I' -> OI v | _ -> Om v in
      let s = csettings_of (Stdlib.List.map opt os) in
      if not (fragsize_accepted s) then "REJECT" else
      Printf.sprintf "lazy=%d selecttimeout=%d raw=%d autofrag=%d fragsize=%d" (int_of_z s.s_lazy) (int_of_z s.s_timeout)
        (if s.s_raw then 1 else 0) (if s.s_autofrag then 1 else 0) (int_of_z s.s_fragsize)
  | "ML" :: ms ->
      (* main() of iodine: the hostname-length limit from the -M arguments (in order) *)
      string_of_int (int_of_z (startup_maxlen (Stdlib.List.map (fun m -> z_of_int (int_of_string m)) ms)))
  | [ "SN"; vhex; _ ] ->
      (* iodined.c 'V' branch on a version message that is not the server's version *)
      if srv_version_matches (bytes_of_hex vhex) then "VERSION-MATCHES"
      else Printf.sprintf "reply=%s rand_calls=0" (hex_of_bytes srv_version_nak)
  | _ -> "UNKNOWN-CASE"
