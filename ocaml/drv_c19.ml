(* drv_c19.ml -- cases for C19 (login challenge-response, raw login, MD5).
   Seeds arrive as unsigned decimals 0 .. 2^32-1 (the bit pattern of the C int). *)
let n_of_dec (s : string) : n = n_of_int (int_of_string s)

let run_line (line : string) : string =
  let toks = String.split_on_char ' ' (String.trim line) in
  match toks with
  | [ "L"; buflen; phex; seed ] ->
      (* login_calculate(buf, buflen, pass, seed): digest and the block handed to md5_append *)
      let p = bytes_of_hex phex and s = n_of_dec seed in
      (match login_out (n_of_dec buflen) p s with
       | None -> "UNTOUCHED"
       | Some d -> Printf.sprintf "%s %s" (hex_of_bytes d) (hex_of_bytes (login_block p s)))
  | [ "M"; mhex ] -> hex_of_bytes (md5 (bytes_of_hex mhex))
  | [ "M2"; _; mhex ] -> hex_of_bytes (md5 (bytes_of_hex mhex))
  | [ "CU"; phex; seed ] ->
      (* client.c send_raw_udp_login: the 16 bytes after the raw header *)
      hex_of_bytes (raw_login_up (bytes_of_hex phex) (n_of_dec seed))
  | [ "SR"; phex; seed; pkthex ] ->
      (* iodined.c handle_raw_login *)
      (match raw_server (bytes_of_hex phex) (n_of_dec seed) (bytes_of_hex pkthex) with
       | None -> "NONE"
       | Some r -> "REPLY " ^ hex_of_bytes r)
  | [ "CR"; phex; seed; hhex ] ->
      (* client.c handshake_raw_udp: what it sends, and whether it accepts the scripted answer *)
      let p = bytes_of_hex phex and s = n_of_dec seed in
      Printf.sprintf "%s %s" (hex_of_bytes (raw_login_up p s))
        (if raw_client_accepts p s (bytes_of_hex hhex) then "ACCEPT" else "REJECT")
  | _ -> "UNKNOWN-CASE"
