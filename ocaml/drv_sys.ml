(* drv_sys.ml -- model side of the whole-system histories (see harness/h_syshist.c) *)
let g_td = ref (O, O)
let g_datacmc = ref 0
let g_packrecv = ref 0
let g_oos = ref 0
let g_servfail = ref 0

let nn = n_of_int
let nat = nat_of_int
let ios = int_of_string
let ints_of (l : n list) : int list = Stdlib.List.map int_of_n l
let fnv_add (h : int) (b : int list) : int =
  Stdlib.List.fold_left (fun h x -> ((h lxor x) * 16777619) land 0xffffffff) h b
let fnv0 = 2166136261
let be16 v = [ (v lsr 8) land 255; v land 255 ]
let z_to_int (x : z) : int =
  match x with Z0 -> 0 | Zpos p -> int_of_pos p | Zneg p -> - (int_of_pos p)
let rec take n l = if n <= 0 then [] else match l with [] -> [] | x :: t -> x :: take (n - 1) t
let z_of_int (i : int) : z = if i = 0 then Z0 else if i > 0 then Zpos (pos_of_int i) else Zneg (pos_of_int (-i))

let hash_addr h (a : addr) = fnv_add (fnv_add (fnv_add h [ int_of_n a.a_fam ]) (ints_of a.a_ip)) (be16 (int_of_n a.a_port))
let hash_q (q : hq) (with2 : bool) =
  let h = fnv_add fnv0 (ints_of q.h_name @ [ 0 ] @ be16 (int_of_n q.h_type)) in
  let h = hash_addr h q.h_from in
  if with2 then hash_addr h q.h_from2 else h

let cli_digest (s : cstate) : string =
  let o = s.c_out and i = s.c_in in
  let b x = if x then 1 else 0 in
  Printf.sprintf "O%d/%d/%d/%d/%d/%08x I%d/%d/%d/%08x X%d C%d/%d/%d P%d Z%d%d S%d D%d R%d N%d/%d G%d"
    (int_of_n o.k_len) (int_of_n o.k_sentlen) (int_of_n o.k_offset) (int_of_n o.k_seqno) (z_to_int o.k_fragment)
    (fnv_add fnv0 (ints_of (take (min 65536 (int_of_n o.k_len)) o.k_data)))
    (int_of_n i.k_len) (int_of_n i.k_seqno) (z_to_int i.k_fragment) (fnv_add fnv0 (ints_of (take (int_of_n i.k_len) i.k_data)))
    (int_of_n s.c_resent) (int_of_n s.c_chunkid) (int_of_n s.c_prev) (int_of_n s.c_prev2) (int_of_n s.c_ping_soon)
    (b s.c_lazy) (b s.c_dns) (int_of_n s.c_selecttimeout) (int_of_n s.c_lastdown) (int_of_n s.c_rand_seed)
    (z_to_int s.c_sendcnt) (z_to_int s.c_recvcnt) (b s.c_running)

let srv_digest (st : suser list) : string =
  let b = Buffer.create 256 in
  Stdlib.List.iteri (fun i (u : suser) ->
      if u.u_active then begin
        let bi x = if x then 1 else 0 in
        let hc = Stdlib.List.fold_left (fun h (e : cache_entry) ->
            let al = int_of_n e.ce_len in
            let h = fnv_add h (be16 (int_of_n e.ce_id) @ be16 (int_of_n e.ce_type) @ ints_of e.ce_name @ [ 0 ] @ be16 al) in
            if al > 0 then fnv_add h (ints_of (take al e.ce_answer)) else h) fnv0 u.u_cache in
        let hm mem = Stdlib.List.fold_left (fun h (e : qmem_entry) ->
            fnv_add h (be16 (int_of_n e.qm_type) @ ints_of e.qm_cmc)) fnv0 mem in
        let hqd = Stdlib.List.fold_left (fun h (p : pkt) ->
            let l = int_of_n p.p_len in
            fnv_add (fnv_add h (be16 (l land 0xffff))) (ints_of (take l p.p_data))) fnv0 u.u_queue in
        Buffer.add_string b (Printf.sprintf "%d:A%d%d%d%d,L%d,S%d,C%d%d,E%d,D%d,F%d," i (bi u.u_auth) (bi u.u_auth_raw)
                               (bi u.u_locked) (bi u.u_disabled) (int_of_n u.u_last) (int_of_n u.u_seed)
                               (match u.u_conn with CONN_DNS -> 1 | CONN_RAW -> 0) (bi u.u_lazy)
                               (int_of_n u.u_enc) (int_of_n u.u_downenc) (int_of_n u.u_fragsize));
        Buffer.add_string b (Printf.sprintf "H%08x," (hash_addr fnv0 u.u_host));
        (match u.u_conn with
         | CONN_DNS ->
             Buffer.add_string b (Printf.sprintf "Q%d/%d/%08x,R%d/%d/%d/%08x," (int_of_n u.u_q.h_id) (int_of_n u.u_q.h_id2)
                                    (hash_q u.u_q (int_of_n u.u_q.h_id2 <> 0))
                                    (int_of_n u.u_qs.h_id) (int_of_n u.u_qs.h_id2) (bi u.u_qs_new)
                                    (hash_q u.u_qs (int_of_n u.u_qs.h_id2 <> 0)))
         | CONN_RAW -> Buffer.add_string b (Printf.sprintf "Q%08x," (hash_addr fnv0 u.u_q.h_from)));
        let ip = u.u_in and op = u.u_out in
        Buffer.add_string b (Printf.sprintf "I%d/%d/%d/%d/%08x," (int_of_n ip.p_len) (int_of_n ip.p_offset) (int_of_n ip.p_seqno)
                               (z_to_int ip.p_fragment) (fnv_add fnv0 (ints_of (take (int_of_n ip.p_len) ip.p_data))));
        Buffer.add_string b (Printf.sprintf "O%d/%d/%d/%d/%d/%08x," (int_of_n op.p_len) (int_of_n op.p_offset) (int_of_n op.p_sentlen)
                               (int_of_n op.p_seqno) (z_to_int op.p_fragment)
                               (fnv_add fnv0 (ints_of (take (int_of_n op.p_len) op.p_data))));
        Buffer.add_string b (Printf.sprintf "X%d,U%d/%d/%08x,K%d/%08x,P%d/%08x,M%d/%08x " (int_of_n u.u_resent)
                               (int_of_nat u.u_queue_filled) (int_of_nat u.u_queue_next) hqd
                               (int_of_nat u.u_cache_last) hc (int_of_nat u.u_pingmem_last) (hm u.u_pingmem)
                               (int_of_nat u.u_datamem_last) (hm u.u_datamem))
      end) st;
  Buffer.contents b

let inet_addr (s : string) : int =
  match Stdlib.List.map ios (String.split_on_char '.' s) with
  | [ a; b; c; d ] -> a lor (b lsl 8) lor (c lsl 16) lor (d lsl 24)
  | _ -> failwith "ip"

let run_history (toks : string list) : string =
  match toks with
  | qtype :: upcodec :: downenc :: lazy_ :: fragsize :: maxlen :: checkip :: st :: chunkid :: seed :: now :: rest ->
      let dom = bytes_of_hex "742e6578616d706c652e636f6d" in
      let pw = take 32 (bytes_of_hex "736573616d65" @ Stdlib.List.init 33 (fun _ -> N0)) in
      let cfg = { c_topdomain = dom; c_password = pw; c_check_ip = ios checkip <> 0; c_my_ip = nn (inet_addr "10.0.0.1");
                  c_netmask = nn 27; c_mtu = nn 1130; c_ns_ip = None; c_bind = false } in
      let (ips, _) = init_users (nn (inet_addr "10.0.0.1")) (nat 27) in
      let c0 = client_init N0 dom (nn (ios upcodec)) (nat (ios maxlen)) (nn (ios qtype)) true (ios lazy_ <> 0) true
          (nn 4) (nn (ios chunkid)) (nn (ios seed)) (nn (ios now)) in
      let c0 = { c0 with c_sendcnt = z_of_int (-1); c_datacmc = nat !g_datacmc; c_packrecv = nn !g_packrecv;
                         c_packrecv_oos = nn !g_oos; c_servfail = nn !g_servfail } in
      let ca = { a_fam = nn 2; a_ip = [ nn 192; N0; nn 2; nn 7 ]; a_port = nn 4000 } in
      let y0 = setup login_stub unz_frame cfg ips c0 (nn (ios fragsize)) (nn (ios downenc)) ca (nn (ios now)) in
      (* the server's ".xy" rotation state persists across histories of one process *)
      let y0 = y0 in
      let c = y0.y_cli in
      let c = { c with c_selecttimeout = nn (ios st); c_prev = N0; c_prev2 = N0;
                       c_rand_seed = nn ((ios seed + 100) land 0xffff); c_lastdown = nn (ios now);
                       c_sendcnt = Z0; c_recvcnt = Z0; c_ping_soon = nn 1; c_resent = N0; c_running = true;
                       c_out = { c.c_out with k_sentlen = N0; k_offset = N0 } } in
      let y = ref { y0 with y_cli = c } in
      let events = String.split_on_char ';' (String.concat " " rest) in
      let res = Stdlib.List.filter_map (fun ev ->
          let t = Stdlib.List.filter (fun x -> x <> "") (String.split_on_char ' ' (String.trim ev)) in
          let e =
            match t with
            | [] -> None
            | [ "CU"; pk ] -> Some (YCU (bytes_of_hex pk))
            | [ "SU"; pk ] -> Some (YSU (bytes_of_hex pk))
            | [ "CT" ] -> Some YCT
            | [ "SS" ] -> Some YSS
            | [ "TICK"; n ] -> Some (YTick (nn (ios n)))
            | [ "S2C"; k; m ] -> Some (YS2C (nat (ios k), nn (ios m)))
            | [ "C2S"; k; m; id; mask ] -> Some (YC2S (nat (ios k), nn (ios m), nn (ios id), nn (ios mask)))
            | _ -> Some (YTick N0) in
          match (t, e) with
          | ([], _) -> None
          | (_, None) -> None
          | (_, Some e) ->
              let (y', obs) = sys_step login_stub zc_frame unz_frame !y e in
              y := y';
              let c' = y'.y_cli in
              g_datacmc := int_of_nat c'.c_datacmc; g_packrecv := int_of_n c'.c_packrecv;
              g_oos := int_of_n c'.c_packrecv_oos; g_servfail := int_of_n c'.c_servfail;
              let ts = Stdlib.List.filter_map (function TunAtServer p -> Some p | _ -> None) obs in
              let tc = Stdlib.List.filter_map (function TunAtClient p -> Some p | _ -> None) obs in
              Some (Printf.sprintf "S%d%s C%d%s Q%d/%d | %s | %s" (Stdlib.List.length ts)
                      (String.concat "" (Stdlib.List.map (fun d -> " " ^ sum_of_bytes d) ts))
                      (Stdlib.List.length tc)
                      (String.concat "" (Stdlib.List.map (fun d -> " " ^ sum_of_bytes d) tc))
                      (Stdlib.List.length y'.y_c2s) (Stdlib.List.length y'.y_s2c)
                      (cli_digest y'.y_cli) (srv_digest y'.y_srv))) events in
      g_td := !y.y_td;
      String.concat " ; " res
  | _ -> "BADHISTORY"

let run_line (line : string) : string =
  let toks = Stdlib.List.filter (fun x -> x <> "") (String.split_on_char ' ' (String.trim line)) in
  match toks with
  | "Y" :: rest -> run_history rest
  | _ -> "UNKNOWN-CASE"
