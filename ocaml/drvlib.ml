(* drvlib.ml -- conversion glue shared by the per-property model drivers.  The build
   concatenates drvlib.ml + drv_cXX.ml + drvmain.ml into driver.ml next to the model extracted
   by coq/Extract_CXX.v (model.ml).  Every result is computed by code extracted from Coq. *)
open Model

let rec pos_of_int (i : int) : positive =
  if i = 1 then XH
  else if i land 1 = 1 then XI (pos_of_int (i lsr 1))
  else XO (pos_of_int (i lsr 1))

let n_of_int (i : int) : n = if i = 0 then N0 else Npos (pos_of_int i)

let rec int_of_pos (p : positive) : int =
  match p with XH -> 1 | XO q -> 2 * int_of_pos q | XI q -> 2 * int_of_pos q + 1

let int_of_n (x : n) : int = match x with N0 -> 0 | Npos p -> int_of_pos p

let rec nat_of_int (i : int) : nat = if i <= 0 then O else S (nat_of_int (i - 1))

let int_of_nat (x : nat) : int =
  let rec go acc = function O -> acc | S y -> go (acc + 1) y in
  go 0 x

let bytes_of_hex (h : string) : n list =
  if h = "-" then []
  else begin
    let len = String.length h / 2 in
    let rec go i acc =
      if i < 0 then acc
      else go (i - 1) (n_of_int (int_of_string ("0x" ^ String.sub h (2 * i) 2)) :: acc)
    in
    go (len - 1) []
  end

let hex_of_bytes (l : n list) : string =
  if l = [] then "-"
  else begin
    let b = Buffer.create 64 in
    Stdlib.List.iter (fun x -> Buffer.add_string b (Printf.sprintf "%02x" (int_of_n x))) l;
    Buffer.contents b
  end

(* run_line is defined by the per-property driver (ocaml/drv_cXX.ml), which is concatenated
   after this file; main is appended from drvmain.ml *)

let verif_full = (try ignore (Sys.getenv "VERIF_FULL"); true with Not_found -> false)

(* long byte strings are summarised exactly as harness/hmain.c putsum does *)
let sum_of_bytes (l : n list) : string =
  let len = Stdlib.List.length l in
  if verif_full || len <= 48 then hex_of_bytes l
  else begin
    let h = ref 2166136261 in
    Stdlib.List.iter (fun x -> h := ((!h lxor (int_of_n x)) * 16777619) land 0xffffffff) l;
    Printf.sprintf "L%d:%08x:%s" len !h (hex_of_bytes (Stdlib.List.filteri (fun i _ -> i < 8) l))
  end
