(* drv_c18.ml -- cases for C18 (tunnel address pool, lookup by tunnel address, slot allocation).
   Every result is computed by the code extracted from coq/Users.v; this file only parses the
   case line and prints. *)
let ints_of (toks : string list) : int list = Stdlib.List.map int_of_string toks

let rec users_of (l : int list) : user list =
  match l with
  | a :: au :: d :: lp :: tip :: rest ->
      { u_active = n_of_int a; u_auth = n_of_int au; u_disabled = n_of_int d;
        u_last_pkt = n_of_int lp; u_tun_ip = n_of_int tip } :: users_of rest
  | [] -> []
  | _ -> failwith "user fields"

let str_idx (r : nat option) : string =
  match r with None -> "-1" | Some i -> string_of_int (int_of_nat i)

let str_table (us : user list) : string =
  if us = [] then "-"
  else String.concat " " (Stdlib.List.map (fun u ->
    Printf.sprintf "%d:%d:%d:%d:%d" (int_of_n u.u_active) (int_of_n u.u_auth) (int_of_n u.u_disabled)
      (int_of_n u.u_last_pkt) (int_of_n u.u_tun_ip)) us)

(* m successive find_available_user calls at clock [now] *)
let rec alloc (us : user list) (now : n) (m : int) (acc : string list) : string list * user list =
  if m <= 0 then (Stdlib.List.rev acc, us)
  else begin
    let (r, us') = find_available_user us now in
    alloc us' now (m - 1) (str_idx r :: acc)
  end

let run_line (line : string) : string =
  let toks = String.split_on_char ' ' (String.trim line) in
  match toks with
  | [ "I"; ip; nb ] ->
      let nbi = int_of_string nb in
      if not (netmask_accepted (nat_of_int nbi)) then "REFUSED"
      else begin
        let (ips, cnt) = init_users (n_of_int (int_of_string ip)) (nat_of_int nbi) in
        String.concat " " (string_of_int (int_of_n cnt) ::
                           Stdlib.List.map (fun x -> string_of_int (int_of_n x)) ips)
      end
  | "F" :: now :: ip :: n :: rest ->
      let us = users_of (ints_of rest) in
      if Stdlib.List.length us <> int_of_string n then "BAD-CASE"
      else str_idx (find_user_by_ip us (n_of_int (int_of_string ip)) (n_of_int (int_of_string now)))
  | "A" :: now :: m :: n :: rest ->
      let us = users_of (ints_of rest) in
      if Stdlib.List.length us <> int_of_string n then "BAD-CASE"
      else begin
        let (rs, us') = alloc us (n_of_int (int_of_string now)) (int_of_string m) [] in
        String.concat " " rs ^ " | " ^ str_table us'
      end
  | [ "P"; ip; nb; now ] ->
      (* whole life cycle: init_users, allocate until refused (+1), mark everything
         authenticated, look every assigned address up, then the server's own address *)
      let nbi = int_of_string nb in
      if not (netmask_accepted (nat_of_int nbi)) then "REFUSED"
      else begin
        let my_ip = n_of_int (int_of_string ip) in
        let nw = n_of_int (int_of_string now) in
        let (ips, cnt) = init_users my_ip (nat_of_int nbi) in
        let (rs, us) = alloc (fresh_users ips) nw (int_of_n cnt + 2) [] in
        let us = Stdlib.List.map (fun u -> { u with u_auth = n_of_int 1 }) us in
        let fs = Stdlib.List.map (fun x -> str_idx (find_user_by_ip us x nw)) ips in
        Printf.sprintf "%d %s | %s | %s" (int_of_n cnt) (String.concat " " rs) (String.concat " " fs)
          (str_idx (find_user_by_ip us my_ip nw))
      end
  | _ -> "UNKNOWN-CASE"
