(* drv_wire.ml -- model side of the "wire" cases (see harness/wire_cases.c) *)
let td = ref (O, O)
let datacmc = ref 0

let z_to_int (x : z) : int =
  match x with Z0 -> 0 | Zpos p -> int_of_pos p | Zneg p -> - (int_of_pos p)

let show_da (r : da_result) (idd : int) (n0d : int) (tyd : int) : string =
  let rv = z_to_int r.da_rv in
  let out = if rv > 0 then sum_of_bytes (Stdlib.List.filteri (fun i _ -> i < rv) r.da_out) else "-" in
  let g d = function Some v -> int_of_n v | None -> d in
  Printf.sprintf "%d %s %d %d %d" rv out (g idd r.da_id) (g n0d r.da_name0) (g tyd r.da_type)

let codec_of_int i =
  match i with 0 -> b32 | 1 -> b64 | 2 -> b64u | _ -> b128

let nn i = n_of_int i
let nat i = nat_of_int i
let ios = int_of_string
let rec take n l = if n <= 0 then [] else match l with [] -> [] | x :: t -> x :: take (n - 1) t
let rec drop n l = if n <= 0 then l else match l with [] -> [] | _ :: t -> drop (n - 1) t
let lower c = if c >= 65 && c <= 90 then c + 32 else c
let opt4 s = if s = "-" then None else Some (bytes_of_hex s)

let server_side (dg : n list) (srvd : n list) (hdr : int) (codec : codec) : string =
  let r = dns_decode_query dg (nat (Stdlib.List.length dg)) in
  match r.dq_q with
  | Some q when z_to_int r.dq_rv > 0 ->
      let dl = match query_datalen q.q_name srvd with Some d -> int_of_nat d | None -> -1 in
      let ext =
        if hdr > 0 && dl >= hdr then
          sum_of_bytes (unpack_data codec (nat 65536) (drop hdr (take dl q.q_name)) (nat (dl - hdr)))
        else "-" in
      Printf.sprintf "%d %d %d %s" (int_of_n q.q_id) (int_of_n q.q_type) dl ext
  | _ -> "SRVDROP"

let run_line (line : string) : string =
  let toks = Stdlib.List.filter (fun s -> s <> "") (String.split_on_char ' ' (String.trim line)) in
  match toks with
  | [ "W"; qtype; denc; id; buflen; qn; dh ] ->
      let q = { q_name = cstr (bytes_of_hex qn); q_type = nn (ios qtype); q_id = nn (ios id) } in
      let (dg, td') = write_dns q (bytes_of_hex dh) (nn (ios denc)) !td in
      td := td';
      (match dg with
       | None -> "NOSEND 0"
       | Some d ->
           let r = client_extract (nat (ios buflen)) d (nat (Stdlib.List.length d)) in
           Printf.sprintf "%s | %s" (sum_of_bytes d) (show_da r 0 0 65534))
  | [ "A"; buflen; _res; dg ] ->
      let d = bytes_of_hex dg in
      let r = client_extract (nat (ios buflen)) d (nat (Stdlib.List.length d)) in
      show_da r 0 0 65534
  | [ "Q"; _res; dg ] ->
      let d = bytes_of_hex dg in
      let r = dns_decode_query d (nat (Stdlib.List.length d)) in
      let rv = z_to_int r.dq_rv in
      (match r.dq_q with
       | Some q when rv > 0 ->
           Printf.sprintf "%d %s %d %d" rv (hex_of_bytes q.q_name) (int_of_n q.q_type) (int_of_n q.q_id)
       | _ -> Printf.sprintf "%d -" (if rv > 0 then rv else 0))
  | [ "K"; codec; l; edns; clid; srvd; kind; a1; a2; a3; a4; a5; dh ] ->
      let c = codec_of_int (ios codec) in
      let clid = bytes_of_hex clid and srvd = bytes_of_hex srvd and data = bytes_of_hex dh in
      let l = nat (ios l) in
      let a1 = ios a1 and a2 = ios a2 and a3 = ios a3 and a4 = ios a4 and a5 = ios a5 in
      let kind = ios kind in
      (* (name option, consumed, header length for the server's extraction, extraction codec) *)
      let (nm, consumed, hdr, xc) =
        match kind with
        | 0 ->
            let cmc = !datacmc in
            datacmc := (cmc + 1) mod 36;
            (match send_chunk_name c (nn a1) (nn a2) (nn a3) (nn a4) (nn a5) (nat cmc) data clid l with
             | Some (nm, n) -> (Some nm, int_of_nat n, 5, c)
             | None -> (None, -1, 5, c))
        | 1 ->
            (match packet_name (nn a1) data clid l with
             | Some (nm, _) -> (Some nm, -1, 1, b32) | None -> (None, -1, 1, b32))
        | 2 ->
            (match probe_name c (nn a1) (nn a2) (nn a3) clid l with
             | Some (nm, _) -> (Some nm, -1, 5, c) | None -> (None, -1, 5, c))
        | _ ->
            let seed = nn a4 and uid = nn a2 in
            let pk cmd d = (match packet_name (nn cmd) d clid l with
                            | Some (nm, _) -> (Some nm, -1, 1, b32) | None -> (None, -1, 1, b32)) in
            let hs pre = (Some (handshake_name pre seed clid), -1, 0, b32) in
            (match a1 with
             | 0 -> pk 118 (version_data (nn a3) seed)
             | 1 -> pk 108 (login_data uid data seed)
             | 2 -> pk 112 (ping_data uid N0 N0 seed)
             | 3 -> pk 110 (fragsize_data uid (nn a3) seed)
             | 4 -> hs [ nn 105; b32_5to8 uid ]
             | 5 -> (Some (upenctest_name (cstr data) seed clid), -1, 0, b32)
             | 6 -> hs [ nn 121; nn (lower a3); b32_5to8 (nn 1) ]
             | 7 -> hs [ nn 115; b32_5to8 uid; b32_5to8 (nn a3) ]
             | 8 -> hs [ nn 111; b32_5to8 uid; nn (lower a3) ]
             | _ -> hs [ nn 111; b32_5to8 uid; nn 105 ])
      in
      (match nm with
       | None -> "NOSEND 0"
       | Some name ->
           (match dns_encode_query (nat 4096) (ios edns <> 0) (nn 8727) (nn 10) name with
            | None -> "NOSEND 0"
            | Some dg ->
                Printf.sprintf "%s | %d | %s" (hex_of_bytes dg) consumed (server_side dg srvd hdr xc)))
  | [ "N"; qtype; id; fam; dest; nsip; qn ] ->
      let name = cstr (bytes_of_hex qn) in
      (match dns_encode_query (nat 4096) true (nn (ios id)) (nn (ios qtype)) name with
       | None -> "0"
       | Some dgq ->
           let r = dns_decode_query dgq (nat (Stdlib.List.length dgq)) in
           (match r.dq_q with
            | Some q when z_to_int r.dq_rv > 0 ->
                let srvd = bytes_of_hex "742e6578616d706c652e636f6d" in
                (match query_datalen q.q_name srvd with
                 | None -> "0"
                 | Some dl ->
                     let dest = if ios fam = 4 then opt4 dest else None in
                     (match aux_answer q dl dest (opt4 nsip) with
                      | Some dg -> "1 " ^ hex_of_bytes dg
                      | None -> "0"))
            | _ -> "0"))
  | [ "P"; dg ] ->
      (* the strict RFC 1035 parser (specification side of C10) on an emitted datagram *)
      let d = bytes_of_hex dg in
      (match wf_msg d with
       | None -> "MALFORMED"
       | Some m ->
           let rrs l = String.concat ","
               (Stdlib.List.map (fun r ->
                    Printf.sprintf "%d:%s:%s" (int_of_n r.rr_type) (hex_of_bytes (dotted r.rr_name))
                      (match r.rr_rdname with Some ls -> hex_of_bytes (dotted ls) | None -> "_")) l) in
           Printf.sprintf "OK %d %d %s %d an=[%s] ns=[%s] ar=[%s]" (int_of_n m.m_id) (if m.m_qr then 1 else 0)
             (hex_of_bytes (dotted m.m_qname)) (int_of_n m.m_qtype) (rrs m.m_answers) (rrs m.m_authority) (rrs m.m_additional))
  | [ "E"; qtype; id; edns; nm ] ->
      (* (C10) the client's query encoder on an arbitrary name / type / id *)
      (match dns_encode_query (nat 4096) (ios edns <> 0) (nn (ios id)) (nn (ios qtype)) (bytes_of_hex nm) with
       | None -> "NOSEND 0"
       | Some dg -> hex_of_bytes dg)
  | _ -> "UNKNOWN-CASE"
