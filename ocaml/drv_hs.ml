(* drv_hs.ml -- scripted handshake steps (the H lines of harness/h_hsfuzz.c) on the model extracted from
   coq/Handshake.v.  This file only parses the case line and prints the state in the harness's format;
   steps the model does not cover print SKIP. *)
module L = Stdlib.List

let z_of_int (i : int) : z = if i = 0 then Z0 else if i > 0 then Zpos (pos_of_int i) else Zneg (pos_of_int (- i))
let int_of_z (x : z) : int = match x with Z0 -> 0 | Zpos p -> int_of_pos p | Zneg p -> - (int_of_pos p)

let trim = String.trim

let is_hex s = s <> "" && (try String.iter (fun c -> match c with '0'..'9' | 'a'..'f' | 'A'..'F' -> () | _ -> raise Exit) s; true with Exit -> false)

let parse_item (it : string) : item =
  let it = trim it in
  if it = "" || it.[0] = 'T' then IT
  else begin
    let (mode, body) =
      if it.[0] = '=' then (1, String.sub it 1 (String.length it - 1))
      else if it.[0] = '@' then (2, String.sub it 1 (String.length it - 1))
      else (0, it) in
    let body = match String.index_opt body '/' with Some i -> String.sub body 0 i | None -> body in
    let body = trim body in
    (* the harness takes the leading hex digits; more than a 64 KiB datagram counts as a time-out *)
    let n = ref 0 in
    (try String.iter (fun c -> match c with '0'..'9' | 'a'..'f' | 'A'..'F' -> incr n | _ -> raise Exit) body with Exit -> ());
    if !n > 2 * 65536 then IT
    else ID (n_of_int mode, bytes_of_hex (if !n = 0 then "-" else String.sub body 0 (!n land (lnot 1))))
  end

let pattern (k : int) : n list =
  let alt i = L.nth src_upenc_alt i and ch i = L.nth src_upenc_chain i in
  match k with
  | 0 -> alt 0 | 1 -> alt 1 | 2 -> ch 0 | 3 -> ch 1 | 4 -> ch 2 | 5 -> ch 3
  | _ -> [n_of_int 97; n_of_int 65]

let schar (i : int) : int = let v = i land 255 in if v >= 128 then v - 256 else v

let run_line (line : string) : string =
  if String.length line < 2 || String.sub line 0 2 <> "H " then "UNKNOWN-CASE"
  else begin
    let parts = String.split_on_char ';' (String.sub line 2 (String.length line - 2)) in
    let hd = L.filter (fun t -> t <> "") (String.split_on_char ' ' (trim (L.hd parts))) in
    match hd with
    | [step; qtype; uid; lzy; denc; seed; arg] ->
        let items = L.filter (fun s -> trim s <> "" || true) (L.tl parts) in
        (* strtok_r skips empty fields *)
        let items = L.filter (fun s -> s <> "") items in
        let items = L.filteri (fun i _ -> i < 512) items in
        let items = L.map parse_item items in
        let ia = int_of_string arg in
        let st =
          match step with
          | "version" -> Some SVersion
          | "edns0" -> Some SEdns0
          | "upenctest" -> Some (SUpenctest (pattern ia))
          | "upenc_auto" -> Some SUpencAuto
          | "downenctest" -> Some SDownenctest
          | "downenc_auto" -> Some SDownencAuto
          | "qtypetest" -> Some SQtypetest
          | "qtype_auto" -> Some SQtypeAuto
          | "switch_codec" -> Some (SSwitchCodec (n_of_int (ia land 0xffffffff)))
          | "switch_downenc" -> Some SSwitchDownenc
          | "try_lazy" -> Some STryLazy
          | "lazyoff" -> Some SLazyoff
          | "autoprobe" -> Some SAutoprobe
          | "set_fragsize" -> Some SSetFragsize
          | "login" -> Some SLogin
          | "full" -> Some (SFull (ia land 1 = 1, (ia lsr 1) land 1 = 1, n_of_int 1000))
          | "rawudp" -> Some (SRawUdp (z_of_int (int_of_string seed)))
          | _ -> None in
        (match st with
         | None -> "SKIP"
         | Some st ->
             let qt = int_of_string qtype in
             let qt = if qt = 0 then int_of_n t_UNSET else qt in
             let s0 = hs_init (n_of_int 1000) (n_of_int qt) (z_of_int (schar (int_of_string uid)))
                        (z_of_int (int_of_string seed)) (int_of_string lzy <> 0) (n_of_int ((int_of_string denc) land 255)) []
                        (L.map n_of_int ([115; 101; 115; 97; 109; 101] @ L.init 26 (fun _ -> 0))) in
             let ((rv, s1), rest) = run_step st s0 items in
             let up = match int_of_n s1.h_up with 0 -> "Base32" | 1 -> "Base64" | 2 -> "Base64u" | _ -> "Base128" in
             let cmd_str (c : n list) = String.init (L.length c) (fun i -> Char.chr (int_of_n (L.nth c i))) in
             (match rv with
              | None -> Printf.sprintf "BAIL 104 q=%d left=%d" (int_of_n s1.h_q) (L.length rest)
              | Some rv ->
                  (* handshake_version hands the seed back through a pointer the harness prints; client_handshake keeps it local *)
                  let seed_out = (match st with SFull _ -> int_of_string seed | _ -> int_of_z s1.h_seed) in
                  Printf.sprintf "rv=%d uid=%d seed=%d qtype=%d up=%s down=%d lazy=%d st=%d conn=%d edns=%d q=%d left=%d tun=0 sys=[%s]"
                    (int_of_z rv) (int_of_z s1.h_uid) seed_out (int_of_n s1.h_qtype) up (schar (int_of_n s1.h_down))
                    (if s1.h_lazy then 1 else 0) (int_of_n s1.h_st) (if s1.h_dns then 1 else 0) (if s1.h_edns then 1 else 0) (int_of_n s1.h_q) (L.length rest)
                    (String.concat "|" (L.map cmd_str s1.h_sys))))
    | _ -> "UNKNOWN-CASE"
  end
