(* drv_c13.ml -- cases for C13 (login reply -> shell commands); same syntax as harness/h_c13.c *)
let z_of_int (i : int) : z =
  if i = 0 then Z0 else if i > 0 then Zpos (pos_of_int i) else Zneg (pos_of_int (-i))

let int_of_z (x : z) : int = match x with Z0 -> 0 | Zpos p -> int_of_pos p | Zneg p -> - (int_of_pos p)

let show_cmds (l : n list list) : string =
  String.concat " " (string_of_int (Stdlib.List.length l) :: Stdlib.List.map hex_of_bytes l)

let rec drop k l = if k <= 0 then l else match l with [] -> [] | _ :: t -> drop (k - 1) t

(* receive buffer of handshake_login: since the repair of the unterminated-sscanf defect the reply of
   n bytes is followed by a NUL written by the client (in[read] = 0), whatever the buffer held before *)
let effective (replies : string list) : n list option list =
  Stdlib.List.map
    (fun r ->
      if r = "T" then None
      else Some (bytes_of_hex r @ [ N0 ]))
    replies

let run_line (line : string) : string =
  let toks = String.split_on_char ' ' (String.trim line) in
  match toks with
  | "L" :: ifn :: _qtype :: _downenc :: sysok :: replies ->
      show_cmds (login_session mask_x86 (cstr (bytes_of_hex ifn)) (sysok <> "0") (effective replies))
  | [ "IP"; ifn; netbits; ip; other ] ->
      (match tun_setip_cmd mask_x86 (cstr (bytes_of_hex ifn)) (cstr (bytes_of_hex ip)) (cstr (bytes_of_hex other))
               (z_of_int (int_of_string netbits)) with
       | Some c -> show_cmds [ c ]
       | None -> show_cmds [])
  | [ "MTU"; ifn; v ] ->
      (match tun_setmtu_cmd (cstr (bytes_of_hex ifn)) (z_of_int (int_of_string v)) with
       | Some c -> show_cmds [ c ]
       | None -> show_cmds [])
  | [ "SC"; h ] ->
      (match parse_login_reply (cstr (bytes_of_hex h)) with
       | Some (((server, client), mtu), netmask) ->
           Printf.sprintf "4 %s %s %d %d" (hex_of_bytes server) (hex_of_bytes client) (int_of_z mtu) (int_of_z netmask)
       | None -> "N")
  | [ "PT"; h ] ->
      (match inet_pton4 (cstr (bytes_of_hex h)) with
       | Some (((a, b), c), d) -> Printf.sprintf "1 %d %d %d %d" (int_of_n a) (int_of_n b) (int_of_n c) (int_of_n d)
       | None -> "0")
  | [ "IA"; h ] ->
      (match inet_addr_glibc (cstr (bytes_of_hex h)) with
       | Some v -> Printf.sprintf "%08x" (int_of_n v)
       | None -> "ffffffff")
  | [ "NT"; w ] -> hex_of_bytes (inet_ntoa (n_of_int (int_of_string w)))
  | _ -> "UNKNOWN-CASE"
