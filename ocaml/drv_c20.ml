(* drv_c20.ml -- cases for C20 (forwarding ring, forward_query / tunnel_bind); same line
   syntax and result text as harness/h_c20.c.  Every ring operation, encoding and lookup is
   computed by the code extracted from coq/FwQuery.v; this file only parses and prints. *)
module L = Stdlib.List

let split_on c s = L.filter (fun t -> t <> "") (String.split_on_char c s)

(* the address tagged with the put number, as harness/h_c20.c tag_addr *)
let tag_addr (n : int) (alen : int) : addr =
  let base = [| 2; 0; (n lsr 8) land 255; n land 255; 10; 0; n land 255; 1; 0; 0; 0; 0; 0; 0; 0; 0 |] in
  let cnt = if alen < 0 then 0 else if alen < 128 then alen else 128 in
  let bytes = L.init cnt (fun i -> if i < 16 then base.(i) else (i * 7 + n) land 255) in
  { alen = n_of_int alen; abytes = L.map n_of_int bytes }

let sockaddr_in (k : int) (port : int) (alen : int) : addr =
  let b = [ 2; 0; (port lsr 8) land 255; port land 255; 10; 0; k land 255; 1; 0; 0; 0; 0; 0; 0; 0; 0 ] in
  let cnt = if alen < 16 then alen else 16 in
  { alen = n_of_int alen; abytes = L.map n_of_int (L.filteri (fun i _ -> i < cnt) b) }

type opres = Put | Got of addr option

(* one ring op on the model state *)
let ring_op (st : fwstate) (putno : int ref) (op : string) : fwstate * opres =
  let body = String.sub op 1 (String.length op - 1) in
  match op.[0] with
  | 'p' ->
      let (ids, alen) =
        match String.index_opt body '/' with
        | Some i -> (String.sub body 0 i, int_of_string (String.sub body (i + 1) (String.length body - i - 1)))
        | None -> (body, 16) in
      let id = (int_of_string ids) land 0xffff in
      incr putno;
      (fw_put st (tag_addr !putno alen, n_of_int id), Put)
  | 'g' ->
      let id = (int_of_string body) land 0xffff in
      (st, Got (fw_get st (n_of_int id)))
  | _ -> failwith "op"

let long_of (r : addr option) : string =
  match r with
  | None -> "N"
  | Some a -> Printf.sprintf "%d:%s" (int_of_n a.alen) (hex_of_bytes a.abytes)

let short_of (r : addr option) : string =
  match r with
  | None -> "N"
  | Some a ->
      let al = int_of_n a.alen in
      if al = 0 then "Z"
      else if al <> 16 then Printf.sprintf "?%d" al
      else (match a.abytes with
            | _ :: _ :: h :: l :: _ -> string_of_int ((int_of_n h) * 256 + int_of_n l)
            | _ -> "?short")

let do_rs (ops : string list) : string =
  let putno = ref 0 in
  let st = ref fw_init in
  let out = ref [] in
  L.iter (fun op ->
      if op.[0] = 'p' || op.[0] = 'g' then begin
        let (st', r) = ring_op !st putno op in
        st := st';
        match r with Got g -> out := long_of g :: !out | Put -> ()
      end) ops;
  if !out = [] then "-" else String.concat " " (L.rev !out)

let alpha = [| "p0"; "p1"; "p2"; "p3"; "g0"; "g1"; "g2"; "g3" |]

let do_rx (depth : int) (prefix : string list) : string =
  let b = Buffer.create 65536 in
  let putno = ref 0 in
  let st0 = ref fw_init in
  let pre = ref [] in
  L.iter (fun op ->
      let (st', r) = ring_op !st0 putno op in
      st0 := st';
      match r with Got g -> pre := short_of g :: !pre | Put -> ()) prefix;
  Buffer.add_string b (String.concat "." (L.rev !pre));
  Buffer.add_char b '|';
  let first = ref true in
  (* depth-first = lexicographic order, most significant op first; the state is shared along
     the path (the C side replays every sequence from fw_query_init) *)
  let rec go d st pn toks =
    if d = 0 then begin
      if not !first then Buffer.add_char b ',';
      first := false;
      Buffer.add_string b (String.concat "." (L.rev toks))
    end else
      for o = 0 to 7 do
        let p = ref pn in
        let (st', r) = ring_op st p alpha.(o) in
        go (d - 1) st' !p (match r with Got g -> short_of g :: toks | Put -> toks)
      done in
  go depth !st0 !putno [];
  Buffer.contents b

let show_sends (ss : send list) : string =
  if ss = [] then "-"
  else String.concat "+" (L.map (fun (d, bytes) ->
      match d with
      | ToLocalDns -> "L|" ^ hex_of_bytes bytes
      | ToAddr a -> Printf.sprintf "C|%d|%s|%s" (int_of_n a.alen) (hex_of_bytes a.abytes) (hex_of_bytes bytes)) ss)

let do_net (steps : string list) : string =
  let st = ref fw_init in
  let outs = L.map (fun stp ->
      let f = Array.of_list (String.split_on_char ',' (String.trim stp)) in
      let ev =
        match f.(0) with
        | "Q" ->
            (* f: Q,k,port,pkthex,fwd,id,type,namehex ; read_dns sets q->fromlen = sizeof(sockaddr_storage) *)
            if f.(4) = "1" then
              Some (EvQuery { q_id = n_of_int (int_of_string f.(5)); q_type = n_of_int (int_of_string f.(6));
                              q_name = bytes_of_hex f.(7);
                              q_from = sockaddr_in (int_of_string f.(1)) (int_of_string f.(2)) 128 })
            else None
        | "QN" -> None
        | "F" | "FL" ->
            Some (EvQuery { q_id = n_of_int (int_of_string f.(4)); q_type = n_of_int (int_of_string f.(5));
                            q_name = bytes_of_hex f.(6);
                            q_from = sockaddr_in (int_of_string f.(2)) (int_of_string f.(3)) (int_of_string f.(1)) })
        | "R" -> Some (EvReply (bytes_of_hex f.(1)))
        | _ -> failwith "step" in
      match ev with
      | None -> "-"
      | Some e ->
          let (st', ss) = step !st e in
          st := st';
          show_sends ss) steps in
  String.concat ";" outs

let run_line (line : string) : string =
  let line = String.trim line in
  if String.length line > 3 && String.sub line 0 3 = "RS " then
    do_rs (split_on ' ' (String.sub line 3 (String.length line - 3)))
  else if String.length line > 3 && String.sub line 0 3 = "RX " then begin
    match split_on ' ' (String.sub line 3 (String.length line - 3)) with
    | d :: prefix -> do_rx (int_of_string d) prefix
    | [] -> "BAD-DEPTH"
  end
  else if String.length line > 4 && String.sub line 0 4 = "NET " then begin
    let rest = String.sub line 4 (String.length line - 4) in
    (* NET <bindport> <topdomainhex> <steps> *)
    let i1 = String.index rest ' ' in
    let rest2 = String.sub rest (i1 + 1) (String.length rest - i1 - 1) in
    let i2 = String.index rest2 ' ' in
    let steps = String.sub rest2 (i2 + 1) (String.length rest2 - i2 - 1) in
    do_net (L.filter (fun s -> String.trim s <> "") (String.split_on_char ';' steps))
  end
  else "UNKNOWN-CASE"
