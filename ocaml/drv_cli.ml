(* drv_cli.ml -- model side of the client histories (see harness/h_clihist.c) *)
let td = ref (O, O)
(* function-static counters of the C code persist across histories of one process *)
let g_datacmc = ref 0
let g_packrecv = ref 0
let g_oos = ref 0
let g_servfail = ref 0

let nn = n_of_int
let nat = nat_of_int
let ios = int_of_string
let ints_of (l : n list) : int list = Stdlib.List.map int_of_n l
let fnv_add (h : int) (b : int list) : int =
  Stdlib.List.fold_left (fun h x -> ((h lxor x) * 16777619) land 0xffffffff) h b
let fnv0 = 2166136261
let z_to_int (x : z) : int =
  match x with Z0 -> 0 | Zpos p -> int_of_pos p | Zneg p -> - (int_of_pos p)
let rec take n l = if n <= 0 then [] else match l with [] -> [] | x :: t -> x :: take (n - 1) t

let digest (s : cstate) : string =
  let o = s.c_out and i = s.c_in in
  let b x = if x then 1 else 0 in
  Printf.sprintf "O%d/%d/%d/%d/%d/%08x I%d/%d/%d/%08x X%d C%d/%d/%d P%d Z%d%d S%d D%d R%d N%d/%d G%d"
    (int_of_n o.k_len) (int_of_n o.k_sentlen) (int_of_n o.k_offset) (int_of_n o.k_seqno) (z_to_int o.k_fragment)
    (fnv_add fnv0 (ints_of (take (min 65536 (int_of_n o.k_len)) o.k_data)))
    (int_of_n i.k_len) (int_of_n i.k_seqno) (z_to_int i.k_fragment) (fnv_add fnv0 (ints_of (take (int_of_n i.k_len) i.k_data)))
    (int_of_n s.c_resent) (int_of_n s.c_chunkid) (int_of_n s.c_prev) (int_of_n s.c_prev2) (int_of_n s.c_ping_soon)
    (b s.c_lazy) (b s.c_dns) (int_of_n s.c_selecttimeout) (int_of_n s.c_lastdown) (int_of_n s.c_rand_seed)
    (z_to_int s.c_sendcnt) (z_to_int s.c_recvcnt) (b s.c_running)

let show (outs : cout list) (s : cstate) : string =
  let sends = Stdlib.List.filter_map (function CQuery d -> Some d | CRaw d -> Some d | CTun _ -> None) outs in
  let tuns = Stdlib.List.filter_map (function CTun d -> Some d | _ -> None) outs in
  Printf.sprintf "%d%s T%d%s | %s" (Stdlib.List.length sends)
    (String.concat "" (Stdlib.List.map (fun d -> " " ^ sum_of_bytes d) sends))
    (Stdlib.List.length tuns) (String.concat "" (Stdlib.List.map (fun d -> " " ^ sum_of_bytes d) tuns)) (digest s)

let run_history (toks : string list) : string =
  match toks with
  | uid :: dom :: codec :: maxlen :: qtype :: edns :: lazy_ :: dns :: st :: chunkid :: seed :: now :: rest ->
      let s0 = client_init (nn (ios uid)) (bytes_of_hex dom) (nn (ios codec)) (nat (ios maxlen)) (nn (ios qtype))
          (ios edns <> 0) (ios lazy_ <> 0) (ios dns <> 0) (nn (ios st)) (nn (ios chunkid)) (nn (ios seed)) (nn (ios now)) in
      let s = ref { s0 with c_datacmc = nat !g_datacmc; c_packrecv = nn !g_packrecv; c_packrecv_oos = nn !g_oos;
                            c_servfail = nn !g_servfail } in
      let events = String.split_on_char ';' (String.concat " " rest) in
      let res = Stdlib.List.filter_map (fun ev ->
          let t = Stdlib.List.filter (fun x -> x <> "") (String.split_on_char ' ' (String.trim ev)) in
          let apply e =
            let (s', outs) = cstep zc_frame unz_frame !s e in
            s := s';
            g_datacmc := int_of_nat s'.c_datacmc; g_packrecv := int_of_n s'.c_packrecv;
            g_oos := int_of_n s'.c_packrecv_oos; g_servfail := int_of_n s'.c_servfail;
            Some (show outs s') in
          match t with
          | [] -> None
          | [ "U"; now; pk ] -> apply (CETun (nn (ios now), bytes_of_hex pk))
          | [ "D"; now; dg ] -> apply (CEDns (nn (ios now), bytes_of_hex dg))
          | [ "O"; now ] -> apply (CETimeout (nn (ios now)))
          | [ "A"; now; idmode; firstc; aqtype; denc; ackmode; dh ] ->
              let c = !s in
              let idm = ios idmode in
              let id = if idm = 0 then c.c_chunkid else if idm = 1 then c.c_prev else if idm = 2 then c.c_prev2 else nn idm in
              let data = bytes_of_hex dh in
              let am = ios ackmode in
              let data =
                match data with
                | b0 :: tl when am <> 0 ->
                    let fr = ((z_to_int c.c_out.k_fragment) - (if am = 2 then 1 else 0)) land 15 in
                    nn (((int_of_n b0) land 0x80) lor (((int_of_n c.c_out.k_seqno) land 7) lsl 4) lor fr) :: tl
                | _ -> data in
              let name = nn (ios firstc) :: bytes_of_hex "616161612e742e6578616d706c652e636f6d" in
              (* the watchdog runs first: when it stops the client the C harness does not even build the answer *)
              let stopped = int_of_n c.c_lastdown + 60 < ios now in
              if stopped then apply (CETimeout (nn (ios now)))
              else begin
                let (dg, td') = write_dns { q_name = name; q_type = nn (ios aqtype); q_id = id } data (nn (ios denc)) !td in
                td := td';
                match dg with
                | Some d -> apply (CEDns (nn (ios now), d))
                | None -> Some (show [] !s)
              end
          | _ -> Some "BADEVENT") events in
      String.concat " ; " res
  | _ -> "BADHISTORY"

(* T lines: the same events through the select-loop model ClientLoop.lstep (see harness/h_clihist.c) *)
let g_lastchunk = ref 0

let run_loop (toks : string list) : string =
  match toks with
  | uid :: dom :: codec :: maxlen :: qtype :: edns :: lazy_ :: dns :: st :: chunkid :: seed :: now :: rest ->
      let s0 = client_init (nn (ios uid)) (bytes_of_hex dom) (nn (ios codec)) (nat (ios maxlen)) (nn (ios qtype))
          (ios edns <> 0) (ios lazy_ <> 0) (ios dns <> 0) (nn (ios st)) (nn (ios chunkid)) (nn (ios seed)) (nn (ios now)) in
      let l = ref { l_c = { s0 with c_datacmc = nat !g_datacmc; c_packrecv = nn !g_packrecv; c_packrecv_oos = nn !g_oos;
                                    c_servfail = nn !g_servfail };
                    l_lastchunk = nn !g_lastchunk } in
      let events = String.split_on_char ';' (String.concat " " rest) in
      let res = Stdlib.List.filter_map (fun ev ->
          let t = Stdlib.List.filter (fun x -> x <> "") (String.split_on_char ' ' (String.trim ev)) in
          let apply e =
            let (l', outs) = lstep zc_frame unz_frame !l e in
            l := l';
            let s' = l'.l_c in
            g_datacmc := int_of_nat s'.c_datacmc; g_packrecv := int_of_n s'.c_packrecv;
            g_oos := int_of_n s'.c_packrecv_oos; g_servfail := int_of_n s'.c_servfail;
            g_lastchunk := int_of_n l'.l_lastchunk;
            Some (show outs s') in
          match t with
          | [] -> None
          | [ "U"; now; pk ] -> apply (LTun (nn (ios now), bytes_of_hex pk))
          | [ "B"; now; pk; dg ] -> apply (LBoth (nn (ios now), bytes_of_hex pk, bytes_of_hex dg))
          | [ "D"; now; dg ] -> apply (LDns (nn (ios now), bytes_of_hex dg))
          | [ "O"; now ] -> apply (LTimeout (nn (ios now)))
          | [ "A"; now; idmode; firstc; aqtype; denc; ackmode; dh ] ->
              let c = !l.l_c in
              let idm = ios idmode in
              let id = if idm = 0 then c.c_chunkid else if idm = 1 then c.c_prev else if idm = 2 then c.c_prev2 else nn idm in
              let data = bytes_of_hex dh in
              let am = ios ackmode in
              let data =
                match data with
                | b0 :: tl when am <> 0 ->
                    let fr = ((z_to_int c.c_out.k_fragment) - (if am = 2 then 1 else 0)) land 15 in
                    nn (((int_of_n b0) land 0x80) lor (((int_of_n c.c_out.k_seqno) land 7) lsl 4) lor fr) :: tl
                | _ -> data in
              let name = nn (ios firstc) :: bytes_of_hex "616161612e742e6578616d706c652e636f6d" in
              let stopped = int_of_n c.c_lastdown + 60 < ios now || not c.c_running in
              if stopped then apply (LTimeout (nn (ios now)))
              else begin
                let (dg, td') = write_dns { q_name = name; q_type = nn (ios aqtype); q_id = id } data (nn (ios denc)) !td in
                td := td';
                match dg with
                | Some d -> apply (LDns (nn (ios now), d))
                | None -> apply (LTimeout (nn (ios now)))
              end
          | _ -> Some "BADEVENT") events in
      String.concat " ; " res
  | _ -> "BADHISTORY"

let run_line (line : string) : string =
  let toks = Stdlib.List.filter (fun x -> x <> "") (String.split_on_char ' ' (String.trim line)) in
  match toks with
  | "J" :: rest -> run_history rest
  | "T" :: rest -> run_loop rest
  | _ -> "UNKNOWN-CASE"
