(* drv_c11.ml -- cases for C11: the relay / option part of a `G` case line of harness/h_handshake.c
   -> the model's prediction of what client_handshake negotiates (Negotiate.negotiate).
   G seed qcase q8 qpunct acase a8 apunct types sizelimit edns rawok fuzz qtype downenc lazy rawmode autofrag fragsize maxlen npkts *)
let case_of = function 0 -> CKeep | 1 -> CLower | 2 -> CUpper | _ -> CRandom
let high_of = function 0 -> HClean | 1 -> HStrip | _ -> HReject
let punct_of = function 0 -> PKeep | 1 -> PPlus | _ -> PUnder
let topdomain = Stdlib.List.map (fun c -> n_of_int (Char.code c)) (Stdlib.List.of_seq (String.to_seq "t.example.com"))
let upname = function 0 -> "Base32" | 1 -> "Base64" | 2 -> "Base64u" | _ -> "Base128"

let run_line (line : string) : string =
  let toks = Stdlib.List.filter (fun s -> s <> "") (String.split_on_char ' ' (String.trim line)) in
  match toks with
  | "G" :: _seed :: rest when Stdlib.List.length rest >= 18 ->
      let v = Array.of_list (Stdlib.List.map int_of_string rest) in
      let r = { r_q = { x_case = case_of v.(0); x_high = high_of v.(1); x_punct = punct_of v.(2) };
                r_a = { x_case = case_of v.(3); x_high = high_of v.(4); x_punct = punct_of v.(5) };
                r_types = n_of_int v.(6); r_limit = n_of_int v.(7); r_edns = (v.(8) <> 0); r_rawok = (v.(9) <> 0) } in
      let p = { p_relay = r; p_qtype = n_of_int v.(11); p_downenc = n_of_int v.(12); p_rawmode = (v.(14) <> 0);
                p_autofrag = (v.(15) <> 0); p_fragsize = n_of_int v.(16); p_maxlen = nat_of_int v.(17);
                p_topdomain = topdomain } in
      (* the random-case member is evaluated with the oracle that flips every letter: with the real
         relay's fair coins a test without a visible flip has probability < 2^-30 *)
      let flip_all = (fun _ -> true) in
      let o = negotiate p flip_all flip_all (n_of_int 1) in
      let d = int_of_n o.o_down in
      Printf.sprintf "%d qtype=%d up=%s down=%c edns=%d conn=%d frag=%d" (int_of_n o.o_rv) (int_of_n o.o_qtype)
        (upname (int_of_n o.o_up)) (if d = 32 then '_' else Char.chr d) (if o.o_edns then 1 else 0)
        (if o.o_raw then 0 else 1) (int_of_n o.o_frag)
  | _ -> "UNKNOWN-CASE"
