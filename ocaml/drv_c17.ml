(* drv_c17.ml -- cases for C17 (check_topdomain, query_datalen); same line syntax and result
   format as harness/h_c17.c.  Every verdict is computed by the extracted model. *)
let items (s : string) : n list list =
  Stdlib.List.map bytes_of_hex (String.split_on_char ',' s)

let run_line (line : string) : string =
  let toks = Stdlib.List.filter (fun t -> t <> "") (String.split_on_char ' ' (String.trim line)) in
  match toks with
  | [ "V"; w; strs ] ->
      let wild = int_of_string w <> 0 in
      String.concat ""
        (Stdlib.List.map (fun s -> if check_topdomain s wild then "0" else "1") (items strs))
  | [ "M"; doms; qs ] ->
      let ds = items doms in
      String.concat " "
        (Stdlib.List.map
           (fun q ->
             String.concat ","
               (Stdlib.List.map
                  (fun d ->
                    match query_datalen q d with
                    | None -> "-1"
                    | Some k -> string_of_int (int_of_nat k))
                  ds))
           (items qs))
  | _ -> "UNKNOWN-CASE"
