(* drv_c07.ml -- cases for C07 (codecs) *)
let codec_of_int i =
  match i with 0 -> b32 | 1 -> b64 | 2 -> b64u | 3 -> b128 | _ -> failwith "codec"

let run_line (line : string) : string =
  let toks = String.split_on_char ' ' (String.trim line) in
  match toks with
  | [ "E"; c; cap; hex ] ->
      let (out, n) = encode (codec_of_int (int_of_string c)) (nat_of_int (int_of_string cap)) (bytes_of_hex hex) in
      Printf.sprintf "%d %d %s" (Stdlib.List.length out) (int_of_nat n) (hex_of_bytes out)
  | [ "D"; c; cap; hex ] ->
      let out = decode (codec_of_int (int_of_string c)) (nat_of_int (int_of_string cap)) (bytes_of_hex hex) in
      Printf.sprintf "%d %s" (Stdlib.List.length out) (hex_of_bytes out)
  | [ "R"; c; cap; hex ] ->
      let cd = codec_of_int (int_of_string c) in
      let d = bytes_of_hex hex in
      let (out, n) = encode cd (nat_of_int (int_of_string cap)) d in
      let dec = decode cd (nat_of_int (Stdlib.List.length d + 8)) out in
      Printf.sprintf "%d %d %s | %d %s" (Stdlib.List.length out) (int_of_nat n) (hex_of_bytes out)
        (Stdlib.List.length dec) (hex_of_bytes dec)
  | [ "RU"; cap; hex ] ->
      let d = bytes_of_hex hex in
      let (out, n) = encode b32 (nat_of_int (int_of_string cap)) d in
      let dec = decode b32 (nat_of_int (Stdlib.List.length d + 8)) (Stdlib.List.map toupper out) in
      Printf.sprintf "%d %s" (Stdlib.List.length dec) (hex_of_bytes dec)
  | [ "CH"; c; cap; hex ] ->
      let cd = codec_of_int (int_of_string c) in
      let d = bytes_of_hex hex in
      (match chunks cd (nat_of_int (int_of_string cap)) (nat_of_int (Stdlib.List.length d)) d with
       | None -> "STUCK"
       | Some ss ->
           let dec = Stdlib.List.concat (Stdlib.List.map (fun s -> decode cd (nat_of_int (Stdlib.List.length s)) s) ss) in
           Printf.sprintf "%d %s" (Stdlib.List.length ss) (hex_of_bytes dec))
  | [ "B58"; v ] -> Printf.sprintf "%d" (int_of_n (b32_5to8 (n_of_int (int_of_string v))))
  | [ "B85"; v ] -> Printf.sprintf "%d" (int_of_n (b32_8to5 (n_of_int (int_of_string v))))
  | _ -> "UNKNOWN-CASE"

