(* drv_srv.ml -- model side of the server histories (see harness/h_srvhist.c) *)
let td = ref (O, O)

let nn = n_of_int
let nat = nat_of_int
let ios = int_of_string

let ints_of (l : n list) : int list = Stdlib.List.map int_of_n l

let fnv_add (h : int) (b : int list) : int =
  Stdlib.List.fold_left (fun h x -> ((h lxor x) * 16777619) land 0xffffffff) h b
let fnv0 = 2166136261
let be16 v = [ (v lsr 8) land 255; v land 255 ]

let z_to_int (x : z) : int =
  match x with Z0 -> 0 | Zpos p -> int_of_pos p | Zneg p -> - (int_of_pos p)

let rec take n l = if n <= 0 then [] else match l with [] -> [] | x :: t -> x :: take (n - 1) t

let hash_addr h (a : addr) = fnv_add (fnv_add (fnv_add h [ int_of_n a.a_fam ]) (ints_of a.a_ip)) (be16 (int_of_n a.a_port))

let hash_q (q : hq) (with2 : bool) =
  let h = fnv_add fnv0 (ints_of q.h_name @ [ 0 ] @ be16 (int_of_n q.h_type)) in
  let h = hash_addr h q.h_from in
  if with2 then hash_addr h q.h_from2 else h

let parse_addr (s : string) : addr =
  match String.split_on_char ':' s with
  | [ f; ip; port ] -> { a_fam = nn (if ios f = 6 then 10 else 2); a_ip = bytes_of_hex ip; a_port = nn (ios port) }
  | _ -> failwith "addr"

let show_addr (a : addr) = Printf.sprintf "%d:%s:%d" (int_of_n a.a_fam) (hex_of_bytes a.a_ip) (int_of_n a.a_port)

let state_digest (st : suser list) : string =
  let b = Buffer.create 256 in
  Stdlib.List.iteri (fun i (u : suser) ->
      if u.u_active then begin
        let bi x = if x then 1 else 0 in
        let hc = Stdlib.List.fold_left (fun h (e : cache_entry) ->
            let al = int_of_n e.ce_len in
            let h = fnv_add h (be16 (int_of_n e.ce_id) @ be16 (int_of_n e.ce_type) @ ints_of e.ce_name @ [ 0 ] @ be16 al) in
            if al > 0 then fnv_add h (ints_of (take al e.ce_answer)) else h) fnv0 u.u_cache in
        let hm mem = Stdlib.List.fold_left (fun h (e : qmem_entry) ->
            fnv_add h (be16 (int_of_n e.qm_type) @ ints_of e.qm_cmc)) fnv0 mem in
        let hqd = Stdlib.List.fold_left (fun h (p : pkt) ->
            let l = int_of_n p.p_len in
            fnv_add (fnv_add h (be16 (l land 0xffff))) (ints_of (take l p.p_data))) fnv0 u.u_queue in
        Buffer.add_string b (Printf.sprintf "%d:A%d%d%d%d,L%d,S%d,C%d%d,E%d,D%d,F%d," i (bi u.u_auth) (bi u.u_auth_raw)
                               (bi u.u_locked) (bi u.u_disabled) (int_of_n u.u_last) (int_of_n u.u_seed)
                               (match u.u_conn with CONN_DNS -> 1 | CONN_RAW -> 0) (bi u.u_lazy)
                               (int_of_n u.u_enc) (int_of_n u.u_downenc) (int_of_n u.u_fragsize));
        Buffer.add_string b (Printf.sprintf "H%08x," (hash_addr fnv0 u.u_host));
        (match u.u_conn with
         | CONN_DNS ->
             Buffer.add_string b (Printf.sprintf "Q%d/%d/%08x,R%d/%d/%d/%08x," (int_of_n u.u_q.h_id) (int_of_n u.u_q.h_id2)
                                    (hash_q u.u_q (int_of_n u.u_q.h_id2 <> 0))
                                    (int_of_n u.u_qs.h_id) (int_of_n u.u_qs.h_id2) (bi u.u_qs_new)
                                    (hash_q u.u_qs (int_of_n u.u_qs.h_id2 <> 0)))
         | CONN_RAW -> Buffer.add_string b (Printf.sprintf "Q%08x," (hash_addr fnv0 u.u_q.h_from)));
        let ip = u.u_in and op = u.u_out in
        Buffer.add_string b (Printf.sprintf "I%d/%d/%d/%d/%08x," (int_of_n ip.p_len) (int_of_n ip.p_offset) (int_of_n ip.p_seqno)
                               (z_to_int ip.p_fragment) (fnv_add fnv0 (ints_of (take (int_of_n ip.p_len) ip.p_data))));
        Buffer.add_string b (Printf.sprintf "O%d/%d/%d/%d/%d/%08x," (int_of_n op.p_len) (int_of_n op.p_offset) (int_of_n op.p_sentlen)
                               (int_of_n op.p_seqno) (z_to_int op.p_fragment)
                               (fnv_add fnv0 (ints_of (take (int_of_n op.p_len) op.p_data))));
        Buffer.add_string b (Printf.sprintf "X%d,U%d/%d/%08x,K%d/%08x,P%d/%08x,M%d/%08x " (int_of_n u.u_resent)
                               (int_of_nat u.u_queue_filled) (int_of_nat u.u_queue_next) hqd
                               (int_of_nat u.u_cache_last) hc (int_of_nat u.u_pingmem_last) (hm u.u_pingmem)
                               (int_of_nat u.u_datamem_last) (hm u.u_datamem))
      end) st;
  Buffer.contents b

let inet_addr (s : string) : int =
  match Stdlib.List.map ios (String.split_on_char '.' s) with
  | [ a; b; c; d ] -> a lor (b lsl 8) lor (c lsl 16) lor (d lsl 24)
  | _ -> failwith "ip"

(* the harness' replacement rand(): wire_srand(seed); rand() *)
let rand_after_seed (seed : int) : int =
  let open Int64 in
  let s = add (mul (of_int seed) 1103515245L) 12345L in
  to_int (logand (shift_right_logical s 16) 0x7fffffffL)

let run_history (loop : bool) (toks : string list) : string =
  match toks with
  | topd :: pass :: checkip :: myip :: netbits :: mtu :: nsip :: bindport :: rest ->
      let cfg = { c_topdomain = bytes_of_hex topd;
                  c_password = (let p = bytes_of_hex pass in take 32 (p @ Stdlib.List.init 33 (fun _ -> N0)));
                  c_check_ip = ios checkip <> 0; c_my_ip = nn (inet_addr myip); c_netmask = nn (ios netbits);
                  c_mtu = nn (ios mtu);
                  c_ns_ip = (if nsip = "-" then None else Some (bytes_of_hex nsip));
                  c_bind = ios bindport <> 0 } in
      let (ips, _) = init_users (nn (inet_addr myip)) (nat (ios netbits)) in
      let st = ref (init_state ips) in
      let prev = ref (nn 0) in
      let events = String.split_on_char ';' (String.concat " " rest) in
      let res = Stdlib.List.filter_map (fun ev ->
          let t = Stdlib.List.filter (fun s -> s <> "") (String.split_on_char ' ' (String.trim ev)) in
          let result =
            match t with
            | [ "X"; now; seed; from; dest; dg ] when loop ->
                let d = if dest = "-" then None else Some (bytes_of_hex dest) in
                Some (siter login_stub zc_frame unz_frame cfg !st !prev
                        (SLDgram (nn (ios now), nn (rand_after_seed (ios seed)), parse_addr from, d, bytes_of_hex dg)))
            | [ "T"; now; pk ] when loop -> Some (siter login_stub zc_frame unz_frame cfg !st !prev (SLTun (nn (ios now), bytes_of_hex pk)))
            | [ "S"; now ] when loop -> Some (siter login_stub zc_frame unz_frame cfg !st !prev (SLTimeout (nn (ios now))))
            | [ "B"; now; seed; from; dest; dg; pk ] when loop ->
                let d = if dest = "-" then None else Some (bytes_of_hex dest) in
                Some (siter login_stub zc_frame unz_frame cfg !st !prev
                        (SLBoth (nn (ios now), bytes_of_hex pk, nn (rand_after_seed (ios seed)), parse_addr from, d, bytes_of_hex dg)))
            | [ "X"; now; seed; from; dest; dg ] ->
                let d = if dest = "-" then None else Some (bytes_of_hex dest) in
                Some (recv_datagram login_stub unz_frame cfg !st (nn (ios now)) (nn (rand_after_seed (ios seed)))
                        (parse_addr from) d (bytes_of_hex dg))
            | [ "T"; now; pk ] -> Some (tunnel_tun zc_frame !st (nn (ios now)) (bytes_of_hex pk))
            | [ "S"; now ] ->
                let st1 = sweep_clear !st (nn (ios now)) in
                Some (sweep_send (nat (Stdlib.List.length st1)) O st1 (nn (ios now)) [])
            | [] -> None
            | _ -> None in
          match (t, result) with
          | ([], _) -> None
          | (_, None) -> Some "BADEVENT"
          | (_, Some (st', outs)) ->
              st := st';
              (match t with _ :: now :: _ -> prev := nn (ios now) | _ -> ());
              let sends = ref [] and tuns = ref [] in
              Stdlib.List.iter (fun o ->
                  match o with
                  | OAnswer (q, id, to_, data, downenc) ->
                      let (dg, td') = write_dns { q_name = q.h_name; q_type = q.h_type; q_id = id } data downenc !td in
                      td := td';
                      (match dg with Some d -> sends := (to_, d) :: !sends | None -> ())
                  | OAux (to_, bytes) -> sends := (to_, bytes) :: !sends
                  | ORaw (to_, bytes) -> sends := (to_, bytes) :: !sends
                  | OTun bytes -> tuns := bytes :: !tuns
                  | OForward q ->
                      (match dns_encode_query buf64k true q.h_id q.h_type q.h_name with
                       | Some d -> sends := ({ a_fam = nn 2; a_ip = [ nn 127; N0; N0; nn 1 ]; a_port = nn (ios bindport) }, d) :: !sends
                       | None -> ())) outs;
              let sends = Stdlib.List.rev !sends and tuns = Stdlib.List.rev !tuns in
              let decoded d =
                (* what the client decoder extracts, when the datagram is a DNS answer (not a raw frame) *)
                match d with
                | b0 :: b1 :: b2 :: _ when Stdlib.List.length d >= 12 && (int_of_n b2) land 0x80 <> 0
                                         && not (int_of_n b0 = 0x10 && int_of_n b1 = 0xd1 && int_of_n b2 = 0x9e) ->
                    let r = client_extract buf64k d (nat (Stdlib.List.length d)) in
                    let rv = z_to_int r.da_rv in
                    Printf.sprintf "{%d:%s}" rv (if rv > 0 then sum_of_bytes (take rv r.da_out) else "-")
                | _ -> "" in
              Some (Printf.sprintf "%d%s T%d%s | %s" (Stdlib.List.length sends)
                      (String.concat "" (Stdlib.List.map (fun (a, d) -> " " ^ show_addr a ^ "=" ^ sum_of_bytes d ^ decoded d) sends))
                      (Stdlib.List.length tuns)
                      (String.concat "" (Stdlib.List.map (fun d -> " " ^ sum_of_bytes d) tuns))
                      (* the real loop is observed at its next select() call, i.e. after the next iteration's clear loop
                         (which runs before the clock moves) *)
                      (state_digest (if loop then (match t with _ :: now :: _ -> sweep_clear !st (nn (ios now)) | _ -> !st) else !st)))) events in
      String.concat " ; " res
  | _ -> "BADHISTORY"

let run_line (line : string) : string =
  let toks = Stdlib.List.filter (fun s -> s <> "") (String.split_on_char ' ' (String.trim line)) in
  match toks with
  | "H" :: rest -> run_history false rest
  | "L" :: rest -> run_history true rest
  | _ -> "UNKNOWN-CASE"
