"""syslib.py -- generator of whole-system schedules (client + server + adversarial network) for
C01/C02: tun packets on both sides, delivery / duplication / drop / re-order of in-flight datagrams,
relay re-sends with rewritten id and randomised case, select time-outs on both sides, clock ticks."""
import vlib

SYS = vlib.tu_harness(['hmain.c', 'h_syshist.c', 'wire_net.c', 'wire_srv.c', 'wire_cli.c'], 'server',
                      ['sendto', 'recvfrom', 'recv', 'recvmsg', 'time', 'write_tun', 'read_tun', 'system', 'rand', 'sleep',
                       'compress2', 'uncompress', 'login_calculate'])
SYS['repo'] = vlib.COMMON_SRCS + ['user.c', 'fw_query.c', 'util.c']

# the same harness with the REAL zlib (no compress2/uncompress replacement): used for the integrity oracle
SYS_REAL = dict(SYS)
SYS_REAL['wraps'] = [w for w in SYS['wraps'] if w not in ('compress2', 'uncompress')]

QTYPES = [10, 65399, 16, 33, 15, 5, 1]
CLIENT_TUN_IP = bytes([10, 0, 0, 2])


class SysGen:
    def __init__(self, rng, fault=0.25):
        r = rng
        self.rng = r
        self.qtype = r.choice(QTYPES)
        self.upcodec = r.randrange(4)
        self.downenc = r.choice(b'TSUV') if self.qtype not in (10, 65399, 16) else r.choice(b'TSUVR')
        if self.qtype in (10, 65399):
            self.downenc = r.choice(b'TR')
        self.lazy = r.randrange(2)
        self.fragsize = r.choice([50, 100, 200, 500, 1200])
        if self.qtype in (5, 1):
            self.fragsize = r.choice([50, 100, 140])
        self.maxlen = r.choice([255, 255, 200, 120, 100])
        self.checkip = 1
        self.st = r.choice([1, 2, 4])
        self.chunkid = r.randrange(65536)
        self.seed = r.randrange(65536)
        self.now = 4000000 + r.randrange(1000)
        self.fault = fault
        self.events = []
        self.sent_up = []      # packets offered at the client's tun
        self.sent_down = []
        # the generator does not know queue lengths exactly; it guesses indices (out-of-range = no-op)
        self.stats = dict(cu=0, su=0, c2s=0, s2c=0, dup=0, drop=0, relay=0, ct=0, ss=0, tick=0)

    def head(self):
        return 'Y %d %d %d %d %d %d %d %d %d %d %d' % (self.qtype, self.upcodec, self.downenc, self.lazy, self.fragsize,
                                                      self.maxlen, self.checkip, self.st, self.chunkid, self.seed, self.now)

    def limit(self, up):
        """largest packet (bytes at the tun device) that fits in 15 fragments with the framing codec (+1 byte)"""
        if up:
            space = self.maxlen - 13 - 8        # domain t.example.com
            space -= space // 57
            cap = (space * [5, 6, 6, 7][self.upcodec]) // 8
            return 15 * cap - 1
        return 15 * min(self.fragsize, 4094) - 1

    def pkt(self, dst, limit=None):
        r = self.rng
        n = r.choice([24, 40, 100, 300, 600, 1200])
        if limit is not None:
            n = max(24, min(n, limit))
        p = bytearray(r.randrange(256) for _ in range(n))
        p[20:24] = dst
        return bytes(p)

    def build(self, nevents, clean_suffix=0):
        r = self.rng
        ev = self.events
        while len(ev) < nevents:
            faulty = len(ev) < nevents - clean_suffix
            f = self.fault if faulty else 0.0
            x = r.random()
            if x < 0.10:
                p = self.pkt(bytes([8, 8, 8, 8]))
                ev.append('CU ' + p.hex())
                self.sent_up.append(p)
                self.stats['cu'] += 1
            elif x < 0.20:
                p = self.pkt(CLIENT_TUN_IP)
                ev.append('SU ' + p.hex())
                self.sent_down.append(p)
                self.stats['su'] += 1
            elif x < 0.50:
                k = 0 if r.random() > f else r.randrange(0, 4)
                y = r.random()
                if y < f * 0.4:
                    ev.append('C2S %d 2 0 0' % k)
                    self.stats['drop'] += 1
                elif y < f * 0.7:
                    ev.append('C2S %d 1 0 0' % k)
                    self.stats['dup'] += 1
                elif y < f:
                    ev.append('C2S %d 3 %d %d' % (k, r.randrange(1, 65536), r.randrange(1 << 29)))
                    self.stats['relay'] += 1
                else:
                    ev.append('C2S %d 0 0 0' % k)
                self.stats['c2s'] += 1
            elif x < 0.80:
                k = 0 if r.random() > f else r.randrange(0, 4)
                y = r.random()
                if y < f * 0.4:
                    ev.append('S2C %d 2' % k)
                    self.stats['drop'] += 1
                elif y < f * 0.8:
                    ev.append('S2C %d 1' % k)
                    self.stats['dup'] += 1
                else:
                    ev.append('S2C %d 0' % k)
                self.stats['s2c'] += 1
            elif x < 0.88:
                ev.append('CT')
                self.stats['ct'] += 1
            elif x < 0.95:
                ev.append('SS')
                self.stats['ss'] += 1
            else:
                ev.append('TICK %d' % r.choice([1, 1, 1, 2, 5] + ([30, 61] if faulty and r.random() < 0.05 else [])))
                self.stats['tick'] += 1
        return self.head() + ' ; ' + ' ; '.join(ev[:nevents])


def gen_histories(seed, n, nevents, tag='sys', fault=0.25, clean_suffix=0):
    rng = vlib.rng_for(seed, tag)
    out = []
    gens = []
    stats = {}
    for _ in range(n):
        g = SysGen(rng, fault=fault)
        out.append(g.build(nevents, clean_suffix))
        gens.append(g)
        for k, v in g.stats.items():
            stats[k] = stats.get(k, 0) + v
    return out, gens, stats


class CleanGen(SysGen):
    """fault prefix (optional) followed by a clean path: every in-flight datagram is delivered
    promptly and in order, timers fire only when nothing is in flight"""

    def drain(self, rounds=10):
        for _ in range(rounds):
            self.events.append('C2S 0 0 0 0')
            self.events.append('S2C 0 0')
            self.events.append('S2C 0 0')

    def settle(self):
        # let the programs find each other again: pings, sweeps, a little time
        for _ in range(10):
            self.events.append('TICK 1')
            self.events.append('CT')
            self.drain(4)
            self.events.append('SS')
            self.drain(2)

    def clean_phase(self, npackets):
        r = self.rng
        offered = []
        for i in range(npackets):
            if r.randrange(2):
                p = self.pkt(bytes([8, 8, 8, 8]), self.limit(True))
                self.events.append('CU ' + p.hex())
                offered.append(('up', len(self.events) - 1, p))
            else:
                p = self.pkt(CLIENT_TUN_IP, self.limit(False))
                self.events.append('SU ' + p.hex())
                offered.append(('down', len(self.events) - 1, p))
            # deliver everything; client timers fire when idle
            for _ in range(r.choice([3, 6, 12])):
                self.drain(3)
                self.events.append('SS')
                self.drain(1)
                if r.randrange(2):
                    self.events.append('TICK 1')
                    self.events.append('CT')
                    self.drain(3)
        for _ in range(8):
            self.events.append('TICK 1')
            self.events.append('CT')
            self.drain(6)
            self.events.append('SS')
            self.drain(3)
        return offered

    def build_clean(self, fault_events, npackets):
        self.had_prefix = bool(fault_events)
        if fault_events:
            SysGen.build(self, fault_events)
            # whatever is still in flight is lost when the path comes back
            for _ in range(12):
                self.events.append('C2S 0 2 0 0')
                self.events.append('S2C 0 2')
            self.settle()
        self.clean_start = len(self.events)
        self.offered = self.clean_phase(npackets)
        return self.head() + ' ; ' + ' ; '.join(self.events)


def gen_clean(seed, n, fault_events, npackets, tag='sysclean'):
    rng = vlib.rng_for(seed, tag)
    out = []
    gens = []
    for _ in range(n):
        g = CleanGen(rng, fault=0.35)
        out.append(g.build_clean(fault_events if rng.randrange(3) else 0, npackets))
        gens.append(g)
    return out, gens


def parse_event_output(o):
    """'S<n> hex.. C<m> hex.. Q<a>/<b> | client digest | server digest' -> dict"""
    head, cli, srv = o.split(' | ', 2) if o.count(' | ') >= 2 else (o, '', '')
    t = head.split(' ')
    i = 0
    res = dict(srv_tun=[], cli_tun=[], q=(0, 0), cli=cli, srv=srv)
    if not t or not t[0].startswith('S'):
        return res
    ns = int(t[0][1:])
    res['srv_tun'] = t[1:1 + ns]
    i = 1 + ns
    nc = int(t[i][1:])
    res['cli_tun'] = t[i + 1:i + 1 + nc]
    i = i + 1 + nc
    a, b = t[i][1:].split('/')
    res['q'] = (int(a), int(b))
    return res
