"""syslib.py -- generator of whole-system schedules (client + server + adversarial network) for
C01/C02: tun packets on both sides, delivery / duplication / drop / re-order of in-flight datagrams,
relay re-sends with rewritten id and randomised case, select time-outs on both sides, clock ticks."""
import vlib

SYS = vlib.tu_harness(['hmain.c', 'h_syshist.c', 'wire_net.c', 'wire_srv.c', 'wire_cli.c'], 'server',
                      ['sendto', 'recvfrom', 'recv', 'recvmsg', 'time', 'write_tun', 'read_tun', 'system', 'rand', 'sleep',
                       'compress2', 'uncompress', 'login_calculate'])
SYS['repo'] = vlib.COMMON_SRCS + ['user.c', 'fw_query.c', 'util.c']

QTYPES = [10, 65399, 16, 33, 15, 5, 1]
CLIENT_TUN_IP = bytes([10, 0, 0, 2])


class SysGen:
    def __init__(self, rng, fault=0.25):
        r = rng
        self.rng = r
        self.qtype = r.choice(QTYPES)
        self.upcodec = r.randrange(4)
        self.downenc = r.choice(b'TSUV') if self.qtype not in (10, 65399, 16) else r.choice(b'TSUVR')
        if self.qtype in (10, 65399):
            self.downenc = r.choice(b'TR')
        self.lazy = r.randrange(2)
        self.fragsize = r.choice([50, 100, 200, 500, 1200])
        if self.qtype in (5, 1):
            self.fragsize = r.choice([50, 100, 140])
        self.maxlen = r.choice([255, 255, 200, 120, 100])
        self.checkip = 1
        self.st = r.choice([1, 2, 4])
        self.chunkid = r.randrange(65536)
        self.seed = r.randrange(65536)
        self.now = 4000000 + r.randrange(1000)
        self.fault = fault
        self.events = []
        self.sent_up = []      # packets offered at the client's tun
        self.sent_down = []
        # the generator does not know queue lengths exactly; it guesses indices (out-of-range = no-op)
        self.stats = dict(cu=0, su=0, c2s=0, s2c=0, dup=0, drop=0, relay=0, ct=0, ss=0, tick=0)

    def head(self):
        return 'Y %d %d %d %d %d %d %d %d %d %d %d' % (self.qtype, self.upcodec, self.downenc, self.lazy, self.fragsize,
                                                      self.maxlen, self.checkip, self.st, self.chunkid, self.seed, self.now)

    def pkt(self, dst):
        r = self.rng
        n = r.choice([24, 40, 100, 300, 600, 1200])
        p = bytearray(r.randrange(256) for _ in range(n))
        p[20:24] = dst
        return bytes(p)

    def build(self, nevents, clean_suffix=0):
        r = self.rng
        ev = self.events
        while len(ev) < nevents:
            faulty = len(ev) < nevents - clean_suffix
            f = self.fault if faulty else 0.0
            x = r.random()
            if x < 0.10:
                p = self.pkt(bytes([8, 8, 8, 8]))
                ev.append('CU ' + p.hex())
                self.sent_up.append(p)
                self.stats['cu'] += 1
            elif x < 0.20:
                p = self.pkt(CLIENT_TUN_IP)
                ev.append('SU ' + p.hex())
                self.sent_down.append(p)
                self.stats['su'] += 1
            elif x < 0.50:
                k = 0 if r.random() > f else r.randrange(0, 4)
                y = r.random()
                if y < f * 0.4:
                    ev.append('C2S %d 2 0 0' % k)
                    self.stats['drop'] += 1
                elif y < f * 0.7:
                    ev.append('C2S %d 1 0 0' % k)
                    self.stats['dup'] += 1
                elif y < f:
                    ev.append('C2S %d 3 %d %d' % (k, r.randrange(1, 65536), r.randrange(1 << 29)))
                    self.stats['relay'] += 1
                else:
                    ev.append('C2S %d 0 0 0' % k)
                self.stats['c2s'] += 1
            elif x < 0.80:
                k = 0 if r.random() > f else r.randrange(0, 4)
                y = r.random()
                if y < f * 0.4:
                    ev.append('S2C %d 2' % k)
                    self.stats['drop'] += 1
                elif y < f * 0.8:
                    ev.append('S2C %d 1' % k)
                    self.stats['dup'] += 1
                else:
                    ev.append('S2C %d 0' % k)
                self.stats['s2c'] += 1
            elif x < 0.88:
                ev.append('CT')
                self.stats['ct'] += 1
            elif x < 0.95:
                ev.append('SS')
                self.stats['ss'] += 1
            else:
                ev.append('TICK %d' % r.choice([1, 1, 1, 2, 5] + ([30, 61] if faulty and r.random() < 0.05 else [])))
                self.stats['tick'] += 1
        return self.head() + ' ; ' + ' ; '.join(ev[:nevents])


def gen_histories(seed, n, nevents, tag='sys', fault=0.25, clean_suffix=0):
    rng = vlib.rng_for(seed, tag)
    out = []
    gens = []
    stats = {}
    for _ in range(n):
        g = SysGen(rng, fault=fault)
        out.append(g.build(nevents, clean_suffix))
        gens.append(g)
        for k, v in g.stats.items():
            stats[k] = stats.get(k, 0) + v
    return out, gens, stats
