"""C04 -- sessions are isolated: source check, routing by tunnel address, slot ownership.
Proof: coq/Properties_C04.v over the validated dispatcher model (Server.v).  Correspondence: real
iodined.c vs the extracted model on the same histories, event by event.  Oracle on the
implementation's output, independent of the model: a monitor that tracks, per slot, the address the
session is bound to (the sender of the version request answered with VACK; later the sender of a
correct raw login) and flags
  * with source checking on: any change of the state digest, or any answer other than one BADIP to
    the sender (or the BADLEN / silence the handler produces before it looks at the userid), for a
    request naming a userid from a foreign address; any effect of a raw data / ping frame from one;
  * a request naming a session silent for more than 60 s that is not refused in the same way;
  * a change of a slot's bound address outside a VACK for it / a correct raw login of it;
  * a tun packet that touches a slot other than the live logged-in owner of its destination address
    (none: shorter than 24 bytes, unassigned or stale address), or makes the server send to an
    address the owner is not bound to;
  * a VACK that hands out a slot whose session was heard from within the last 60 s, or a version
    request that changes another slot."""
import vlib
import authlib
from authlib import parse_history, parse_event_out, split_events, classify, vacks, login_stub, BADIP, BADLEN

NAMING = ('L', 'I', 'S', 'O', 'R', 'N', 'P', 'D')


def monitor(case, out, cnt):
    cfg, evs = parse_history(case)
    outs = split_events(out)
    pw = cfg.password
    bound = {}      # uid -> (fam, iphex)
    was_bound = {}  # uid -> every address the slot was bound to since its allocation (held queries are answered
                    #        to where they came from, which may be the address before a raw-login rebind)
    seeds = {}      # uid -> seed of the last VACK
    answered = {}   # uid -> correct DNS login since the last VACK
    prev = {}

    def bump(k, n=1):
        cnt[k] = cnt.get(k, 0) + n

    def refused_exactly(o, ev, cl):
        """unchanged table, and exactly the refusal outputs, to the sender"""
        if {i: f['_'] for i, f in o['dig'].items()} != {i: f['_'] for i, f in prev.items()}:
            return 'the session table changed'
        if o['tuns']:
            return 'a packet was written to the tun device'
        if cl['kind'].startswith('raw'):
            return None if not o['sends'] else 'a datagram was sent'
        want = [] if cl['pre'] == '' else [BADLEN if cl['pre'] else BADIP]
        got = [s['dec'] if s['rv'] and s['rv'] > 0 else '?' for s in o['sends']]
        if got != want:
            return 'answers %r instead of %r' % (got, want)
        for s in o['sends']:
            if (s['fam'], s['ip'], s['port']) != ev['src']:
                return 'the answer went to another address'
        return None

    for k, ev in enumerate(evs):
        if k >= len(outs):
            return ('output-missing', 'no output for event %d' % k, k)
        o = parse_event_out(outs[k])
        if o is None:
            return ('output-unparsable', 'unparsable output for event %d: %r' % (k, outs[k][:100]), k)
        dig = o['dig']
        now = ev['now']
        bump('events')
        # -- a raw DATA frame names its recipient in the header nibble: with source checking on it must go to an address that
        #    slot is/was bound to (without source checking any sender may speak for the session and replies follow it)
        for snd in o['sends']:
            first = snd['data'].split(':')[-1] if snd['data'] else ''
            if cfg.check_ip and first.startswith('10d19e2') and len(first) >= 8:
                n = int(first[7], 16)
                bump('raw_data_frames_sent')
                if (snd['fam'], snd['ip']) not in was_bound.get(n, set()):
                    return ('raw-data-misdelivered', 'a raw data frame for userid %d was sent to %s:%s, to which that session is not bound (bound: %r)'
                            % (n, snd['fam'], snd['ip'], sorted(was_bound.get(n, set()))), k)
        vk = vacks(o) if ev['kind'] == 'X' else []
        vset = set(v for v, _ in vk)
        if ev['kind'] == 'X':
            src = ev['src']
            cl = classify(ev['dg'], cfg.domain)
            uid = cl['uid']
            names = cl['kind'] in NAMING or cl['kind'] in ('raw_data', 'raw_ping')
            active = uid in prev if uid is not None else False
            # -- a userid-naming request from a foreign address, source checking on
            if names and cfg.check_ip:
                foreign = (not active) or bound.get(uid) != (src[0], src[1])
                if foreign:
                    bump('foreign_requests')
                    bump('foreign_' + cl['kind'])
                    why = refused_exactly(o, ev, cl)
                    if why:
                        return ('foreign-source-accepted', 'request %s naming userid %r from %s:%s, which that slot is not bound to (%r): %s'
                                % (cl['kind'], uid, src[0], src[1], bound.get(uid), why), k)
                else:
                    bump('own_requests')
            # -- expiry: more than 60 s of silence
            if (names or cl['kind'] == 'raw_login') and active and int(prev[uid]['L']) + 60 < now:
                bump('expired_requests')
                why = refused_exactly(o, ev, cl)
                if why:
                    return ('expired-session-accepted', 'request %s naming userid %r, silent since %s (now %d): %s'
                            % (cl['kind'], uid, prev[uid]['L'], now, why), k)
            elif names and active and int(prev[uid]['L']) + 60 == now:
                bump('requests_at_exactly_60s')
            # -- what this event proves / rebinding by raw login
            rebind_ok = None
            if cl['kind'] == 'L' and uid in seeds:
                un = cl['unpacked']
                if len(un) >= 18 and un[1:17] == login_stub(pw, seeds[uid]):
                    answered[uid] = True
            if cl['kind'] == 'raw_login' and uid in seeds and answered.get(uid) and len(cl['payload']) >= 16 and \
                    cl['payload'][:16] == login_stub(pw, (seeds[uid] + 1) & 0xffffffff):
                rebind_ok = uid
            # -- allocation
            for (vu, seed) in vk:
                bump('vacks')
                if vu in prev:
                    bump('vacks_reusing_a_slot')
                    if not int(prev[vu]['L']) + 60 < now:
                        return ('slot-taken-over', 'VACK hands out slot %d although its session was heard from at %s (now %d)'
                                % (vu, prev[vu]['L'], now), k)
                bound[vu] = (src[0], src[1])
                was_bound[vu] = {(src[0], src[1])}
                seeds[vu] = seed
                answered[vu] = False
            if cl['kind'] == 'V':
                for i, f in dig.items():
                    if i not in vset and (i not in prev or prev[i]['_'] != f['_']):
                        return ('version-request-touches-other-slot', 'a version request changed slot %d, which it did not allocate' % i, k)
            # -- the bound address
            for i, f in dig.items():
                if i in prev and i not in vset and f.get('H') != prev[i].get('H'):
                    bump('rebinds')
                    if rebind_ok != i:
                        return ('host-rebound', 'the address slot %d is bound to changed in an event (%s, userid %r) that is neither its '
                                'allocation nor a correct raw login of it' % (i, cl['kind'], uid), k)
                    bound[i] = (src[0], src[1])
                    was_bound[i].add((src[0], src[1]))
            # -- datagrams to other addresses only to where a live logged-in session is bound
            if cfg.check_ip:
                okdst = {(src[0], src[1])}
                for j, f in dig.items():
                    if j in was_bound and f.get('A', '0')[0] == '1':
                        okdst |= was_bound[j]
                for s in o['sends']:
                    if (s['fam'], s['ip']) not in okdst and s['ip'] != '7f000001':
                        return ('datagram-to-unbound-address', 'event %s (userid %r) made the server send to %s:%s, to which no logged-in '
                                'session is or was bound' % (cl['kind'], uid, s['fam'], s['ip']), k)
        elif ev['kind'] == 'T':
            pkt = ev['pkt']
            owner = None
            if len(pkt) >= 24:
                dst = int.from_bytes(pkt[20:24], 'big')
                if dst in cfg.tun_ips:
                    t = cfg.tun_ips.index(dst)
                    f = prev.get(t)
                    if f and f.get('A', '0000')[0] == '1' and f.get('A', '0000')[3] == '0' and int(f['L']) + 60 > now:
                        owner = t
                    elif f and int(f['L']) + 60 == now:
                        bump('tun_at_exactly_60s')
            else:
                bump('tun_short')
            bump('tun_packets')
            if o['tuns']:
                return ('tun-echo', 'a packet read from the tun device was written back to it', k)
            for i, f in dig.items():
                if i != owner and (i not in prev or prev[i]['_'] != f['_']):
                    return ('tun-packet-misrouted', 'a tun packet for %s changed slot %d (owner of the destination: %r)'
                            % (pkt[20:24].hex() if len(pkt) >= 24 else 'a %d-byte packet' % len(pkt), i, owner), k)
            if owner is None:
                bump('tun_dropped')
                if o['sends']:
                    return ('tun-packet-misrouted', 'a tun packet without a live logged-in owner made the server send %d datagram(s)' % len(o['sends']), k)
            else:
                bump('tun_routed')
                if cfg.check_ip and owner in bound:
                    for s in o['sends']:
                        if (s['fam'], s['ip']) not in was_bound[owner]:
                            return ('tun-packet-misrouted', 'a tun packet for slot %d went to %s:%s, not to an address the slot is or was bound to %r'
                                    % (owner, s['fam'], s['ip'], sorted(was_bound[owner])), k)
        prev = dig
    return None


def check(rep):
    rep.cov['rule'] = ('corpus (corpus/C04, corpus/SRV) first; targeted histories (a second and a third address and another port of the '
                       'same address using a logged-in session\'s userid for every command, userids 0..15 from a stranger, raw frames from '
                       'a foreign address with bad and correct hashes, silence of 58..62 s before ping / options / raw login / a new version '
                       'request, tun packets for each session, for an allocated but not logged-in slot, for unassigned addresses and '
                       'shorter than 24 bytes, client-to-client packets, 19 sessions for <= 16 slots; subnets /16../30), then '
                       'srvlib.gen_histories traffic; every history through the real dispatcher, monitor on its output; '
                       'model/implementation diff per event on the corpus and a quarter of the rest (quick) or all (thorough). '
                       'evaluations = events monitored')
    return authlib.run_check(rep, 'C04', monitor, authlib.AuthGen.SCENARIOS_C04, ('c04-gen', 'c04-tgt'))


def replay(rp):
    return authlib.run_replay(rp, 'C04', monitor)
