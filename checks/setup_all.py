"""setup: regenerate SrcConsts.v from /repo, full Coq build (all proofs), extraction, OCaml driver."""
import os, sys
import vlib


def main():
    snap = vlib.Snapshot()
    ok, msg, _ = vlib.translate(snap)
    print(msg)
    if not ok:
        return 1
    rc, out = vlib.coq_make(['all'], timeout=3300)
    print(out[-3000:])
    if rc != 0:
        return 1
    import glob, os
    for f in sorted(glob.glob(os.path.join(vlib.COQ, 'Extract_C*.v'))):
        prop = os.path.basename(f)[len('Extract_'):-2]
        ok, exe, lg = vlib.build_model_driver(prop)
        if not ok:
            print(lg)
            return 1
        print('setup ok:', exe)
    return 0
