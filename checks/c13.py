"""C13 -- peer-supplied text never reaches a shell; only validated numbers do.
Proof: coq/Properties_C13.v (Shell.v, ShellProofs.v) -- for ALL reply byte strings every argument
of system() is one of the two ifconfig templates filled with strict dotted quads / a decimal
integer in 201..1500.
Correspondence: the REAL static handshake_login() of client.c (harness/h_c13.c includes the
snapshot's client.c, tun.c and, for the server-side reply encoder write_dns, iodined.c) is fed
generated login replies under every query type x downstream encoding with system() intercepted;
the recorded system() arguments are compared with the extracted model.  The modelled libc
functions (sscanf with the login format, inet_pton, inet_addr, inet_ntoa) are differential-tested
against the real glibc separately.
Implementation oracle (independent of the model, below): every recorded system() argument must
match the command template of the source with strict dotted quads / an integer in 201..1500 in
the peer-derived positions, and must not contain any shell metacharacter outside the local
interface name."""
import os, re, sys
import vlib
from vlib import hexs

EXPECTED_LOGIN_FMT = b'%64[^-]-%64[^-]-%d-%d'
DEFAULT_SETIP_FMT = b'PATH=/sbin:/bin ifconfig %s %s %s netmask %s'
DEFAULT_SETMTU_FMT = b'PATH=/sbin:/bin ifconfig %s mtu %u'
T_A, T_CNAME, T_NULL, T_MX, T_TXT, T_SRV, T_PRIVATE = 1, 5, 10, 15, 16, 33, 65399
QTYPES = [T_NULL, T_PRIVATE, T_TXT, T_CNAME, T_A, T_MX, T_SRV]
DOWNENCS = 'TSUVR'
META = b' \t\n\r\v\f"\'`;|&$()<>\\*?[]{}!#~'
WRAPS = ['time', 'system', 'errx', 'sleep', 'select', 'sendto', 'recvfrom']

IFNAMES = [b'dns0', b'tun3', b'dns15', b'iodine-tunnel0', b'x' * 15, b'n' * 249]

OCT = rb'(?:25[0-5]|2[0-4][0-9]|1[0-9][0-9]|[0-9]{1,2}|0[0-9]{2})'       # 1-3 digits, value <= 255
QUAD = OCT + rb'\.' + OCT + rb'\.' + OCT + rb'\.' + OCT


def harness_spec():
    repo = [s for s in vlib.COMMON_SRCS if s != 'tun.c'] + ['util.c', 'user.c', 'fw_query.c']
    return dict(harness=['hmain.c', 'h_c13.c', 'h_c13_tun.c', 'h_c13_srv.c'], repo=repo, wraps=WRAPS)


# ------------------------------------------------------------------------------------------
# implementation-level oracle

def split_fmt(fmt):
    """format bytes -> (literal pieces, conversions)"""
    pieces, convs, cur, i = [], [], b'', 0
    while i < len(fmt):
        if fmt[i:i + 1] == b'%' and i + 1 < len(fmt):
            pieces.append(cur)
            cur = b''
            convs.append(fmt[i + 1:i + 2])
            i += 2
        else:
            cur += fmt[i:i + 1]
            i += 1
    pieces.append(cur)
    return pieces, convs


class Oracle:
    def __init__(self, consts):
        self.notes = []
        sf = bytes(consts['SETIP_FMT']) if consts and 'SETIP_FMT' in consts else None
        mf = bytes(consts['SETMTU_FMT']) if consts and 'SETMTU_FMT' in consts else None
        self.setip = self._tpl(sf, [b's', b's', b's', b's']) or self._tpl(DEFAULT_SETIP_FMT, [b's'] * 4)
        self.setmtu = self._tpl(mf, [b's', b'u']) or self._tpl(DEFAULT_SETMTU_FMT, [b's', b'u'])
        if sf is None or self._tpl(sf, [b's'] * 4) is None:
            self.notes.append('tun_setip command format not recognised in the source; oracle uses the documented template')
        if mf is None or self._tpl(mf, [b's', b'u']) is None:
            self.notes.append('tun_setmtu command format not recognised in the source; oracle uses the documented template')

    @staticmethod
    def _tpl(fmt, convs):
        if fmt is None:
            return None
        pieces, cv = split_fmt(fmt)
        if cv != convs:
            return None
        return pieces

    def check_cmd(self, cmd, ifname):
        """None if the command is one of the two templates with validated peer parts."""
        p = self.setip
        rx = re.escape(p[0]) + re.escape(ifname) + re.escape(p[1]) + b'(' + QUAD + b')' + re.escape(p[2]) + \
            b'(' + QUAD + b')' + re.escape(p[3]) + b'(' + QUAD + b')' + re.escape(p[4])
        if re.fullmatch(rx, cmd, flags=re.S):
            return None
        p = self.setmtu
        rx = re.escape(p[0]) + re.escape(ifname) + re.escape(p[1]) + b'([1-9][0-9]{2,3})' + re.escape(p[2])
        m = re.fullmatch(rx, cmd, flags=re.S)
        if m:
            if 201 <= int(m.group(1)) <= 1500:
                return None
            return ('tun_setmtu:range', 'mtu %s outside 201..1500 in a shell command' % m.group(1).decode())
        # which template was it meant to be?
        if cmd.startswith(self.setmtu[0] + ifname + self.setmtu[1]):
            return ('tun_setmtu:range', 'tun_setmtu command with a non-validated number: %r' % cmd[:120])
        pre = self.setip[0] + ifname + self.setip[1]
        if cmd.startswith(pre):
            rest = cmd[len(pre):]
            x = rest.rsplit(self.setip[3], 1)[0]
            half = (len(x) - len(self.setip[2])) // 2
            same = half >= 0 and x == x[:half] + self.setip[2] + x[:half]
            m = re.match(b'(' + QUAD + b')' + re.escape(self.setip[2]), rest, flags=re.S)
            if m and not same:
                return ('tun_setip:other_ip-interpolated', 'text that is not a validated dotted quad after the first address: %r' % cmd[:160])
            return ('tun_setip:inet_addr-trailing-text', 'address field that is not a strict dotted quad reaches the shell: %r' % cmd[:160])
        return ('system:unknown-command', 'system() argument matches neither ifconfig template: %r' % cmd[:160])


def parse_cmds(out):
    """harness result line -> list of command byte strings (None if unparsable)"""
    body = out.split(' #')[0].strip()
    t = body.split(' ')
    try:
        n = int(t[0])
        cmds = [bytes.fromhex(x) if x != '-' else b'' for x in t[1:]]
    except ValueError:
        return None
    if n != len(cmds):
        return None
    return cmds


def case_ifname(case):
    t = case.split(' ')
    return bytes.fromhex(t[1]) if t[1] != '-' else b''


def oracle(orc, case, out):
    kind = case.split(' ', 1)[0]
    if out == '<NO-OUTPUT>':
        return ('harness-crash', 'no output (crash) on this case')
    if kind not in ('L', 'IP', 'MTU'):
        return None
    cmds = parse_cmds(out)
    if cmds is None:
        return ('harness-output', 'unparsable result ' + out[:80])
    ifn = case_ifname(case)
    for c in cmds:
        why = orc.check_cmd(c, ifn)
        if why:
            return why
        # belt and braces: outside the local ifname no metacharacter other than the template's spaces
        stripped = c.replace(ifn, b'', 1)
        bad = [ch for ch in stripped if bytes([ch]) in META.replace(b' ', b'')]
        if bad:
            return ('system:metachar', 'shell metacharacter %r in command %r' % (bytes(bad[:4]), c[:160]))
    return None


# ------------------------------------------------------------------------------------------
# generators

VALID_ADDRS = [b'10.0.0.1', b'10.0.0.2', b'192.168.99.1', b'0.0.0.0', b'255.255.255.255', b'1.2.3.4', b'172.16.0.254',
               b'255.255.255.254', b'9.9.9.9', b'100.64.0.1']
HOSTILE_TAILS = [b' ;id', b';id', b' $(id)', b'$(id)', b' `id`', b'`id`', b' |id', b'|id', b'\nid', b'\tid', b" '", b' "', b' &id',
                 b' >x', b' <x', b' ; reboot', b' \\', b' #', b'\r\nid', b'\x0bid', b'\x0cid', b' ', b'\n', b'\t', b'.', b'..', b'.5',
                 b'x', b'/24', b'\xa0', b'\xff', b'\x80;id', b' 10.0.0.3', b' netmask 0.0.0.0; id']
ODD_ADDRS = [b'10.0.0.2 ;id', b'10.2', b'0x0a.1.2.3', b'010.0.0.1', b'1.2.3.4.5', b'256.1.1.1', b' 1.2.3.4', b'1.2.3.4 ', b'1.2.3',
             b'1..2.3', b'1.2.3.4.', b'.1.2.3.4', b'01.2.3.4', b'00.0.0.0', b'1.2.3.0004', b'1.2.3.4\x0bzz', b'1.2.3.4\xa0', b'', b' ',
             b'1.2.3.256', b'1.2.3.08', b'0x.1.2.3', b'1.2.3.0x', b'4294967295', b'4294967294', b'1.2.65535', b'1.16777215', b'0xffffffff',
             b'0xfffffffe', b'037777777776', b'0X1.0.0.1', b'1.2.3.4\x1c', b'.', b'1. 2', b'1.2.3.4\n', b'1.2.3.4\t;id', b'$(id)', b'`id`',
             b';', b'|', b'localhost', b'::1', b'1.2.3.4/24', b'+1.2.3.4', b'1.2.3.+4', b'1.2.3.4e0', b'\xd9\xa1.2.3.4',
             b'255.255.255.255 ', b'0377.0377.0377.0377', b'0xff.0xff.0xff.0xff', b'0xff.0xff.0xff.0xfe ;id', b'1.2.3.4 ' + b'A' * 55,
             b'9' * 64, b'9' * 65, b'1.2.3.4' + b' ' * 57, b'1.2.3.4' + b' ' * 58, b'A' * 64, b'A' * 65, b';' * 64, b'1.1.1.' + b'0' * 58 + b'1',
             b'1.1.1.' + b'0' * 59 + b'1', b'000.000.000.000', b'0000.0.0.0', b'1.2.3.4.5.6.7.8', b'99999999999999999999', b'1.2.3.99999999999999999999999']
MTU_STRS = [b'1130', b'200', b'201', b'1500', b'1501', b'-1', b'0', b'2147483647', b'2147483648', b'4294967596', b'4294968496', b'4294967497',
            b'9223372036854775807', b'9223372036854775808', b'-9223372036854775808', b'-9223372036854775809', b' 1200', b'+1200',
            b'\t\n1200', b'1200;id', b'1200 ', b'', b'abc', b'0x500', b'01200', b'99999999999999999999999', b'-4294966096', b'- 1200',
            b'+-1200', b'1200$(id)', b'\x0b\x0c\r 1200', b'1200`id`', b'1e3', b'1200.5', b'00000000000000000000000000000000000001200',
            b'18446744073709552816', b'-2147483648', b'1024', b'576', b'1280']
NM_STRS = [b'27', b'0', b'1', b'8', b'24', b'30', b'31', b'32', b'33', b'-1', b'64', b'65', b'100', b'1000', b'-2147483648', b'4294967323', b' 27',
           b'27;id', b'27 $(id)', b'', b'x', b'27-extra-fields', b'+27', b'\n27', b'27\n;id', b'-0', b'-32', b'31x', b'4294967295', b'2147483648',
           b'9223372036854775807', b'40', b'63', b'96', b'16', b'27`id`', b'27|id']


def rand_quad(rng):
    m = rng.randrange(4)
    if m == 0:
        return b'.'.join(str(rng.choice([0, 1, 9, 10, 99, 100, 199, 200, 249, 250, 254, 255])).encode() for _ in range(4))
    return b'.'.join(str(rng.randrange(256)).encode() for _ in range(4))


def mutate(rng, s, alpha):
    s = bytearray(s)
    for _ in range(rng.randrange(1, 4)):
        op = rng.randrange(4)
        pos = rng.randrange(len(s) + 1)
        if op == 0 or not s:
            s.insert(pos, rng.choice(alpha))
        elif op == 1:
            del s[min(pos, len(s) - 1)]
        elif op == 2:
            s[min(pos, len(s) - 1)] = rng.choice(alpha)
        else:
            s[pos:pos] = bytes(rng.choice(alpha) for _ in range(rng.randrange(1, 4)))
    return bytes(s)


ADDR_ALPHA = b'0123456789..  \t\n;xXabfAF0128955--+$`|\x00\xa0'


def gen_addr(rng):
    m = rng.randrange(10)
    if m < 3:
        return rng.choice(VALID_ADDRS) if rng.randrange(2) else rand_quad(rng)
    if m < 5:
        return (rng.choice(VALID_ADDRS) if rng.randrange(2) else rand_quad(rng)) + rng.choice(HOSTILE_TAILS)
    if m < 7:
        return rng.choice(ODD_ADDRS)
    if m < 9:
        return mutate(rng, rand_quad(rng), ADDR_ALPHA)
    return bytes(rng.choice(b'0123456789.') for _ in range(rng.randrange(0, 20)))


def gen_num(rng, pool, lo, hi):
    m = rng.randrange(10)
    if m < 4:
        return rng.choice(pool)
    if m < 7:
        return str(rng.randrange(lo, hi)).encode()
    if m < 8:
        return rng.choice([b'', b' ', b'+', b'-', b'\t']) + str(rng.randrange(lo, hi)).encode() + rng.choice([b'', b' ', b';id', b'$(id)', b'\n'])
    if m < 9:
        return str(rng.choice([2 ** 31, 2 ** 32, 2 ** 63, 2 ** 64]) + rng.randrange(-3, 1600)).encode()
    return mutate(rng, str(rng.randrange(lo, hi)).encode(), b'0123456789 +-;x\n')


def gen_reply(rng):
    """one login reply payload (without terminator)"""
    m = rng.randrange(20)
    if m < 12:
        # structured; each field independently valid or hostile
        server = rng.choice(VALID_ADDRS) if rng.randrange(3) else gen_addr(rng)
        client = rng.choice(VALID_ADDRS) if rng.randrange(3) == 0 else gen_addr(rng)
        mtu = gen_num(rng, MTU_STRS, 150, 1600)
        nm = gen_num(rng, NM_STRS, -2, 40)
        r = server + b'-' + client + b'-' + mtu + b'-' + nm
        x = rng.randrange(12)
        if x == 0:
            r += b'-' + rng.choice([b'extra', b'1', b';id', b''])
        elif x == 1:
            r = b'-'.join(r.split(b'-')[:rng.randrange(1, 4)])
        elif x == 2:
            r = rng.choice([b'-', b' ', b'LNAK', b'BADIP', b'\n']) + r
        elif x == 3:
            r = r.replace(b'-', rng.choice([b'--', b' -', b'- ', b'_']), 1)
        return r
    if m < 14:
        good = rng.choice(VALID_ADDRS) + b'-' + rand_quad(rng) + b'-' + str(rng.choice([1130, 1200, 201, 1500, 1024])).encode() + \
            b'-' + str(rng.choice([27, 24, 8, 30, 16, 1, 32])).encode()
        return good if rng.randrange(2) else mutate(rng, good, b'0123456789.-- ;\n$`|\x00')
    if m < 16:
        return rng.choice([b'LNAK', b'BADIP', b'LNA', b'BADI', b'LNAK10.0.0.1-10.0.0.2-1130-27', b'VNAK', b''])
    if m < 18:
        return bytes(rng.choice(b'0123456789.-- ;\n') for _ in range(rng.randrange(0, 60)))
    return bytes(rng.randrange(256) for _ in range(rng.randrange(0, 200)))


def fits(qtype, downenc, n):
    """payload sizes for which the server encoder sends the whole payload in one answer"""
    if qtype in (T_CNAME, T_A):
        return n <= {'T': 150, 'S': 180, 'U': 180, 'V': 210, 'R': 150}[downenc]
    if qtype in (T_MX, T_SRV):
        return n <= 150      # a single name, as above
    if qtype == T_TXT:
        return n <= 2000
    return n <= 4000


def pick_transport(rng, n):
    for _ in range(20):
        q, d = rng.choice(QTYPES), rng.choice(DOWNENCS)
        if fits(q, d, n):
            return q, d
    return T_NULL, 'T'


def terminated(r):
    return r if b'\0' in r else r + b'\0'


def L(ifn, qtype, downenc, ok, replies):
    return 'L %s %d %s %d %s' % (hexs(ifn), qtype, downenc, 1 if ok else 0, ' '.join('T' if r is None else hexs(r) for r in replies))


def gen_cases(seed, tier):
    rng = vlib.rng_for(seed, 'c13')
    cases = []
    stats = dict(corpus=0, login_fixed=0, login_structured=0, login_session=0, login_overlay=0, setip_direct=0, setmtu_direct=0,
                 libc_sscanf=0, libc_inet_pton=0, libc_inet_addr=0, libc_inet_ntoa=0)
    cp = os.path.join(vlib.VERIF, 'corpus', 'C13')
    if os.path.isdir(cp):
        for fn in sorted(os.listdir(cp)):
            for l in open(os.path.join(cp, fn)):
                l = l.strip()
                if l and not l.startswith('#'):
                    cases.append(l)
                    stats['corpus'] += 1
    big = tier == 'thorough'
    # fixed: the normal reply and every listed hostile address / number under EVERY transport
    normal = b'10.0.0.1-10.0.0.2-1130-27'
    for q in QTYPES:
        for d in DOWNENCS:
            for ok in (1, 0):
                cases.append(L(b'dns0', q, d, ok, [terminated(normal)]))
                stats['login_fixed'] += 1
            for r in (b'10.0.0.1-10.0.0.2 ;id-1130-27', b'10.0.0.1 ;id-10.0.0.2-1130-27', b'10.0.0.1-10.0.0.2-4294967295-27',
                      b'10.0.0.1-10.0.0.2-1130-27;id', b'10.0.0.1-$(id)-1130-27', b'10.0.0.1-10.0.0.2\n/bin/id-1130-27'):
                cases.append(L(b'dns0', q, d, 1, [terminated(r)]))
                stats['login_fixed'] += 1
    for a in ODD_ADDRS + [v + t for v in VALID_ADDRS[:3] for t in HOSTILE_TAILS]:
        for pos in (0, 1):
            r = (a + b'-10.0.0.2-1130-27') if pos == 0 else (b'10.0.0.1-' + a + b'-1130-27')
            q, d = pick_transport(rng, len(r) + 1)
            cases.append(L(rng.choice(IFNAMES), q, d, 1, [terminated(r)]))
            stats['login_fixed'] += 1
    for ms in MTU_STRS:
        r = b'10.0.0.1-10.0.0.2-' + ms + b'-27'
        q, d = pick_transport(rng, len(r) + 1)
        cases.append(L(rng.choice(IFNAMES), q, d, 1, [terminated(r)]))
        stats['login_fixed'] += 1
    for ns in NM_STRS:
        r = b'10.0.0.1-10.0.0.2-1130-' + ns
        q, d = pick_transport(rng, len(r) + 1)
        cases.append(L(rng.choice(IFNAMES), q, d, 1, [terminated(r)]))
        stats['login_fixed'] += 1
    # structured / random replies through the whole client path
    for _ in range(60000 if big else 7000):
        r = terminated(gen_reply(rng))
        q, d = pick_transport(rng, len(r))
        cases.append(L(rng.choice(IFNAMES), q, d, rng.randrange(5) != 0, [r]))
        stats['login_structured'] += 1
    # sessions: rejected replies / time-outs first, at most 5 attempts
    for _ in range(6000 if big else 800):
        reps = []
        for _ in range(rng.randrange(2, 7)):
            x = rng.randrange(4)
            reps.append(None if x == 0 else terminated(gen_reply(rng)))
        q, d = pick_transport(rng, max([len(r) for r in reps if r is not None] + [1]))
        cases.append(L(rng.choice(IFNAMES), q, d, rng.randrange(4) != 0, reps))
        stats['login_session'] += 1
    # overlay: NULL/PRIVATE answers are copied without terminator; a short reply after a longer rejected
    # one is completed by the bytes left in the buffer (here: digits / hostile text continuing a number)
    for _ in range(3000 if big else 400):
        tail = rng.choice([b'', b'7', b'12345', b';id', b' $(id)', b'-x', b'.5', b'\n'])
        second = rng.choice(VALID_ADDRS) + b'-' + gen_addr(rng).replace(b'\0', b'') + b'-' + str(rng.choice([1130, 150, 1500, 1501])).encode() + \
            b'-' + str(rng.choice([2, 27, 3])).encode()
        if len(second) < 2:
            continue
        first = b'X' * len(second) + tail + b'\0'       # no '-' : rejected, loop continues
        cases.append(L(rng.choice(IFNAMES), rng.choice([T_NULL, T_PRIVATE]), rng.choice(DOWNENCS), 1, [first, second]))
        stats['login_overlay'] += 1
    # tun_setip / tun_setmtu called directly (more strings per second; no 64-byte field limit)
    nets = [0, 1, 2, 7, 8, 9, 16, 23, 24, 27, 30, 31, 32, 33, 34, 63, 64, 65, 95, 96, 97, 1000, 100000, -1, -2, -31, -32, -33, -2147483648, -2147483647]
    for a in VALID_ADDRS[:4]:
        for nb in nets:
            cases.append('IP %s %d %s %s' % (hexs(b'dns0'), nb, hexs(a), hexs(b'10.0.0.1')))
            stats['setip_direct'] += 1
    for _ in range(60000 if big else 6000):
        ip = gen_addr(rng).replace(b'\0', b'')
        other = (rng.choice(VALID_ADDRS) if rng.randrange(2) else gen_addr(rng)).replace(b'\0', b'')
        nb = rng.choice(nets) if rng.randrange(3) == 0 else rng.randrange(-5, 70)
        cases.append('IP %s %d %s %s' % (hexs(rng.choice(IFNAMES)), nb, hexs(ip), hexs(other)))
        stats['setip_direct'] += 1
    mtus = list(range(190, 215)) + list(range(1490, 1512)) + [0, 1, -1, -200, -201, -1500, 2 ** 31 - 1, -2 ** 31, -2 ** 31 + 1300, 65535, 65536 + 1200, 9000]
    for v in mtus:
        cases.append('MTU %s %d' % (hexs(b'dns0'), v))
        stats['setmtu_direct'] += 1
    for _ in range(10000 if big else 1500):
        v = rng.choice([rng.randrange(0, 2000), rng.randrange(-2 ** 31, 2 ** 31), rng.randrange(150, 1600)])
        cases.append('MTU %s %d' % (hexs(rng.choice(IFNAMES)), v))
        stats['setmtu_direct'] += 1
    # libc models against the real glibc
    nl = 100000 if big else 10000
    for _ in range(nl):
        cases.append('SC ' + hexs(gen_reply(rng).split(b'\0')[0] if rng.randrange(4) else gen_reply(rng)))
        stats['libc_sscanf'] += 1
    for ms in MTU_STRS + NM_STRS:
        cases.append('SC ' + hexs(b'a-b-' + ms + b'-' + ms))
        cases.append('SC ' + hexs(b'a-b-1-' + ms))
        stats['libc_sscanf'] += 2
    for n in (63, 64, 65, 66, 128, 129):
        cases.append('SC ' + hexs(b'A' * n + b'-' + b'B' * n + b'-1-2'))
        cases.append('SC ' + hexs(b'A' * n + b'-b-1-2'))
        stats['libc_sscanf'] += 2
    for a in ODD_ADDRS + VALID_ADDRS + [v + t for v in VALID_ADDRS[:3] for t in HOSTILE_TAILS]:
        cases.append('PT ' + hexs(a))
        cases.append('IA ' + hexs(a))
        stats['libc_inet_pton'] += 1
        stats['libc_inet_addr'] += 1
    for _ in range(nl):
        a = gen_addr(rng)
        cases.append('PT ' + hexs(a))
        stats['libc_inet_pton'] += 1
        b = gen_addr(rng) if rng.randrange(3) else mutate(rng, rng.choice(
            [b'0x7f.1', b'0377.1.2', b'1.2.3', b'127.1', b'0x7f000001', b'017700000001', b'2130706433', b'1.0xffffff', b'0xa.0xb.0xc.0xd', b'1.2.0xffff']),
            b'0123456789abcdefxX. \t;')
        cases.append('IA ' + hexs(b))
        stats['libc_inet_addr'] += 1
    for w in [0, 1, 255, 256, 65535, 65536, 16777215, 16777216, 2 ** 31, 2 ** 32 - 1, 2 ** 32 - 32, 0x0a000002, 0x64400001]:
        cases.append('NT %d' % w)
        stats['libc_inet_ntoa'] += 1
    for _ in range(20000 if big else 2000):
        cases.append('NT %d' % rng.randrange(2 ** 32))
        stats['libc_inet_ntoa'] += 1
    return cases, stats


def strip_info(line):
    return line.split(' #')[0].rstrip()


def shrink_case(case):
    return case if len(case) < 400 else case[:400] + '...(truncated; full case in file)'


def describe(case):
    """human-readable rendering of a case for the replay file"""
    t = case.split(' ')
    if t[0] == 'L':
        reps = []
        for r in t[5:]:
            reps.append('<no answer>' if r == 'T' else repr(bytes.fromhex(r) if r != '-' else b''))
        return 'login reply payload(s) %s via qtype %s downenc %s (ifname %r, system() of the first command returns %s)' % (
            ', '.join(reps), t[2], t[3], bytes.fromhex(t[1]) if t[1] != '-' else b'', '0' if t[4] != '0' else 'non-zero')
    if t[0] == 'IP':
        return 'tun_setip(ip=%r, other_ip=%r, netbits=%s)' % (bytes.fromhex(t[3]) if t[3] != '-' else b'',
                                                             bytes.fromhex(t[4]) if t[4] != '-' else b'', t[2])
    if t[0] == 'MTU':
        return 'tun_setmtu(%s)' % t[2]
    return case[:200]


def nontrivial(case, out):
    k = case.split(' ', 1)[0]
    if k in ('L', 'IP', 'MTU'):
        return not out.startswith('0')
    if k == 'SC':
        return out.startswith('4')
    if k == 'PT':
        return out.startswith('1')
    if k == 'IA':
        return out != 'ffffffff'
    return True


TRUSTED = [
    'modelled libc (glibc 2.36, "C" locale; differential-tested, not proved): sscanf("%64[^-]-%64[^-]-%d-%d") incl. %d = skip '
    'isspace, optional sign, digits, strtol saturation to LONG_MIN/LONG_MAX then truncation to int (measured: 2^63 -> -1, '
    '-(2^63+1) -> 0, 2^31 -> -2^31, 2^32+300 -> 300); inet_pton(AF_INET) = exactly four parts, digits only, value <= 255, '
    'leading zero rejected (measured: "01.2.3.4", "00.0.0.0" -> 0); inet_addr = inet_aton ignoring everything after a '
    'white-space character; inet_ntoa; snprintf %s/%u with truncation at size-1',
    'system() is an output event of the model; its return value is an argument (both values are exercised)',
    'netmask word: the C computes it with signed left shifts that overflow int for every netbits >= 1 and with a shift count '
    'outside 0..31 for netbits outside 1..32 (undefined in ISO C); theorems hold for ANY resulting 32-bit word, the '
    'correspondence uses the gcc -O0 / x86-64 result (wrap, count mod 32)',
    'if_name is a local value (static char[250] in tun.c set from the command line / kernel), set by the harness',
    'the receive buffer of handshake_login is not NUL-terminated by the client: replies are generated with a terminator, or '
    '(NULL/PRIVATE overlay cases) follow a longer terminated reply; the theorems quantify over the whole buffer content',
]


def check(rep):
    ctx = vlib.prepare(rep, harnesses={'cli': harness_spec()}, sanitize=False)
    rep.cov['trusted_base'] += TRUSTED
    consts = ctx.consts or {}
    have = 'SETIP_PTON_IP' in consts
    if have and bytes(consts.get('LOGIN_FMT', [])) != EXPECTED_LOGIN_FMT:
        ctx.broken.append(('correspondence:login-format',
                           'handshake_login no longer parses the reply with sscanf("%s") as modelled (found %r)' % (
                               EXPECTED_LOGIN_FMT.decode(), bytes(consts.get('LOGIN_FMT', [])))))
    if 'SETIP_PTON_IP' in consts:
        rep.notes.append('tun_setip as read from the source: inet_addr check=%d, inet_pton(ip)=%d, inet_pton(other_ip)=%d, '
                         'command line addresses = (%s, %s); mtu accepted in %d < mtu <= %d' % (
                             consts['SETIP_CHECK_INET_ADDR'], consts['SETIP_PTON_IP'], consts['SETIP_PTON_OTHER'],
                             'other_ip' if consts['SETIP_ARG1'] else 'ip', 'other_ip' if consts['SETIP_ARG2'] else 'ip',
                             consts['MTU_LO'], consts['MTU_HI']))
    elif ctx.consts is not None:
        # the model cannot follow the source: one message instead of the derived proof / extraction failures
        ctx.broken[:] = [b for b in ctx.broken if b[0] not in ('proof', 'extraction')]
        ctx.broken.append(('translator:C13', 'tun_setip / tun_setmtu / handshake_login no longer have the shape the C13 model is '
                           'generated from (%s); proofs and model were not rebuilt' % consts.get('C13_ERROR', 'anchor missing')))
    rep.notes.append('not run under UBSan: tun_setip computes the netmask with signed left shifts that overflow int for every '
                     'netbits >= 1 (tun.c: netmask <<= (32 - netbits)) and with a shift count outside 0..31 for netbits <= 0 or > 32; '
                     'UBSan stops on the normal reply already -- reported as a C06-type observation')
    orc = Oracle(consts)
    if have:
        for n in orc.notes:
            ctx.broken.append(('correspondence:command-format', n))
    cases, stats = gen_cases(rep.seed, rep.tier)
    rep.cov['rule'] = ('corpus first; real handshake_login fed (a) the normal reply and 6 hostile replies under all 7 query types x 5 '
                       'downstream encodings x system() return 0/non-0, (b) every listed odd/hostile address in the server and the client '
                       'field, every listed mtu / netmask string, (c) structured replies with each field independently valid / hostile / '
                       'mutated, missing and extra fields, LNAK/BADIP, random digit-dot-dash strings, random bytes, (d) sessions of 2-6 '
                       'replies / time-outs, (e) unterminated replies completed by older buffer content; tun_setip/tun_setmtu directly on '
                       'address pools x netbits -2^31..100000 and mtu boundaries; glibc sscanf/inet_pton/inet_addr/inet_ntoa vs their models. '
                       'non-trivial = at least one command issued / conversion succeeded (measured on the implementation output)')
    rep.cov['input_distribution'] = stats
    rep.cov['evaluations'] = len(cases)
    rep.cov['exhaustive'] = False
    rep.cov['samples'] = [shrink_case(c) for c in (cases[0:2] + cases[900:903] + cases[-30000:-29998] + cases[-3:-1])]
    impl = None
    if 'cli' in ctx.exe:
        rc, impl, err = vlib.parallel_run_cases(ctx.exe['cli'], cases, ctx.work, 'impl')
        if rc != 0:
            ctx.broken.append(('impl-crash', 'implementation harness exited with %d: %s' % (rc, err[-300:])))
        rep.cov['distinct_nontrivial'] = len(set(c for c, o in zip(cases, impl) if nontrivial(c, o)))
        rep.cov['commands_observed'] = sum(len(parse_cmds(o) or []) for c, o in zip(cases, impl) if c[0] in 'LIM')
        rep.cov['logins_with_commands'] = sum(1 for c, o in zip(cases, impl) if c[0] == 'L' and not o.startswith('0'))
        rep.cov['logins_rejected'] = sum(1 for c, o in zip(cases, impl) if c[0] == 'L' and o.startswith('0'))
        seen = set()
        for c, o in zip(cases, impl):
            why = oracle(orc, c, o)
            if why and why[0] not in seen:
                seen.add(why[0])
                rep.add_violation(why[0], why[1] + ' -- ' + describe(c),
                                  dict(kind='input', driver='cli', case=c, input=describe(c), observed=o, expected=why[1]))
    if ctx.model and impl is not None:
        rc, mod, err = vlib.parallel_run_cases(ctx.model, cases, ctx.work, 'model')
        impl_s = [strip_info(l) for l in impl]
        d = vlib.first_diff(cases, impl_s, mod)
        rep.cov['traces_validated_against_impl'] = len(cases) if d is None else d
        if d is not None:
            ctx.broken.append(('correspondence', 'model and implementation disagree on case %r (%s): impl=%r model=%r' % (
                shrink_case(cases[d]), describe(cases[d])[:300], impl_s[d][:300], mod[d][:300])))
    if not rep.violations:
        ctx.report_broken()
    return rep


def replay(rp):
    rep = vlib.Report('C13', 'quick', rp.get('seed', 1))
    ctx = vlib.prepare(rep, harnesses={'cli': harness_spec()}, sanitize=False, prove_it=False)
    case = rp.get('case')
    if not case:
        print('replay names a broken obligation, not an input:', rp.get('broken'))
        return 1
    if 'cli' not in ctx.exe:
        print('harness does not build:', ctx.broken)
        return 1
    cp = os.path.join(ctx.work, 'replay.cases')
    open(cp, 'w').write(case + '\n')
    rc, impl, err = vlib.run_cases(ctx.exe['cli'], cp)
    rc2, mod, err2 = vlib.run_cases(ctx.model, cp) if ctx.model else (0, ['-'], '')
    print('case :', shrink_case(case))
    print('input:', describe(case))
    print('impl :', impl[0][:600] if impl else err)
    for c in (parse_cmds(impl[0]) or []) if impl else []:
        print('   system(%r)' % c)
    print('model:', mod[0][:600] if mod else err2)
    why = oracle(Oracle(ctx.consts or {}), case, impl[0]) if impl else ('crash', 'crash')
    print('oracle:', (why[0] + ': ' + why[1]) if why else 'ok')
    return 1 if why else 0
