"""C07 -- Base32/64/64u/128 codecs: lossless, alphabet-pure, capacity-exact.
Proof: coq/Properties_C07.v (CodecProofs.v).  Correspondence: real base*_ops vs the
extracted model.  Implementation oracle (independent of the model): round-trip, documented
alphabet, capacity/guard bytes, consumed-count closed form, ratio, chunk loop."""
import os, sys
import vlib
from vlib import hexs

CODECS = [(0, 'Base32', 5, 5, 8), (1, 'Base64', 6, 3, 4), (2, 'Base64u', 6, 3, 4), (3, 'Base128', 7, 7, 8)]
# documented alphabets, written out from the property text (NOT from the translator)
DOC_ALPHA = {
    0: set(b'abcdefghijklmnopqrstuvwxyz012345'),
    1: set(b'abcdefghijklmnopqrstuvwxyzABCDEFGHIJKLMNOPQRSTUVWXYZ0123456789-+'),
    2: set(b'abcdefghijklmnopqrstuvwxyzABCDEFGHIJKLMNOPQRSTUVWXYZ0123456789-_'),
    3: set(b'abcdefghijklmnopqrstuvwxyzABCDEFGHIJKLMNOPQRSTUVWXYZ0123456789') | set(range(0xBC, 0xFE)),
}


def enclen(k, n):
    return (8 * n + k - 1) // k


def fit(k, cap, n):
    """greatest m <= n with enclen(m) <= cap"""
    m = min(n, (cap * k) // 8)
    while m > 0 and enclen(k, m) > cap:
        m -= 1
    return m


def gen_cases(seed, tier):
    rng = vlib.rng_for(seed, 'c07')
    cases = []
    stats = dict(corpus=0, exhaustive_small=0, pair_sweeps=0, random_roundtrip=0, decode_malformed=0, chunks=0, upper=0)
    # corpus first
    cp = os.path.join(vlib.VERIF, 'corpus', 'C07')
    if os.path.isdir(cp):
        for fn in sorted(os.listdir(cp)):
            for l in open(os.path.join(cp, fn)):
                l = l.strip()
                if l and not l.startswith('#'):
                    cases.append(l)
                    stats['corpus'] += 1
    for c, name, k, R, E in CODECS:
        # exhaustive: all inputs of <= 1 byte (quick) / <= 2 bytes (thorough) x all capacities 0..2*len+2
        cases.append('R %d 0 -' % c)
        cases.append('R %d 5 -' % c)
        for a in range(256):
            for cap in range(0, 5):
                cases.append('R %d %d %02x' % (c, cap, a))
                stats['exhaustive_small'] += 1
        if tier == 'thorough':
            for a in range(256):
                for b in range(256):
                    for cap in range(0, 7):
                        cases.append('R %d %d %02x%02x' % (c, cap, a, b))
                        stats['exhaustive_small'] += 1
        else:
            for _ in range(1500):
                a, b = rng.randrange(256), rng.randrange(256)
                cases.append('R %d %d %02x%02x' % (c, rng.randrange(0, 7), a, b))
                stats['exhaustive_small'] += 1
        # every adjacent byte pair in every position of a block: one long input per alignment
        pairs = bytearray()
        for a in range(256):
            for b in range(256):
                pairs += bytes((a, b))
        for pad in range(R):
            d = bytes(pad) + bytes(pairs)
            cases.append('R %d %d %s' % (c, 2 * len(d) + 2, d.hex()))
            stats['pair_sweeps'] += 1
        # random lengths x capacities biased to block boundaries +-1
        nrand = 400 if tier == 'quick' else 6000
        for _ in range(nrand):
            mode = rng.randrange(6)
            if mode == 0:
                n = rng.randrange(0, 40)
            elif mode == 1:
                n = rng.choice([R, 2 * R, 10 * R, 57, 58, 255, 256, 1024, 4096]) + rng.randrange(-2, 3)
            else:
                n = rng.randrange(0, 4097 if mode == 2 else 300)
            n = max(0, n)
            fill = rng.randrange(5)
            if fill == 0:
                d = bytes([0xff]) * n
            elif fill == 1:
                d = bytes(n)
            else:
                d = bytes(rng.randrange(256) for _ in range(n))
            full = enclen(k, n)
            cm = rng.randrange(5)
            if cm == 0:
                cap = full + rng.randrange(0, 4)
            elif cm == 1:
                cap = max(0, (rng.randrange(0, full // E + 2)) * E + rng.randrange(-1, 2))
            elif cm == 2:
                cap = rng.randrange(0, 2 * n + 3)
            elif cm == 3:
                cap = max(0, full - rng.randrange(0, 4))
            else:
                cap = rng.randrange(0, 10)
            cases.append('R %d %d %s' % (c, cap, hexs(d)))
            stats['random_roundtrip'] += 1
            if c == 0 and rng.randrange(3) == 0:
                cases.append('RU %d %s' % (cap, hexs(d)))
                stats['upper'] += 1
            if rng.randrange(4) == 0 and n <= 600:
                cases.append('CH %d %d %s' % (c, rng.choice([2, 3, 4, 5, 7, 8, 9, 16, 57, 100, 255]), hexs(d)))
                stats['chunks'] += 1
        # malformed / arbitrary strings to the decoder: all bytes, NULs, short tails, small caps
        ndec = 300 if tier == 'quick' else 5000
        alpha = sorted(DOC_ALPHA[c])
        for _ in range(ndec):
            n = rng.randrange(0, 70)
            m = rng.randrange(4)
            if m == 0:
                s = bytes(rng.randrange(256) for _ in range(n))
            elif m == 1:
                s = bytes(rng.choice(alpha) for _ in range(n))
            elif m == 2:
                s = bytearray(rng.choice(alpha) for _ in range(n))
                for _ in range(rng.randrange(0, 3)):
                    if n:
                        s[rng.randrange(n)] = rng.choice([0, 0x2e, 0x80, 0xff, 0x41, 0x7f])
                s = bytes(s)
            else:
                s = bytes(rng.choice(alpha + [0]) for _ in range(n))
            cap = rng.choice([0, 1, 2, 3, n, n // 2, 2 * n + 1])
            cases.append('D %d %d %s' % (c, cap, hexs(s)))
            stats['decode_malformed'] += 1
        # all char pairs through the decoder (every alignment of a block)
        allp = bytearray()
        for a in range(1, 256):
            for b in range(1, 256, 1 if tier == 'thorough' else 3):
                allp += bytes((a, b))
        for pad in range(E if tier == 'thorough' else 2):
            s = bytes([alpha[0]]) * pad + bytes(allp)
            cases.append('D %d %d %s' % (c, len(s), s.hex()))
            stats['decode_malformed'] += 1
    for v in range(0, 64):
        cases.append('B58 %d' % v)
    for v in range(0, 256):
        cases.append('B85 %d' % v)
    return cases, stats


def oracle(case, out):
    """Implementation-level oracle: returns None if fine, else a description."""
    t = case.split(' ')
    if 'GUARD-VIOLATED' in out:
        return 'write outside capacity+terminator'
    if out.startswith('BADRET') or out == '<NO-OUTPUT>':
        return 'bad return value / crash: ' + out
    if t[0] == 'R':
        c, cap = int(t[1]), int(t[2])
        d = bytes.fromhex(t[3]) if t[3] != '-' else b''
        k = CODECS[c][2]
        try:
            left, right = out.split(' | ')
            nout, cons, shex = left.split(' ')
            ndec, dhex = right.split(' ')[:2]
        except ValueError:
            return 'unparsable result ' + out[:80]
        nout, cons, ndec = int(nout), int(cons), int(ndec)
        s = bytes.fromhex(shex) if shex != '-' else b''
        dec = bytes.fromhex(dhex) if dhex != '-' else b''
        if nout > cap:
            return 'encoder wrote %d chars with capacity %d' % (nout, cap)
        if any(ch not in DOC_ALPHA[c] for ch in s):
            return 'character outside the documented alphabet'
        m = fit(k, cap, len(d))
        if cons != m:
            return 'consumed %d but the emitted text decodes to %d bytes / %d fit' % (cons, ndec, m)
        if nout != enclen(k, m):
            return 'emitted %d chars for %d bytes (documented ratio gives %d)' % (nout, m, enclen(k, m))
        if dec != d[:cons]:
            return 'decode(encode(x)) differs from the first %d input bytes' % cons
        return None
    if t[0] == 'RU':
        cap = int(t[1])
        d = bytes.fromhex(t[2]) if t[2] != '-' else b''
        m = fit(5, cap, len(d))
        ndec, dhex = out.split(' ')[:2]
        dec = bytes.fromhex(dhex) if dhex != '-' else b''
        if dec != d[:m]:
            return 'upper-cased Base32 text does not decode to the input'
        return None
    if t[0] == 'CH':
        d = bytes.fromhex(t[3]) if t[3] != '-' else b''
        if out in ('STUCK', 'OVERLONG'):
            return 'chunk loop ' + out
        n, dhex = out.split(' ')[:2]
        dec = bytes.fromhex(dhex) if dhex != '-' else b''
        if dec != d:
            return 'successive chunks lose or repeat bytes'
        return None
    if t[0] == 'D':
        cap = int(t[2])
        n = int(out.split(' ')[0])
        if n > cap:
            return 'decoder wrote %d bytes with capacity %d' % (n, cap)
        return None
    if t[0] == 'B58':
        if int(out) not in DOC_ALPHA[0]:
            return 'b32_5to8 outside alphabet'
    return None


def shrink_case(case):
    return case if len(case) < 400 else case[:400] + '...(truncated; full case in file)'


def nontrivial(case):
    t = case.split(' ')
    return t[0] in ('R', 'RU', 'CH', 'D') and t[-1] != '-'


def check(rep):
    ctx = vlib.prepare(rep, harnesses=('pure',), sanitize=(rep.tier == 'thorough'))
    cases, stats = gen_cases(rep.seed, rep.tier)
    rep.cov['rule'] = ('corpus first; per codec: all inputs of <=1 byte (thorough: <=2 bytes) x capacities, every adjacent '
                       'byte pair in every block position (one long input per alignment), random lengths 0..4096 x '
                       'capacities biased to block boundaries, arbitrary/malformed strings to the decoder, all char pairs '
                       'at block alignments, chunk loops, upper-cased Base32. distinct = distinct case lines; non-trivial = non-empty payload')
    rep.cov['input_distribution'] = stats
    rep.cov['evaluations'] = len(cases)
    rep.cov['distinct_nontrivial'] = len(set(c for c in cases if nontrivial(c)))
    rep.cov['samples'] = [shrink_case(c) for c in (cases[0:2] + cases[1300:1303] + cases[-300:-298])]
    rep.cov['exhaustive'] = False
    impl = None
    if 'pure' in ctx.exe:
        rc, impl, err = vlib.parallel_run_cases(ctx.exe['pure'], cases, ctx.work, 'impl')
        if rc != 0:
            ctx.broken.append(('impl-crash', 'implementation harness exited with %d: %s' % (rc, err[-300:])))
        # implementation oracle
        for i, (c, o) in enumerate(zip(cases, impl)):
            why = oracle(c, o)
            if why:
                rep.add_violation('codec:' + c.split(' ')[0] + c.split(' ')[1], why,
                                  dict(kind='input', driver='pure', case=c, observed=o, expected=why))
                break
        if 'pure' in ctx.san:
            sub = [c for c in cases if len(c) < 20000][:20000]
            rc, sl, err = vlib.parallel_run_cases(ctx.san['pure'], sub, ctx.work, 'san')
            rep.cov['sanitizer_cases'] = len(sub)
            if rc != 0:
                idx = next((i for i, l in enumerate(sl) if l == '<NO-OUTPUT>'), None)
                rep.add_violation('sanitizer', 'ASan/UBSan report in codec: ' + err[-400:],
                                  dict(kind='input', driver='pure.san', case=sub[idx] if idx is not None else None, observed=err[-2000:]))
    if ctx.model and impl is not None:
        rc, mod, err = vlib.parallel_run_cases(ctx.model, cases, ctx.work, 'model')
        d = vlib.first_diff(cases, impl, mod)
        rep.cov['traces_validated_against_impl'] = len(cases) if d is None else d
        if d is not None:
            ctx.broken.append(('correspondence', 'model and implementation disagree on case %r: impl=%r model=%r' % (
                shrink_case(cases[d]), impl[d][:200], mod[d][:200])))
            if not rep.violations:
                # the model carries the theorems; a disagreement on a case the oracle accepts means the model is stale
                pass
    if not rep.violations:
        ctx.report_broken()
    return rep


def replay(rp):
    import tempfile
    rep = vlib.Report('C07', 'quick', rp.get('seed', 1))
    ctx = vlib.prepare(rep, harnesses=('pure',), sanitize=False, prove_it=False)
    case = rp.get('case')
    if not case:
        print('replay names a broken obligation, not an input:', rp.get('broken'))
        return 1
    cp = os.path.join(ctx.work, 'replay.cases')
    open(cp, 'w').write(case + '\n')
    rc, impl, err = vlib.run_cases(ctx.exe['pure'], cp)
    rc2, mod, err2 = vlib.run_cases(ctx.model, cp) if ctx.model else (0, ['-'], '')
    print('case :', shrink_case(case))
    print('impl :', impl[0][:300] if impl else err)
    print('model:', mod[0][:300] if mod else err2)
    why = oracle(case, impl[0]) if impl else 'crash'
    print('oracle:', why or 'ok')
    return 1 if why else 0
