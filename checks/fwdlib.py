"""fwdlib.py -- client-to-client forwarding through the real server (C01): several logged-in sessions,
packets from the server's tun device and from other clients' upstream addressed to one recipient whose
downstream is busy, the recipient fetching everything fragment by fragment.

The sessions are scripted in Python from doc/proto_00000502.txt (immediate mode: every query is answered
at once, so the acknowledgement each ping has to carry is known in advance); the server is the real
tunnel_dns/tunnel_tun of iodined.c in the server-history harness (harness/h_srvhist.c: sockets, tun device,
zlib and login_calculate replaced; zlib by the framing codec 0x5A + bytes, which has no checksum, so a
mis-assembled stream is not hidden by a failing Adler-32).

Oracle (integrity, from the property text): every complete downstream stream the recipient reassembles from
the answers addressed to it -- the 2-byte data header of each answer read as the document prescribes -- is the
framing of exactly one tun frame that was offered before: at the server's tun device for that recipient or by
another session's upstream.  Delivery itself is only counted (coverage), never demanded.
Then model == implementation per event (Server.recv_datagram / Server.tun_packet of the extracted model)."""
import re
import vlib, srvlib
from srvlib import b32c, enc, qname, login_stub

RAWHDR = bytes([0x10, 0xd1, 0x9e])

SEND_RE = re.compile(r'^(\d+):([0-9a-f]*):(\d+)=([0-9a-f]+|-)(\{(-?\d+):([0-9a-f]*|-)\})?$')


class Peer:
    def __init__(self, g, addr):
        self.s = srvlib.Session(g, addr)
        self.up_seq = 0
        self.cmc = 0


def ping(g, p, dn_seq, dn_frag):
    s = p.s
    s.rs = (s.rs + 1) & 0xffff
    data = bytes([s.uid, ((dn_seq & 7) << 4) | (dn_frag & 15), s.rs >> 8, s.rs & 255])
    g.emit_query(s.addr, qname(b'p', enc(0, data), g.domain))


def upstream(g, p, frame, pieces=1):
    """one tun frame as a complete upstream packet in `pieces` fragments, nothing acknowledged"""
    s = p.s
    p.up_seq = (p.up_seq + 1) & 7
    comp = bytes([0x5A]) + frame
    step = (len(comp) + pieces - 1) // pieces
    parts = [comp[i:i + step] for i in range(0, len(comp), step)]
    for j, part in enumerate(parts):
        last = j == len(parts) - 1
        hdr = ('%x' % s.uid).encode() + b32c(((p.up_seq & 7) << 2) | ((j & 15) >> 2)) + b32c((j & 3) << 3) + b32c(1 if last else 0)
        hdr += b'abcdefghijklmnopqrstuvwxyz0123456789'[p.cmc % 36:p.cmc % 36 + 1]
        p.cmc += 1
        g.emit_query(s.addr, qname(hdr, enc(s.codec, part), g.domain))


def frame(rng, n, dst_ip, tag):
    f = bytearray(rng.randrange(256) for _ in range(n))
    f[0:4] = bytes([0, 0, 8, 0])
    f[4] = 0x45
    f[20:24] = dst_ip.to_bytes(4, 'big')
    f[24] = tag
    return bytes(f)


def gen(seed, tier):
    rng = vlib.rng_for(seed, 'c01-forward')
    hs, meta = [], []
    n = 60 if tier == 'quick' else 600
    nraw = 0
    for it in range(n):
        g = srvlib.HistGen(rng, adversarial=0.0)
        g.no_case_relay = True
        g.check_ip = 1
        g.netbits = 27
        g.myip = '10.0.0.1'
        g.tun_ips = [0x0a000002 + i for i in range(16)]
        g.nusers = 16
        g.qtype = rng.choice(g.QTYPES)
        npeers = rng.choice([2, 2, 3])
        peers = [Peer(g, (4, bytes([192, 0, 2, 10 + k]), 4000 + k)) for k in range(npeers)]
        for p in peers:
            g.version(p.s)
            g.login(p.s)
        b = peers[-1]                       # the recipient
        senders = peers[:-1]
        # one recipient in four lives in raw-UDP mode: what is forwarded to it arrives as one raw data frame per packet
        b.raw = rng.randrange(4) == 0
        if b.raw:
            g.emit_dgram(b.s.addr, RAWHDR + bytes([0x10 | (b.s.uid & 15)]) + login_stub(g.password, (b.s.seed + 1) & 0xffffffff))
        b_ip = g.tun_ips[b.s.uid]
        offered = []                        # frames that may legitimately reach b
        own = []
        tag = 1
        # the recipient's own upstream traffic (to the outside): leaves a complete stream in its reassembly buffer
        if rng.randrange(4) and not b.raw:
            f = frame(rng, rng.choice([40, 80, 120]), 0x08080808, 0xB0)
            upstream(g, b, f, pieces=rng.choice([1, 2]))
            own.append(f)
        for p in senders:
            if rng.randrange(2):
                codec = rng.randrange(4)
                p.s.rs = (p.s.rs + 1) & 0xffff
                cm = b32c(p.s.rs >> 10) + b32c(p.s.rs >> 5) + b32c(p.s.rs)
                g.emit_query(p.s.addr, b's' + b32c(p.s.uid) + b32c([5, 6, 26, 7][codec]) + cm + b'.' + g.domain)
                p.s.codec = codec
        # some senders move to raw-UDP mode (after an upstream packet of their own in DNS mode, which stays in their reassembly
        # buffer): their frames for the recipient then arrive as raw data frames
        for p in senders:
            p.raw = False
            if rng.randrange(3) == 0:
                fx = frame(rng, rng.choice([60, 90, 130]), 0x08080808, 0xA0 + p.s.uid)
                upstream(g, p, fx, pieces=rng.choice([1, 2]))
                g.emit_dgram(p.s.addr, RAWHDR + bytes([0x10 | (p.s.uid & 15)]) + login_stub(g.password, (p.s.seed + 1) & 0xffffffff))
                p.raw = True
                nraw += 1
        # what arrives for the recipient, in this order: k0 frames on the server's tun, then frames from the senders, interleaved
        plan = []
        for _ in range(rng.choice([1, 1, 2])):
            plan.append(('tun', None))
        for _ in range(rng.choice([1, 2, 3])):
            plan.append(('peer', rng.choice(senders)))
        if rng.randrange(3) == 0:
            rng.shuffle(plan)
        sizes = []
        for kind, p in plan:
            nbytes = rng.choice([30, 60, 99, 100, 101, 150, 250]) if kind == 'tun' else rng.choice([30, 50, 70, 90])
            f = frame(rng, nbytes, b_ip, tag)
            tag += 1
            offered.append(f)
            sizes.append(len(f) + 1)
            if kind == 'tun':
                g.events.append('T %d %s' % (g.now, f.hex()))
            elif p.raw:
                g.emit_dgram(p.s.addr, RAWHDR + bytes([0x20 | (p.s.uid & 15), 0x5A]) + f)
            else:
                upstream(g, p, f, pieces=rng.choice([1, 1, 2]))
            g.now += rng.choice([0, 0, 1])
        # the recipient fetches: fragment size 100 (the default after the version handshake), seqno 1, 2, ... per packet
        first_fetch = len(g.events)
        ack = (0, 0)
        for k, total in enumerate([] if b.raw else sizes):
            nfr = (total + 99) // 100
            for j in range(nfr):
                ping(g, b, *ack)
                ack = ((k + 1) & 7, j)
                g.now += rng.choice([0, 0, 1])
        ping(g, b, *ack)
        ping(g, b, *ack)
        hs.append('H ' + g.cfg() + ' ; ' + ' ; '.join(g.events))
        meta.append(dict(recipient='%d:%s:%d' % (2, b.s.addr[1].hex(), b.s.addr[2]), offered=offered, own=own, first_fetch=first_fetch, raw=b.raw,
                         npeers=npeers, plan=[k for k, _ in plan]))
    return hs, meta


def gen_reuse(seed, tier):
    """slot re-use: a first session sends k upstream packets and falls silent; after the 60 s time-out another client gets the slot
    and sends a multi-fragment upstream packet whose later fragments each begin with the framing byte -- if anything of the first
    session's reassembly state survived (sequence number, fragment number, buffer), a piece of the packet would pass for a packet"""
    rng = vlib.rng_for(seed, 'c01-reuse')
    hs, meta = [], []
    for k in ([1, 2, 3, 7, 8, 9] if tier == 'quick' else list(range(1, 18))):
        for pieces in (2, 3):
            g = srvlib.HistGen(rng, adversarial=0.0)
            g.no_case_relay = True
            g.check_ip = 1
            g.set_net('10.0.0.1', 27)
            g.qtype = rng.choice(g.QTYPES)
            a = Peer(g, (4, bytes([192, 0, 2, 40]), 4400))
            b = Peer(g, (4, bytes([198, 51, 100, 41]), 4401))
            offered = []
            g.version(a.s)
            g.login(a.s)
            for j in range(k):
                f = frame(rng, rng.choice([40, 60]), 0x08080808, 0xA0 + (j & 15))
                upstream(g, a, f, pieces=1)
                offered.append(f)
            g.now += rng.choice([61, 75, 200])
            g.version(b.s)
            g.login(b.s)
            f = bytearray(frame(rng, 120, 0x08080808, 0xBB))
            step = (len(f) + 1 + pieces - 1) // pieces
            for q in range(1, pieces):
                f[q * step - 1] = 0x5A          # byte q*step of the framed stream: the first byte of fragment q
            upstream(g, b, bytes(f), pieces=pieces)
            offered.append(bytes(f))
            hs.append('H ' + g.cfg() + ' ; ' + ' ; '.join(g.events))
            meta.append(dict(offered=offered, k=k, pieces=pieces))
    return hs, meta


def tun_monitor(m, out):
    """first event whose tun write is not an offered frame"""
    ok = set(m['offered'])
    n = 0
    for i, seg in enumerate(out.split(' ; ')):
        t = seg.split(' | ')[0].split(' T', 1)
        if len(t) != 2:
            continue
        toks = t[1].split(' ')
        for hx in toks[1:1 + int(toks[0])] if toks[0].isdigit() else []:
            w = bytes.fromhex(hx) if hx != '-' else b''
            if w in ok:
                n += 1
            else:
                return (i, w), n
    return None, n


def monitor(h, m, out):
    """returns (event index, text) for the first stream reaching the recipient that is not an offered frame, else None;
    and the number of offered frames delivered"""
    segs = out.split(' ; ')
    ok = set(bytes([0x5A]) + f for f in m['offered'])
    stream = None
    cur = None
    delivered = 0
    for i, seg in enumerate(segs):
        toks = seg.split(' | ')[0].split(' ')
        for t in toks[1:]:
            mm = SEND_RE.match(t)
            if not mm or '%s:%s:%s' % (mm.group(1), mm.group(2), mm.group(3)) != m['recipient']:
                continue
            if m.get('raw'):
                dg = bytes.fromhex(mm.group(4)) if mm.group(4) != '-' else b''
                if len(dg) >= 4 and dg[:3] == RAWHDR and (dg[3] & 0xf0) == 0x20:
                    if dg[4:] in ok:
                        delivered += 1
                    else:
                        return (i, 'the raw-mode recipient %s is sent a data frame whose %d-byte payload is not the compressed form of a frame '
                                'offered to it (offered: %s)' % (m['recipient'], len(dg) - 4, ', '.join('%d bytes' % (len(f) + 1) for f in m['offered']))), delivered
                continue
            if mm.group(5) is None:
                continue
            rv = int(mm.group(6))
            dec = bytes.fromhex(mm.group(7)) if mm.group(7) not in ('-', '') else b''
            if rv < 2 or len(dec) < 2 or i < m['first_fetch']:
                continue
            seq, fr, last = (dec[1] >> 5) & 7, (dec[1] >> 1) & 15, dec[1] & 1
            pl = dec[2:]
            if not pl:
                continue
            if cur == (seq, fr):
                continue                            # the same fragment again
            if fr == 0:
                stream = b''
            elif stream is None or cur is None or cur[0] != seq or fr != cur[1] + 1:
                stream = None                       # a gap: this packet cannot be reassembled, the client drops it
                cur = (seq, fr)
                continue
            stream += pl
            cur = (seq, fr)
            if last:
                if stream in ok:
                    delivered += 1
                else:
                    what = 'not a frame offered to it'
                    for f in m['own']:
                        if len(stream) > 1 and (bytes([0x5A]) + f).startswith(stream):
                            what = 'a piece of its OWN upstream traffic'
                    return (i, 'the recipient %s reassembles a downstream packet of %d bytes that is %s (offered: %s)' % (
                        m['recipient'], len(stream), what, ', '.join('%d bytes' % (len(f) + 1) for f in m['offered']))), delivered
                stream = None
    return None, delivered


def stage(rep, ctx, key='forwarding'):
    if 'srv' not in ctx.exe:
        return
    import os
    hs, meta = gen(rep.seed, rep.tier)
    os.environ['VERIF_FULL'] = '1'
    try:
        rc, impl, err = vlib.parallel_run_cases(ctx.exe['srv'], hs, ctx.work, 'fwd-impl')
        ok, model, lg = vlib.build_model_driver('SRV')
        mod = None
        if ok:
            rc2, mod, err2 = vlib.parallel_run_cases(model, hs, ctx.work, 'fwd-model')
        else:
            ctx.broken.append(('extraction', 'server model driver does not build: ' + lg[-300:]))
    finally:
        os.environ.pop('VERIF_FULL', None)
    if rc != 0:
        ctx.broken.append(('impl-crash', 'server history harness exited with %d: %s' % (rc, err[-300:])))
    tot = 0
    want = 0
    for h, m, o in zip(hs, meta, impl):
        bad, d = monitor(h, m, o)
        tot += d
        want += len(m['offered'])
        if bad and not rep.violations:
            i, why = bad
            evs = h.split(' ; ')
            rep.add_violation(key + ':fabricated', 'client-to-client forwarding, %d sessions, arrivals %s: %s' % (m['npeers'], '/'.join(m['plan']), why),
                              dict(kind='history', driver='srv', case=' ; '.join(evs[:i + 2]), event=i, observed=o.split(' ; ')[i][:800],
                                   expected='only frames read from the server tun for that client or from another client\'s upstream'))
    if mod is not None:
        d = vlib.first_diff(hs, impl, mod)
        if d is not None:
            ea, eb = impl[d].split(' ; '), mod[d].split(' ; ')
            k = next((j for j, (x, y) in enumerate(zip(ea, eb)) if x != y), min(len(ea), len(eb)))
            ctx.broken.append(('correspondence', 'forwarding stage: server model and the real server disagree at event %d of %r: impl=%r model=%r' % (
                k, ' ; '.join(hs[d].split(' ; ')[:k + 2])[-2500:], ea[k][:300] if k < len(ea) else '', eb[k][:300] if k < len(eb) else '')))
    # slot re-use
    hs2, meta2 = gen_reuse(rep.seed, rep.tier)
    os.environ['VERIF_FULL'] = '1'
    try:
        rc3, impl3, err3 = vlib.parallel_run_cases(ctx.exe['srv'], hs2, ctx.work, 'reuse-impl')
        mod3 = vlib.parallel_run_cases(model, hs2, ctx.work, 'reuse-model')[1] if ok else None
    finally:
        os.environ.pop('VERIF_FULL', None)
    wr = 0
    for h, m, o in zip(hs2, meta2, impl3):
        bad, n = tun_monitor(m, o)
        wr += n
        if bad and not rep.violations:
            i, w = bad
            evs = h.split(' ; ')
            rep.add_violation(key + ':reuse-fabricated', 'a slot re-used after the 60 s time-out (first session sent %d packets), the new client sends one packet in %d '
                              'fragments: the server writes %d bytes to its tun device that no client sent as a packet (a piece of the new packet: '
                              'reassembly state of the previous session survived)' % (m['k'], m['pieces'], len(w)),
                              dict(kind='history', driver='srv', case=' ; '.join(evs[:i + 2]), event=i, observed=o.split(' ; ')[i][:600],
                                   expected='only whole frames offered by a client'))
    if mod3 is not None:
        d3 = vlib.first_diff(hs2, impl3, mod3)
        if d3 is not None:
            ea, eb = impl3[d3].split(' ; '), mod3[d3].split(' ; ')
            k3 = next((j for j, (x, y) in enumerate(zip(ea, eb)) if x != y), min(len(ea), len(eb)))
            ctx.broken.append(('correspondence', 'slot re-use histories: server model and the real server disagree at event %d of %r: impl=%r model=%r' % (
                k3, ' ; '.join(hs2[d3].split(' ; ')[:k3 + 2])[-2000:], ea[k3][:300] if k3 < len(ea) else '', eb[k3][:300] if k3 < len(eb) else '')))
    rep.cov['slot_reuse'] = dict(histories=len(hs2), frames_written_to_tun=wr, frames_offered=sum(len(m['offered']) for m in meta2))
    rep.cov['evaluations'] = rep.cov.get('evaluations', 0) + sum(h.count(' ; ') for h in hs2)
    rep.cov['forwarding'] = dict(histories=len(hs), frames_offered_to_recipients=want, frames_reassembled_by_recipients=tot,
                                 three_session_histories=sum(1 for m in meta if m['npeers'] == 3))
    if want and tot * 2 < want:
        ctx.broken.append(('correspondence', 'forwarding stage: only %d of %d offered frames reach the scripted recipients -- the scripted '
                           'sessions no longer follow the server (the stage would be vacuous)' % (tot, want)))
    rep.cov['evaluations'] = rep.cov.get('evaluations', 0) + sum(h.count(' ; ') for h in hs)
