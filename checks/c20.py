"""C20 -- forwarded non-tunnel queries get their reply routed back to the asker.
Proof: coq/Properties_C20.v (FwQuery.v, FwQueryProofs.v).  Correspondence: (a) the real
fw_query_init/put/get vs the extracted ring model, exhaustively over {put,get} x ids {0,1,2,3}
from start-up and from pre-filled rings around the wrap, plus long random sequences; (b) the real
static tunnel_dns -> forward_query and tunnel_bind of iodined.c (server translation unit, wrapped
recvmsg/recvfrom/sendto) vs the extracted datagram-level model, per step: destination + exact
bytes.  Implementation-level oracle (independent of the model): the 16 most recent forwarded
queries; a reply whose id is distinct among them goes to exactly that asker, byte-identical; a
reply with an unknown id reaches no client address; the forwarded datagram, read by this file's
own DNS parser, has the same id / name / type and is addressed to 127.0.0.1:bind_port."""
import os, sys, struct, re
import vlib
from vlib import hexs

SIZE = 16                       # the property's "16"; deliberately NOT taken from the source
ALPHA = ['p0', 'p1', 'p2', 'p3', 'g0', 'g1', 'g2', 'g3']
WRAPS = ['sendto', 'recvfrom', 'recvmsg', 'time']


def harness_spec():
    return {'srv': vlib.tu_harness(['hmain.c', 'h_c20.c'], 'server', WRAPS)}


# ------------------------------------------------------------------------------------------
# ring level: own bookkeeping of "the 16 most recent puts"

def tag_bytes(n, alen):
    b = [2, 0, (n >> 8) & 255, n & 255, 10, 0, n & 255, 1] + [0] * 8
    return bytes((b[i] if i < 16 else (i * 7 + n) & 255) for i in range(min(max(alen, 0), 128)))


def parse_op(op):
    if op[0] == 'p':
        ids, _, al = op[1:].partition('/')
        return 'p', int(ids) & 0xffff, int(al) if al else 16
    return 'g', int(op[1:]) & 0xffff, None


def allowed(window, nputs, qid):
    """what a lookup of qid may return, from the property text alone.
    window: list of (putno, alen, id) of the SIZE most recent puts."""
    m = [p for p in window if p[2] == qid]
    if len(m) == 1:
        return 'exact', [m[0]]
    if not m:
        return 'none', []           # None, or the zero slot (id 0, fewer than SIZE puts)
    return 'reuse', m               # outside the "distinct ids" quantifier: any of those askers


def judge_long(window, nputs, qid, tok):
    """tok is 'N' or 'alen:hex'; returns None if acceptable else text"""
    kind, m = allowed(window, nputs, qid)
    if tok == 'N':
        if kind == 'none':
            return None
        return 'lookup of id %d found nothing although put #%s asked with it among the last %d' % (
            qid, '/'.join(str(p[0]) for p in m), SIZE)
    try:
        al, hx = tok.split(':')
        al = int(al)
        ab = bytes.fromhex(hx) if hx != '-' else b''
    except ValueError:
        return 'unparsable result %r' % tok[:60]
    if kind == 'none':
        if al == 0 and qid == 0 and nputs < SIZE:
            return None             # never-written slot: address length 0
        return 'lookup of id %d, which none of the last %d puts carries, returned an address (len %d %s)' % (
            qid, SIZE, al, ab[:8].hex())
    for p in m:
        if al == p[1] and ab == tag_bytes(p[0], p[1]):
            return None
    return 'lookup of id %d returned address (len %d %s), expected that of put #%s' % (
        qid, al, ab[:8].hex(), '/'.join(str(p[0]) for p in m))


def judge_short(window, nputs, qid, tok):
    kind, m = allowed(window, nputs, qid)
    if tok == 'N':
        return None if kind == 'none' else 'lookup of id %d found nothing although put #%s asked with it among the last %d' % (
            qid, '/'.join(str(p[0]) for p in m), SIZE)
    if tok == 'Z':
        if kind == 'none' and qid == 0 and nputs < SIZE:
            return None
        return 'lookup of id %d returned a zero-length address' % qid
    if kind == 'none':
        return 'lookup of id %d, which none of the last %d puts carries, returned the address of put #%s' % (qid, SIZE, tok)
    if tok in [str(p[0]) for p in m if p[1] == 16]:
        return None
    return 'lookup of id %d returned the address of put #%s, expected put #%s' % (qid, tok, '/'.join(str(p[0]) for p in m))


def rs_oracle(case, out):
    """RS line: returns None or (why, shortest failing RS case)"""
    ops = case.split(' ')[1:]
    toks = [] if out == '-' else out.split(' ')
    window, nputs, gi = [], 0, 0
    for j, op in enumerate(ops):
        k, qid, al = parse_op(op)
        if k == 'p':
            nputs += 1
            window.append((nputs, al, qid))
            if len(window) > SIZE:
                window.pop(0)
        else:
            if gi >= len(toks):
                return 'missing result (crash?)', 'RS ' + ' '.join(ops[:j + 1])
            why = judge_long(window, nputs, qid, toks[gi])
            gi += 1
            if why:
                return why, 'RS ' + ' '.join(ops[:j + 1])
    return None


def rx_oracle(case, out):
    """RX line: enumerate the same sequences, in the same order, judge every lookup.
    Returns None or (why, concrete RS case)."""
    t = case.split(' ')
    depth, prefix = int(t[1]), t[2:]
    try:
        pre, body = out.split('|', 1)
    except ValueError:
        return 'unparsable RX result %r' % out[:60], case
    window, nputs = [], 0
    pretoks = pre.split('.') if pre else []
    gi = 0
    for j, op in enumerate(prefix):
        k, qid, al = parse_op(op)
        if k == 'p':
            nputs += 1
            window.append((nputs, al, qid))
            if len(window) > SIZE:
                window.pop(0)
        else:
            if gi >= len(pretoks):
                return 'missing result', 'RS ' + ' '.join(prefix[:j + 1])
            why = judge_short(window, nputs, qid, pretoks[gi])
            gi += 1
            if why:
                return why, 'RS ' + ' '.join(prefix[:j + 1])
    blocks = body.split(',')
    total = 8 ** depth
    if len(blocks) != total:
        return 'expected %d sequences, got %d (crash?)' % (total, len(blocks)), case
    base = tuple(window)
    for s in range(total):
        blk = blocks[s]
        toks = blk.split('.') if blk else []
        w = list(base)
        n = nputs
        gi = 0
        for i in range(depth - 1, -1, -1):
            o = (s >> (3 * i)) & 7
            if o < 4:
                n += 1
                w.append((n, 16, o))
                if len(w) > SIZE:
                    w.pop(0)
            else:
                if gi >= len(toks):
                    return 'missing result', _rx_concrete(prefix, depth, s, i)
                why = judge_short(w, n, o - 4, toks[gi])
                gi += 1
                if why:
                    return why, _rx_concrete(prefix, depth, s, i)
        if gi != len(toks):
            return 'surplus results', _rx_concrete(prefix, depth, s, 0)
    return None


def _rx_concrete(prefix, depth, s, upto):
    ops = [ALPHA[(s >> (3 * i)) & 7] for i in range(depth - 1, upto - 1, -1)]
    return 'RS ' + ' '.join(list(prefix) + ops)


def _rx_job(a):
    return rx_oracle(a[0], a[1])


# ------------------------------------------------------------------------------------------
# datagram level: own DNS reader / writer

def py_parse_query(pkt):
    """(id, qr, name bytes dotted, type) of a datagram with >= 1 question, else None"""
    if len(pkt) < 12:
        return None
    qid, fl, qd = struct.unpack('>HHH', pkt[:6])
    if qd < 1:
        return None
    p = 12
    labels = []
    while True:
        if p >= len(pkt):
            return None
        n = pkt[p]
        p += 1
        if n == 0:
            break
        if n > 63 or p + n > len(pkt):
            return None
        labels.append(pkt[p:p + n])
        p += n
    if p + 4 > len(pkt):
        return None
    typ, cls = struct.unpack('>HH', pkt[p:p + 4])
    return dict(id=qid, qr=fl >> 15, name=b'.'.join(labels), labels=labels, type=typ, cls=cls, qd=qd, end=p + 4)


def py_in_domain(name, top):
    n, t = name.lower(), top.lower()
    return n == t or n.endswith(b'.' + t)


def py_get_id(pkt):
    return 0 if len(pkt) < 12 else (pkt[0] << 8) | pkt[1]


def sockaddr_in(k, port):
    return bytes([2, 0, (port >> 8) & 255, port & 255, 10, 0, k & 255, 1]) + bytes(8)


def build_query(qid, name, typ, rng, edns=None, flags=None):
    lab = b''.join(bytes([len(l)]) + l for l in name.split(b'.') if l) + b'\0'
    if flags is None:
        flags = rng.choice([0x0100, 0x0100, 0x0000, 0x0120, 0x0110])
    if edns is None:
        edns = rng.randrange(2)
    pkt = struct.pack('>HHHHHH', qid, flags, 1, 0, 0, 1 if edns else 0) + lab + struct.pack('>HH', typ, 1)
    if edns:
        pkt += bytes([0, 0, 41]) + struct.pack('>HIH', rng.choice([512, 1232, 4096]), 0, 0)
    return pkt


HOSTCH = b'abcdefghijklmnopqrstuvwxyzABCDEFGHIJKLMNOPQRSTUVWXYZ0123456789-_'
ARB = [c for c in range(1, 256) if c != 46]


def rand_label(rng):
    m = rng.randrange(10)
    if m == 0:
        n = 63
    elif m == 1:
        n = rng.choice([1, 62, 63])
    else:
        n = rng.randrange(1, 16)
    if rng.randrange(8) == 0:
        return bytes(rng.choice(ARB) for _ in range(n))     # arbitrary bytes except NUL and '.'
    return bytes(rng.choice(HOSTCH) for _ in range(n))


def rand_name(rng, top):
    """a name, usually outside the tunnel domain (the caller checks with py_in_domain)"""
    name = rand_name0(rng, top)
    return b'.'.join(l for l in name.split(b'.') if l)


def rand_name0(rng, top):
    m = rng.randrange(12)
    if m == 0:      # near miss: topdomain glued to a longer label
        return rand_label(rng)[:5] + top
    if m == 1:      # topdomain as a prefix / inner part
        return top + b'.' + rand_label(rng)[:8]
    if m == 2:      # all but the first character of the topdomain
        return rand_label(rng)[:4] + b'.' + top[1:]
    if m == 3:      # one label, mixed case
        return bytes(rng.choice(HOSTCH) for _ in range(rng.randrange(1, 30)))
    labels = [rand_label(rng) for _ in range(rng.randrange(1, 6))]
    name = b'.'.join(labels)
    while len(name) > 250:
        labels.pop()
        name = b'.'.join(labels)
    return name


TYPES = [1, 15, 16, 10, 28, 1, 15, 16, 10, 28, 2, 5, 33, 65399, 255, 6, 12]
NOREPLY_TYPES = [28, 255, 6, 12]       # in-domain queries of these types are ignored by tunnel_dns


def gen_net_line(rng, nsteps, idmode):
    top = rng.choice([b't.example', b'tunnel.Example.ORG', b'abc', b'x.y.z.w'])
    bind_port = rng.choice([5353, 53, 1, 65535, rng.randrange(1, 65536)])
    steps = []
    hist = []                   # (k, port, id) of forwarded queries, oldest first
    seq = rng.randrange(0, 65536)
    clients = {}
    for _ in range(nsteps):
        r = rng.randrange(100)
        if r < 58 or not hist and r < 80:
            # a query
            if idmode == 'seq':
                seq = (seq + 1) & 0xffff
                qid = seq
            elif idmode == 'small':
                qid = rng.choice([0, 1, 2, 3, 0xffff])
            else:
                qid = rng.choice([0, 1, 2, 3, 4, 5, 0xffff, rng.randrange(65536), rng.randrange(65536)])
            k = rng.randrange(0, 40)
            port = rng.choice([53, 1024, 65535, rng.randrange(1, 65536)])
            typ = rng.choice(TYPES) if rng.randrange(12) else rng.randrange(65536)
            m = rng.randrange(20)
            if m == 0:
                # direct forward_query call, also with names dns_decode would not produce as such
                name = rand_name(rng, top)
                if rng.randrange(4) == 0:
                    name = rng.choice([name + b'.', b'.' + name, name.replace(b'.', b'..', 1)])
                alen = rng.choice([16, 128])
                steps.append('F,%d,%d,%d,%d,%d,%s' % (alen, k, port, qid, typ, hexs(name)))
                hist.append((k, port, qid))
                continue
            if m == 4 and rng.randrange(3) == 0:
                # not a legal name: a label of 64..120 bytes.  putname() fails, dns_encode carries on, the
                # datagram has no question name; compared with the model only (the oracle checks id + destination)
                labels = [rand_label(rng)[:10], bytes(rng.choice(HOSTCH) for _ in range(rng.randrange(64, 121))), b'com']
                rng.shuffle(labels)
                steps.append('FL,%d,%d,%d,%d,%d,%s' % (rng.choice([16, 128]), k, port, qid, typ, hexs(b'.'.join(labels))))
                hist.append((k, port, qid))
                continue
            if m == 1:
                # in-domain query of a type tunnel_dns ignores: must not be forwarded
                sub = rng.choice([b'', rand_label(rng)[:20] + b'.'])
                t2 = bytes(rng.choice([c, c ^ 0x20]) if chr(c).isalpha() else c for c in top)
                name = sub + t2
                pkt = build_query(qid, name, rng.choice(NOREPLY_TYPES), rng)
                steps.append('Q,%d,%d,%s,0,%d,%d,%s' % (k, port, pkt.hex(), qid, typ, hexs(name)))
                continue
            if m == 2:
                # malformed: short, a response, no question
                name = rand_name(rng, top)
                pkt = build_query(qid, name, typ, rng)
                w = rng.randrange(3)
                if w == 0:
                    pkt = pkt[:rng.randrange(1, 12)]
                elif w == 1:
                    pkt = pkt[:2] + bytes([pkt[2] | 0x80]) + pkt[3:]
                else:
                    pkt = pkt[:4] + b'\0\0' + pkt[6:]
                steps.append('Q,%d,%d,%s,0,%d,%d,%s' % (k, port, pkt.hex(), qid, typ, hexs(name)))
                continue
            name = rand_name(rng, top)
            if py_in_domain(name, top):
                continue
            pkt = build_query(qid, name, typ, rng)
            if m == 3:
                steps.append('QN,%d,%d,%s,0,%d,%d,%s' % (k, port, pkt.hex(), qid, typ, hexs(name)))
                continue
            steps.append('Q,%d,%d,%s,1,%d,%d,%s' % (k, port, pkt.hex(), qid, typ, hexs(name)))
            hist.append((k, port, qid))
        else:
            # a reply from the local DNS server
            m = rng.randrange(10)
            if m < 5 and hist:
                rid = rng.choice(hist[-SIZE:])[2]           # remembered
            elif m < 7 and len(hist) > SIZE:
                rid = rng.choice(hist[:-SIZE])[2]           # forgotten (unless reused)
            elif m == 7:
                rid = 0
            else:
                rid = rng.randrange(65536)
            w = rng.randrange(12)
            if w == 0:
                pkt = bytes(rng.randrange(256) for _ in range(rng.randrange(0, 12)))    # short: id reads as 0
            elif w == 1:
                pkt = struct.pack('>H', rid) + bytes(rng.randrange(256) for _ in range(rng.randrange(0, 10)))
            elif w < 4:
                pkt = struct.pack('>H', rid) + bytes(rng.randrange(256) for _ in range(rng.randrange(10, 700)))
            else:
                nm = rand_name(rng, top)
                pkt = struct.pack('>HHHHHH', rid, 0x8180, 1, 1, 0, 0) + \
                    b''.join(bytes([len(l)]) + l for l in nm.split(b'.') if l) + b'\0' + struct.pack('>HH', 1, 1) + \
                    b'\xc0\x0c' + struct.pack('>HHIH', 1, 1, 60, 4) + bytes(rng.randrange(256) for _ in range(4))
            steps.append('R,%s' % hexs(pkt))
            if len(pkt) >= 12 and rng.randrange(5) == 0:
                # right after a full reply: its first byte alone, and nothing at all -- the id of a datagram shorter than two
                # bytes reads as 0, whatever the previous reply left in the receive buffer
                steps.append('R,%s' % hexs(pkt[:1]))
                if rng.randrange(2):
                    steps.append('R,-')
    return 'NET %d %s %s' % (bind_port, top.hex(), ';'.join(steps))


def parse_sends(txt):
    if txt == '-':
        return []
    out = []
    for s in txt.split('+'):
        f = s.split('|')
        if f[0] == 'L' and len(f) == 2:
            out.append(dict(kind='L', data=bytes.fromhex(f[1]) if f[1] != '-' else b''))
        elif len(f) == 4:
            out.append(dict(kind=f[0], alen=int(f[1]), addr=bytes.fromhex(f[2]) if f[2] != '-' else b'',
                            data=bytes.fromhex(f[3]) if f[3] != '-' else b''))
        else:
            out.append(dict(kind='?', raw=s[:80]))
    return out


def net_oracle(case, out):
    """returns None or (key, why, truncated concrete case)"""
    t = case.split(' ', 3)
    bind_port, top, steps = int(t[1]), bytes.fromhex(t[2]), t[3].split(';')
    res = out.split(';')
    hist = []               # (addr16, id) forwarded, oldest first
    seen = set()
    for j, st in enumerate(steps):
        def fail(key, why):
            return key, why + ' [step %d: %s]' % (j, st[:100]), ' '.join(t[:3]) + ' ' + ';'.join(steps[:j + 1])
        if j >= len(res):
            return fail('crash', 'no result for step (crash?)')
        if res[j].startswith('READS'):
            return fail('harness', 'unexpected number of socket reads: ' + res[j][:20])
        sends = parse_sends(res[j])
        f = st.split(',')
        if f[0] in ('Q', 'QN', 'F', 'FL'):
            if f[0] in ('F', 'FL'):
                alen, k, port, qid, typ, name = int(f[1]), int(f[2]), int(f[3]), int(f[4]), int(f[5]), \
                    (bytes.fromhex(f[6]) if f[6] != '-' else b'')
                expect = True
                name = b'.'.join(l for l in name.split(b'.') if l)     # empty labels cannot be sent
            else:
                k, port = int(f[1]), int(f[2])
                pkt = bytes.fromhex(f[3]) if f[3] != '-' else b''
                pq = py_parse_query(pkt)
                expect = f[0] == 'Q' and pq is not None and pq['qr'] == 0 and pq['name'] != b'' and \
                    not py_in_domain(pq['name'], top)
                if pq:
                    qid, typ, name = pq['id'], pq['type'], pq['name']
            a16 = sockaddr_in(k, port)
            seen.add(a16[:8])
            if not expect:
                if sends:
                    return fail('tunnel_dns:dispatch', 'a datagram was sent for a query that must not be forwarded (%s)' % res[j][:60])
                continue
            if len(sends) != 1 or sends[0]['kind'] != 'L':
                return fail('forward_query:destination',
                            'forwarded query not sent exactly once to 127.0.0.1:%d on the forwarding socket: %s' % (bind_port, res[j][:80]))
            if f[0] == 'FL':
                # outside the property (no legal name to preserve): same id, remembered asker
                if py_get_id(sends[0]['data']) != qid:
                    return fail('forward_query:id', 'forwarded with id %d, asked with id %d' % (py_get_id(sends[0]['data']), qid))
                hist.append((a16, qid))
                continue
            fq = py_parse_query(sends[0]['data'])
            if fq is None or fq['qr'] != 0 or fq['qd'] != 1 or fq['cls'] != 1:
                return fail('forward_query:datagram', 'forwarded datagram is not a well-formed IN query: ' + sends[0]['data'][:40].hex())
            if fq['id'] != qid:
                return fail('forward_query:id', 'forwarded with id %d, asked with id %d' % (fq['id'], qid))
            if fq['name'] != name:
                return fail('forward_query:name', 'forwarded name %r, asked name %r' % (fq['name'][:60], name[:60]))
            if fq['type'] != typ:
                return fail('forward_query:type', 'forwarded with type %d, asked with type %d' % (fq['type'], typ))
            hist.append((a16, qid))
        elif f[0] == 'R':
            pkt = bytes.fromhex(f[1]) if f[1] != '-' else b''
            rid = py_get_id(pkt)
            win = hist[-SIZE:]
            m = [h for h in win if h[1] == rid]
            for s in sends:
                if s['kind'] not in ('C',):
                    return fail('tunnel_bind:socket', 'reply relayed on an unexpected socket / destination: ' + res[j][:80])
            if not pkt:
                if sends:
                    return fail('tunnel_bind:empty', 'an empty read produced a datagram')
                continue
            if not m:
                for s in sends:
                    if s['alen'] == 0 and rid == 0 and len(hist) < SIZE and s['data'] == pkt and len(sends) == 1:
                        continue        # zero slot: sendto with address length 0 has no destination (OS assumption)
                    return fail('tunnel_bind:misroute',
                                'reply with id %d, which none of the last %d forwarded queries carries, was sent to %s (len %d)%s' % (
                                    rid, SIZE, s['addr'][:8].hex(), s['alen'],
                                    ' -- a previous requester' if s['addr'][:8] in seen else ''))
                continue
            # the most recent asker with that id among the last 16 (own bookkeeping: a dict)
            latest = {}
            for h in win:
                latest[h[1]] = h[0]
            if len(sends) != 1:
                return fail('tunnel_bind:lost', 'reply with id %d (asked by %s among the last %d) produced %d datagrams' % (
                    rid, latest[rid][:8].hex(), SIZE, len(sends)))
            s = sends[0]
            if s['data'] != pkt:
                return fail('tunnel_bind:bytes', 'reply relayed with different bytes (%d bytes in, %d out)' % (len(pkt), len(s['data'])))
            if len(m) == 1:
                if s['addr'][:8] != latest[rid][:8] or s['alen'] < 16:
                    return fail('tunnel_bind:wrong-asker', 'reply with id %d sent to %s (len %d), asked by %s' % (
                        rid, s['addr'][:8].hex(), s['alen'], latest[rid][:8].hex()))
            else:
                if s['addr'][:8] not in [h[0][:8] for h in m] or s['alen'] < 16:
                    return fail('tunnel_bind:wrong-asker', 'reply with reused id %d sent to %s, which did not ask with it' % (
                        rid, s['addr'][:8].hex()))
    return None


# ------------------------------------------------------------------------------------------

def gen_cases(seed, tier):
    rng = vlib.rng_for(seed, 'c20')
    cases = []
    stats = dict(corpus=0, unit_test=0, rx_lines=0, rx_sequences=0, rs_random=0, rs_ops=0, net_lines=0, net_steps=0)
    cp = os.path.join(vlib.VERIF, 'corpus', 'C20')
    if os.path.isdir(cp):
        for fn in sorted(os.listdir(cp)):
            for l in open(os.path.join(cp, fn)):
                l = l.strip()
                if l and not l.startswith('#'):
                    cases.append(l)
                    stats['corpus'] += 1
    # the scenario of tests/fw_query.c
    cases.append('RS g33930 p33930/33 g33930')
    edge = ['p%d/%d' % (33930 + i, 33 + i) for i in range(16)]
    cases.append('RS ' + ' '.join(edge + ['g33930', 'p%d/49' % (33930 + 16), 'g33930', 'g%d' % (33930 + 16), 'g33931']))
    stats['unit_test'] = 2
    # exhaustive from start-up
    D = 6 if tier == 'quick' else 8
    lead = 2 if tier == 'quick' else 3
    for s in range(8 ** lead):
        pre = [ALPHA[(s >> (3 * i)) & 7] for i in range(lead - 1, -1, -1)]
        cases.append('RX %d %s' % (D - lead, ' '.join(pre)))
        stats['rx_lines'] += 1
        stats['rx_sequences'] += 8 ** (D - lead)
    # exhaustive continuations of pre-filled rings around the wrap (more than 16 outstanding)
    d2 = 5 if tier == 'quick' else 6
    for P in list(range(12, 19)) + list(range(28, 35)):
        for kind in range(4):
            if kind == 0:
                ids = [100 + i for i in range(P)]
            elif kind == 1:
                ids = [i % 4 for i in range(P)]
            elif kind == 2:
                ids = [(i % 3) + 1 for i in range(P)]
            else:
                ids = [0] * P
            for a in ALPHA:
                cases.append('RX %d %s %s' % (d2 - 1, ' '.join('p%d' % i for i in ids), a))
                stats['rx_lines'] += 1
                stats['rx_sequences'] += 8 ** (d2 - 1)
    # long random sequences, more than 16 outstanding, ids from a small domain + random
    nrs = 40 if tier == 'quick' else 300
    for i in range(nrs):
        n = rng.choice([50, 200, 1000, 10000]) if i % 4 else 10000
        pput = rng.choice([0.3, 0.5, 0.8])
        dom = rng.choice([[0, 1, 2, 3, 4, 5, 0xffff], [0, 1, 2, 3, 4, 5, 0xffff] + [rng.randrange(65536) for _ in range(30)],
                          list(range(1, 20)), [0, 1]])
        ops = []
        for _ in range(n):
            qid = rng.choice(dom) if rng.randrange(10) else rng.randrange(65536)
            if rng.random() < pput:
                ops.append('p%d' % qid if rng.randrange(6) else 'p%d/%d' % (qid, rng.choice([0, 1, 16, 28, 33, 128])))
            else:
                ops.append('g%d' % qid)
        cases.append('RS ' + ' '.join(ops))
        stats['rs_random'] += 1
        stats['rs_ops'] += n
    # datagram level
    nnet = 60 if tier == 'quick' else 600
    for i in range(nnet):
        ns = rng.choice([20, 60, 150]) if tier == 'quick' else rng.choice([20, 60, 150, 400])
        line = gen_net_line(rng, ns, ['seq', 'small', 'mixed'][i % 3])
        cases.append(line)
        stats['net_lines'] += 1
        stats['net_steps'] += line.count(';') + 1
    return cases, stats


def apply_oracle(case, out):
    """-> None or (key, why, concrete_case)"""
    if out == '<NO-OUTPUT>' or out == 'UNKNOWN-CASE':
        return 'crash', 'the implementation harness crashed / gave no result on this sequence (first such case of its shard)', case
    if case.startswith('RS '):
        r = rs_oracle(case, out)
        return None if r is None else ('fw_query:ring', r[0], r[1])
    if case.startswith('RX '):
        r = rx_oracle(case, out)
        return None if r is None else ('fw_query:ring', r[0], r[1])
    if case.startswith('NET '):
        return net_oracle(case, out)
    return None


def _oracle_job(a):
    return apply_oracle(a[0], a[1])


def shrink_case(case):
    return case if len(case) < 600 else case[:600] + '...(truncated; full case in the replay file)'


V6_PROBE = 'NET 5353 %s Q6,9,4242,%s,1,4660,1,%s;R,%s' % (
    b't.example'.hex(), (struct.pack('>HHHHHH', 0x1234, 0x0100, 1, 0, 0, 0) + b'\x03www\x07example\x03com\x00\x00\x01\x00\x01').hex(),
    b'www.example.com'.hex(), (struct.pack('>HHHHHH', 0x1234, 0x8180, 1, 0, 0, 0)).hex())


def check(rep):
    ctx = vlib.prepare(rep, harnesses=harness_spec(), sanitize=True)
    cases, stats = gen_cases(rep.seed, rep.tier)
    rep.assumptions.append('OS: sendto() on the unconnected UDP socket with a non-NULL address of length 0 fails (EINVAL / '
                           'EDESTADDRREQ) and transmits nothing, i.e. names no destination: the only address C20_no_misroute allows besides a remembered asker is the zero '
                           'address of length 0 of a never-written ring slot, reachable for id 0 (also: replies shorter than '
                           '12 bytes) before 16 queries were forwarded')
    rep.assumptions.append('the model abstracts the forward destination as "local DNS port"; askers in the generated histories are IPv4, an IPv6 asker is '
                           'covered by a fixed probe case judged by the implementation-level oracle only')
    rep.assumptions.append('ids are 16-bit and struct copies are memcpy of the whole struct fw_query (x86-64, gcc)')
    rep.cov['rule'] = ('corpus first; tests/fw_query.c scenario; ring: EVERY sequence over {put,get} x ids {0,1,2,3} of depth %d from '
                       'fw_query_init, and every continuation of depth %d of rings pre-filled with 12..18 and 28..34 puts '
                       '(distinct ids / ids mod 4 / ids 1..3 / all 0); random sequences up to 10^4 ops (ids 0..5, 0xffff, random; '
                       'address lengths 0,1,16,28,33,128); datagram level: random histories of forwarded queries (tunnel_dns -> '
                       'forward_query, names outside the domain incl. near misses, mixed case, 63-byte labels, arbitrary bytes; '
                       'types A/MX/TXT/NULL/AAAA/..; ids sequential / {0,1,2,3,0xffff} / mixed; in-domain, malformed and no -b '
                       'queries that must not be forwarded) and replies (remembered, forgotten, unknown ids, id 0, short < 12 '
                       'bytes, empty). evaluations = ring sequences + ring ops of random lines + datagram steps; non-trivial = '
                       'lookups / replies actually judged by the oracle') % (
                           6 if rep.tier == 'quick' else 8, 5 if rep.tier == 'quick' else 6)
    rep.cov['input_distribution'] = stats
    rep.cov['evaluations'] = stats['rx_sequences'] + stats['rs_ops'] + stats['net_steps'] + stats['unit_test'] + stats['corpus']
    rep.cov['samples'] = [shrink_case(c) for c in (cases[0:3] + cases[70:71] + cases[-1:])]
    rep.cov['exhaustive'] = False
    rep.cov['exhaustive_part'] = 'ring level: every sequence to the stated depth; datagram level: random histories'
    impl = None
    if 'srv' in ctx.exe:
        rc, impl, err = vlib.parallel_run_cases(ctx.exe['srv'], cases, ctx.work, 'impl')
        if rc != 0:
            ctx.broken.append(('impl-crash', 'implementation harness exited with %d: %s' % (rc, err[-300:])))
        # implementation-level oracle on the implementation's output
        jobs = list(zip(cases, impl))
        if rep.tier == 'thorough':
            import multiprocessing
            with multiprocessing.Pool(min(16, os.cpu_count() or 2)) as pool:
                verdicts = pool.map(_oracle_job, jobs, chunksize=4)
        else:
            verdicts = [apply_oracle(c, o) for c, o in jobs]
        # measured: ring sequences (distinct by construction) with at least one lookup result, distinct
        # random ring lines with a lookup, distinct forwarded-query / reply steps
        nontriv = 0
        lookups = 0
        netsteps = set()
        rslines = set()
        for c, o in jobs:
            if c.startswith('RX'):
                body = o.split('|', 1)[-1]
                nontriv += sum(1 for b in body.split(',') if b)
                lookups += len(re.findall(r'[0-9NZ?]+', body))
            elif c.startswith('RS'):
                if o != '-':
                    rslines.add(c)
                    lookups += o.count(' ') + 1
            else:
                for st in c.split(' ', 3)[3].split(';'):
                    if st.startswith(('R,', 'F,', 'FL,')) or (st.startswith('Q,') and st.split(',')[4] == '1'):
                        netsteps.add(st)
        rep.cov['distinct_nontrivial'] = nontriv + len(rslines) + len(netsteps)
        rep.cov['ring_lookups_judged'] = lookups
        rep.cov['distinct_forward_or_reply_steps'] = len(netsteps)
        for (c, o), v in zip(jobs, verdicts):
            if v:
                key, why, concrete = v
                rep.add_violation(key, why, dict(kind='input', driver='srv', case=concrete, expected=why,
                                                 observed=shrink_case(o)))
                break
        # IPv6 asker (D12): the forward must reach the local DNS port and the reply the asker
        pp = os.path.join(ctx.work, 'v6probe.cases')
        open(pp, 'w').write(V6_PROBE + '\n')
        rc6, o6, _ = vlib.run_cases(ctx.exe['srv'], pp)
        if o6:
            parts = o6[0].split(';')
            rep.notes.append('IPv6 asker fd00::9: forward_query result %r, reply result %r' % (tuple(x[:120] for x in parts)))
            want_addr = '0a001092' + '00000000' + 'fd' + '00' * 14 + '09'          # AF_INET6, port 4242, flowinfo 0, fd00::9
            if not parts[0].startswith('L|'):
                rep.add_violation('forward_query:ipv6-asker', 'a non-tunnel query from an IPv6 asker is not forwarded to 127.0.0.1:<bind port> (forward_query '
                                  'must build an IPv4 destination of its own): sendto saw %r' % parts[0][:160],
                                  dict(kind='input', driver='srv', case=V6_PROBE, expected='L|<the query datagram>', observed=parts[0][:300]))
            elif len(parts) < 2 or not (parts[1].startswith('C|') and want_addr in parts[1]):
                rep.add_violation('tunnel_bind:ipv6-asker', 'the reply to a query forwarded for an IPv6 asker does not go back to that asker: %r' % (parts[1][:160] if len(parts) > 1 else ''),
                                  dict(kind='input', driver='srv', case=V6_PROBE, expected='C|..|%s..|<reply>' % want_addr, observed=(parts[1][:300] if len(parts) > 1 else '')))
        if 'srv' in ctx.san:
            sub = [c for c in cases if not c.startswith('RX')] + [c for c in cases if c.startswith('RX')][::7]
            rc, sl, err = vlib.parallel_run_cases(ctx.san['srv'], sub, ctx.work, 'san')
            rep.cov['sanitizer_cases'] = len(sub)
            if rc != 0:
                idx = next((i for i, l in enumerate(sl) if l == '<NO-OUTPUT>'), None)
                m = re.search(r'(ERROR: AddressSanitizer[^\n]*|[^\n]*runtime error:[^\n]*)((?:\n\s+#\d[^\n]*){0,4})', err)
                rep.add_violation('sanitizer', 'ASan/UBSan report in the forwarding path: ' +
                                  (' '.join((m.group(1) + m.group(2)).split()) if m else err[-400:]),
                                  dict(kind='input', driver='srv.san', case=sub[idx] if idx is not None else None,
                                       observed=err[-2000:]))
    if ctx.model and impl is not None:
        rc, mod, err = vlib.parallel_run_cases(ctx.model, cases, ctx.work, 'model')
        d = vlib.first_diff(cases, impl, mod)
        rep.cov['traces_validated_against_impl'] = len(cases) if d is None else d
        if d is not None:
            a, b = impl[d], mod[d]
            pos = next((i for i in range(min(len(a), len(b))) if a[i] != b[i]), min(len(a), len(b)))
            ctx.broken.append(('correspondence', 'model and implementation disagree on case %r at output offset %d: impl=%r model=%r' % (
                shrink_case(cases[d]), pos, a[max(0, pos - 40):pos + 80], b[max(0, pos - 40):pos + 80])))
    if not rep.violations:
        ctx.report_broken()
    return rep


def replay(rp):
    rep = vlib.Report('C20', 'quick', rp.get('seed', 1))
    ctx = vlib.prepare(rep, harnesses=harness_spec(), sanitize=False, prove_it=False)
    case = rp.get('case')
    if not case:
        print('replay names a broken obligation, not an input:', rp.get('broken'))
        return 1
    cp = os.path.join(ctx.work, 'replay.cases')
    open(cp, 'w').write(case + '\n')
    rc, impl, err = vlib.run_cases(ctx.exe['srv'], cp)
    rc2, mod, err2 = vlib.run_cases(ctx.model, cp) if ctx.model else (0, ['-'], '')
    print('case :', shrink_case(case))
    print('impl :', impl[0][:600] if impl else err)
    print('model:', mod[0][:600] if mod else err2)
    v = apply_oracle(case, impl[0]) if impl else ('crash', 'crash', case)
    print('oracle:', (v[0] + ': ' + v[1]) if v else 'ok')
    return 1 if v else 0
