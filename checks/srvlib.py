"""srvlib.py -- generator of server histories (shared by the checks C03/C04/C14/C15/C16 and
C05): a light client-side emulation in Python producing mostly-valid iodine protocol traffic
(version / login / options / pings / data fragments / raw frames / tun packets / sweeps / time
jumps) plus adversarial variations.  It only builds inputs; verdicts come from the checks."""
import vlib

CB32 = b'abcdefghijklmnopqrstuvwxyz012345'
CB64 = b'abcdefghijklmnopqrstuvwxyzABCDEFGHIJKLMNOPQRSTUVWXYZ-0123456789+'
CB64U = CB64[:-1] + b'_'
CB128 = bytes(list(b'abcdefghijklmnopqrstuvwxyzABCDEFGHIJKLMNOPQRSTUVWXYZ0123456789') + list(range(0xBC, 0xFE)))
TABLES = [(5, CB32), (6, CB64), (6, CB64U), (7, CB128)]

SRV = vlib.tu_harness(['hmain.c', 'h_srvhist.c', 'wire_net.c', 'wire_srv.c', 'wire_cli.c'], 'server',
                      ['sendto', 'recvfrom', 'recv', 'recvmsg', 'time', 'write_tun', 'read_tun', 'system', 'rand', 'sleep',
                       'compress2', 'uncompress', 'login_calculate', 'select'])
SRV['repo'] = vlib.COMMON_SRCS + ['user.c', 'fw_query.c', 'util.c']


def enc(codec, data):
    k, tab = TABLES[codec]
    bits = 0
    nb = 0
    out = bytearray()
    for b in data:
        bits = (bits << 8) | b
        nb += 8
        while nb >= k:
            out.append(tab[(bits >> (nb - k)) & ((1 << k) - 1)])
            nb -= k
    if nb:
        out.append(tab[(bits << (k - nb)) & ((1 << k) - 1)])
    return bytes(out)


def dotify(s):
    out = bytearray()
    for i in range(0, len(s), 57):
        out += s[i:i + 57]
        if len(s[i:i + 57]) == 57:
            out += b'.'
    return bytes(out)


def qname(prefix, payload_enc, domain):
    s = dotify(payload_enc)
    # the first label also holds the prefix chars; keep labels <= 63
    body = prefix + s
    if not body.endswith(b'.'):
        body += b'.'
    return body + domain


def dns_query(qid, qtype, name, edns0=True):
    out = bytearray([qid >> 8, qid & 255, 1, 0, 0, 1, 0, 0, 0, 0, 0, 1 if edns0 else 0])
    for lab in name.split(b'.'):
        if lab:
            out.append(min(len(lab), 255))
            out += lab
    out.append(0)
    out += bytes([qtype >> 8, qtype & 255, 0, 1])
    if edns0:
        out += bytes([0, 0, 41, 16, 0, 0, 0, 128, 0, 0, 0])
    return bytes(out)


def rand_after_seed(seed):
    s = (seed * 1103515245 + 12345) & 0xffffffffffffffff
    return (s >> 16) & 0x7fffffff


def login_stub(password, seed):
    p = (password + bytes(32))[:32]
    return bytes((p[i] + ((seed >> (8 * (i % 4))) & 0xff) * (i + 1)) & 0xff for i in range(16))


def b32c(v):
    return CB32[v & 31:(v & 31) + 1]


class Session:
    def __init__(self, gen, addr):
        self.gen = gen
        self.addr = addr
        self.uid = None
        self.seed = 0
        self.codec = 0
        self.auth = False
        self.up_seq = 0
        self.up_frag = 0
        self.dn_seq = 0
        self.dn_frag = 0
        self.cmc = 0
        self.rs = gen.rng.randrange(65536)
        self.last_names = []
        self.raw = False
        self.pending_up = None


class HistGen:
    """builds one history: list of event strings"""

    QTYPES = [10, 65399, 16, 33, 15, 5, 1]

    def __init__(self, rng, adversarial=0.15, nusers_hint=2):
        self.rng = rng
        r = rng
        self.domain = r.choice([b't.example.com', b'tun.x.org', b'a.bc'])
        self.srv_domain = None      # what the server is configured with when it differs from the clients' domain (wildcard, other case)
        self.password = bytes(r.randrange(1, 256) for _ in range(r.choice([0, 3, 8, 32])))
        self.check_ip = r.choice([1, 1, 1, 0])
        nb = r.choice([27, 27, 24, 28, 29, 30, 16])
        self.netbits = nb
        self.myip = r.choice(['10.0.0.1', '10.0.0.3', '192.168.7.1', '172.16.0.2', '192.168.100.200'])
        self.mtu = r.choice([1130, 1200, 1500])
        self.nsip = r.choice([None, None, bytes([198, 51, 100, 7])])
        self.bind = r.choice([0, 0, 5353])
        self.now = 1000000 + r.randrange(1000)
        self.events = []
        self.adv = adversarial
        self.sessions = []
        self.qtype = r.choice(self.QTYPES)
        self.slot_last = {}
        self.stats = dict(version=0, login=0, option=0, ping=0, data=0, dup=0, tun=0, sweep=0, raw=0, hostile=0, timejump=0, aux=0)
        self.qid = r.randrange(1, 65536)
        self.set_net(self.myip, nb)

    def set_net(self, myip, nb):
        """server address and netmask; tunnel addresses the server will hand out (mirrors init_users)"""
        self.myip = myip
        self.netbits = nb
        a, b, c, d = [int(x) for x in self.myip.split('.')]
        host = (a << 24) | (b << 16) | (c << 8) | d
        size = 1 << (32 - nb)
        net = host - host % size
        n = min(16, size - 3)
        ips = []
        skip = 0
        for i in range(n):
            ipn = net + i + skip + 1
            if ipn == host and skip == 0:
                skip = 1
                ipn = net + i + skip + 1
            ips.append(ipn)
        self.tun_ips = ips
        self.nusers = n

    def adv_uid(self, wide=False):
        """a user id aimed at the bounds checks: the first id past the created users, the last created one, 15, or any"""
        r = self.rng
        k = r.randrange(4)
        if k == 0:
            return min(self.nusers, 255 if wide else 15)
        if k == 1:
            return self.nusers - 1
        if k == 2:
            return 15
        return r.randrange(256 if wide else 16)

    def cfg(self):
        return '%s %s %d %s %d %d %s %d' % ((self.srv_domain or self.domain).hex(), vlib.hexs(self.password), self.check_ip, self.myip,
                                             self.netbits, self.mtu, self.nsip.hex() if self.nsip else '-', self.bind)

    def next_id(self):
        self.qid = (self.qid + 7727) & 0xffff
        if self.qid == 0 and self.rng.randrange(4):
            self.qid = 7727
        return self.qid

    def addr_s(self, a):
        return '%d:%s:%d' % (a[0], a[1].hex(), a[2])

    def emit_dgram(self, addr, dg, seed=None, dest=True):
        if seed is None:
            seed = self.rng.randrange(1 << 31)
        d = bytes([10, 1, 2, 3]).hex() if dest else '-'
        self.events.append('X %d %d %s %s %s' % (self.now, seed, self.addr_s(addr), d, dg.hex() if dg else '-'))
        return seed

    def emit_query(self, s_addr, name, qtype=None, qid=None, seed=None):
        if qtype is None:
            qtype = self.qtype
        if qid is None:
            qid = self.next_id()
        if self.rng.random() < 0.1 and not getattr(self, 'no_case_relay', False):
            # case-randomising relay on the domain part / letters
            name = bytes((c ^ 0x20) if (65 <= (c & 0xdf) <= 90 and self.rng.randrange(2)) else c for c in name)
        dg = dns_query(qid, qtype, name, edns0=self.rng.randrange(4) > 0)
        seed = self.emit_dgram(s_addr, dg, seed)
        return qid, name, seed

    def tick(self, big=False):
        r = self.rng
        if big:
            self.now += r.choice([58, 59, 60, 61, 62, 120])
            self.stats['timejump'] += 1
        else:
            self.now += r.choice([0, 0, 0, 1, 1, 2])

    # --- protocol messages -----------------------------------------------------------------
    def version(self, s, proto=0x502, nul_hash=False):
        s.rs = (s.rs + 1) & 0xffff
        data = bytes([(proto >> 24) & 255, (proto >> 16) & 255, (proto >> 8) & 255, proto & 255, s.rs >> 8, s.rs & 255])
        seed = self.rng.randrange(1 << 31)
        if nul_hash:
            # a challenge whose login response starts with a NUL byte (or has one early): the case in which
            # a string comparison of the response would stop early
            for _ in range(4000):
                h = login_stub(self.password, rand_after_seed(seed))
                if h[0] == 0 or (0 in h[:4] and self.rng.randrange(4) == 0):
                    break
                seed = self.rng.randrange(1 << 31)
        self.emit_query(s.addr, qname(b'v', enc(0, data), self.domain), seed=seed)
        self.stats['version'] += 1
        if proto == 0x502:
            # predict the slot: first inactive or expired
            for i in range(self.nusers):
                last = self.slot_last.get(i)
                if last is None or last + 60 < self.now:
                    s.uid = i
                    s.seed = rand_after_seed(seed)
                    s.auth = False
                    s.codec = 0
                    s.raw = False
                    self.slot_last[i] = self.now
                    break

    def login(self, s, good=True, uid=None, seed_delta=0, mode=None):
        if uid is None:
            uid = s.uid if s.uid is not None else self.rng.randrange(16)
        h = login_stub(self.password, (s.seed + seed_delta) & 0xffffffff)
        if not good:
            if mode is None or mode == 'first':
                h = bytes((h[0] ^ 1,)) + h[1:]
            elif mode == 'last':
                h = h[:15] + bytes((h[15] ^ 0x80,))
            elif mode == 'zeros':
                h = bytes(16) if h != bytes(16) else bytes([1]) + bytes(15)
            elif mode in ('len17', 'len18'):
                h = bytes((h[0] ^ 0x40,)) + h[1:]
            elif mode == 'after-nul':
                j = h.find(b'\0')
                k = j + 1 if 0 <= j < 15 else 15
                h = h[:k] + bytes((h[k] ^ 0x55,)) + h[k + 1:]
            else:
                k = int(mode) % 16
                h = h[:k] + bytes((h[k] ^ 0x10,)) + h[k + 1:]
        s.rs = (s.rs + 1) & 0xffff
        data = bytes([uid & 255]) + h + bytes([s.rs >> 8, s.rs & 255])
        if not good and mode in ('len17', 'len18'):
            data = data[:17 if mode == 'len17' else 18]
        self.emit_query(s.addr, qname(b'l', enc(0, data), self.domain))
        self.stats['login'] += 1
        if good and seed_delta == 0 and uid == s.uid:
            s.auth = True

    def touch(self, s):
        if s.uid is not None:
            self.slot_last[s.uid] = self.now

    def option(self, s):
        r = self.rng
        uid = s.uid if s.uid is not None else r.randrange(32)
        if r.random() < self.adv:
            uid = r.randrange(32)
        k = r.randrange(6)
        s.rs = (s.rs + 1) & 0xffff
        cm = b32c(s.rs >> 10) + b32c(s.rs >> 5) + b32c(s.rs)
        if k == 0:
            bits = r.choice([5, 6, 26, 7, 9])
            name = b's' + b32c(uid) + b32c(bits) + cm + b'.' + self.domain
            if uid == s.uid and s.auth and bits != 9:
                s.codec_next = {5: 0, 6: 1, 26: 2, 7: 3}[bits]
                s.codec = s.codec_next
        elif k == 1:
            name = b'o' + b32c(uid) + r.choice(b'tsuvrliTSUVRLIx').to_bytes(1, 'big') + cm + b'.' + self.domain
        elif k == 2:
            fs = r.choice([0, 1, 2, 3, 50, 100, 200, 500, 1200, 4000, 65535])
            data = bytes([uid & 255, fs >> 8, fs & 255, s.rs >> 8, s.rs & 255])
            name = qname(b'n', enc(0, data), self.domain)
        elif k == 3:
            name = b'i' + b32c(uid) + cm + b'.' + self.domain
        elif k == 4:
            name = b'y' + r.choice(b'tsuvrx').to_bytes(1, 'big') + b32c(r.choice([1, 1, 2])) + cm + b'.' + self.domain
        else:
            fs = r.choice([1, 2, 100, 500, 1000, 2047])
            pd = bytes([max(1, s.rs & 255)] * 60)
            name = qname(b'r' + b32c((uid << 1) | ((fs >> 10) & 1)) + b32c(fs >> 5) + b32c(fs) + b'd', enc(s.codec, pd), self.domain)
        self.emit_query(s.addr, name)
        self.stats['option'] += 1
        if uid == s.uid:
            self.touch(s)

    def ping(self, s, dup_of=None):
        r = self.rng
        uid = s.uid if s.uid is not None else r.randrange(16)
        if r.random() < self.adv:
            uid = self.adv_uid(wide=True)
        if dup_of is not None:
            name, qt = dup_of
            self.emit_query(s.addr, name, qtype=qt)
            self.stats['dup'] += 1
            return
        s.rs = (s.rs + 1) & 0xffff
        if r.random() < 0.3:
            s.dn_seq = r.randrange(8)
            s.dn_frag = r.randrange(16)
        data = bytes([uid & 255, ((s.dn_seq & 7) << 4) | (s.dn_frag & 15), s.rs >> 8, s.rs & 255])
        name = qname(b'p', enc(0, data), self.domain)
        qid, nm, _ = self.emit_query(s.addr, name)
        s.last_names.append((nm, self.qtype))
        self.stats['ping'] += 1
        if uid == s.uid and s.auth:
            self.touch(s)

    def data(self, s, payload=None, last=None, dup_of=None):
        r = self.rng
        if dup_of is not None:
            name, qt = dup_of
            self.emit_query(s.addr, name, qtype=qt)
            self.stats['dup'] += 1
            return
        uid = s.uid if s.uid is not None else r.randrange(16)
        if r.random() < self.adv:
            uid = self.adv_uid()
        if payload is None:
            payload = bytes(r.randrange(256) for _ in range(r.choice([1, 5, 20, 60, 100])))
        if last is None:
            last = r.randrange(3) == 0
        if r.random() < 0.35:
            s.dn_seq = r.randrange(8)
            s.dn_frag = r.randrange(16)
        hdr = ('%x' % (uid & 15)).encode()
        if r.randrange(5) == 0:
            hdr = hdr.upper()
        hdr += b32c(((s.up_seq & 7) << 2) | ((s.up_frag & 15) >> 2))
        hdr += b32c(((s.up_frag & 3) << 3) | (s.dn_seq & 7))
        hdr += b32c(((s.dn_frag & 15) << 1) | (1 if last else 0))
        hdr += b'abcdefghijklmnopqrstuvwxyz0123456789'[s.cmc % 36:s.cmc % 36 + 1]
        s.cmc += 1
        name = qname(hdr, enc(s.codec, payload), self.domain)
        qid, nm, _ = self.emit_query(s.addr, name)
        s.last_names.append((nm, self.qtype))
        self.stats['data'] += 1
        if last:
            s.up_seq = (s.up_seq + 1) & 7
            s.up_frag = 0
        else:
            s.up_frag = (s.up_frag + 1) & 15
        if r.random() < 0.05:
            s.up_seq = r.randrange(8)
            s.up_frag = r.randrange(16)
        if uid == s.uid and s.auth:
            self.touch(s)

    def upstream_packet(self, s, dst_ip=None):
        """a whole IP-like packet, framed as the harness' compress2 replacement does, in fragments"""
        r = self.rng
        # now and then a packet too short to carry the tun + IP header (no destination field: it can only go to the tun device)
        n = r.choice([24, 40, 90, 200, 400, r.choice([1, 4, 19, 20, 23])])
        ip = bytearray(r.randrange(256) for _ in range(n))
        if dst_ip is None:
            dst_ip = r.choice(self.tun_ips + [0x08080808, 0x0a000001])
        if n >= 24:
            ip[20:24] = bytes([(dst_ip >> 24) & 255, (dst_ip >> 16) & 255, (dst_ip >> 8) & 255, dst_ip & 255])
        comp = bytes([0x5A]) + bytes(ip)
        if r.random() < 0.08:
            comp = bytes([0x5B]) + comp[1:]
        step = r.choice([30, 60, 100, 150])
        pieces = [comp[i:i + step] for i in range(0, len(comp), step)]
        for j, p in enumerate(pieces):
            self.data(s, p, last=(j == len(pieces) - 1))
            self.tick()
            if r.random() < 0.2:
                self.dup_some(s)
            if r.random() < 0.15:
                self.sweep()

    def dup_some(self, s):
        if s.last_names:
            k = self.rng.choice([1, 1, 2, 3, 5, 10, 20, 40])
            cand = s.last_names[-k:]
            nm = self.rng.choice(cand)
            a = s.addr if self.rng.randrange(3) else self.other_addr(s.addr)
            saved = s.addr
            s.addr = a
            self.ping(s, dup_of=nm)
            s.addr = saved

    def other_addr(self, a):
        return (a[0], bytes([a[1][0], a[1][1], a[1][2], (a[1][3] + 1) & 255]) if a[0] == 4 else a[1], a[2] + 1)

    def tun(self, dst_ip=None, n=None):
        r = self.rng
        if n is None:
            # now and then a frame too short for the tun + IP header: it has no destination (what the previous frame left in the
            # read buffer must not route it)
            n = r.choice([24, 60, 150, 300, 700, 1400, 24, 60, 150, r.choice([1, 4, 19, 20, 23])])
        ip = bytearray(r.randrange(256) for _ in range(n))
        if dst_ip is None:
            dst_ip = r.choice(self.tun_ips[:4] + [0x08080808])
        if n >= 24:
            ip[20:24] = bytes([(dst_ip >> 24) & 255, (dst_ip >> 16) & 255, (dst_ip >> 8) & 255, dst_ip & 255])
        self.events.append('T %d %s' % (self.now, bytes(ip).hex()))
        self.stats['tun'] += 1

    def sweep(self):
        self.events.append('S %d' % self.now)
        self.stats['sweep'] += 1

    def raw(self, s, kind=None):
        r = self.rng
        uid = s.uid if s.uid is not None else r.randrange(16)
        if r.random() < self.adv:
            uid = self.adv_uid()
        if kind is None:
            kind = r.choice(['login', 'login', 'data', 'ping', 'badlogin', 'junk'])
        hdr = bytes([0x10, 0xd1, 0x9e])
        if kind == 'login':
            body = login_stub(self.password, (s.seed + 1) & 0xffffffff)
            dg = hdr + bytes([0x10 | (uid & 15)]) + body
            if uid == s.uid and s.auth:
                s.raw = True
        elif kind == 'badlogin':
            body = login_stub(self.password, (s.seed + r.choice([0, 2, -1])) & 0xffffffff)
            dg = hdr + bytes([0x10 | (uid & 15)]) + body[:r.choice([16, 15, 16, 20])]
        elif kind == 'data':
            n = r.choice([24, 60, 200])
            ip = bytearray(r.randrange(256) for _ in range(n))
            dst = r.choice(self.tun_ips[:4] + [0x08080808])
            ip[20:24] = bytes([(dst >> 24) & 255, (dst >> 16) & 255, (dst >> 8) & 255, dst & 255])
            dg = hdr + bytes([0x20 | (uid & 15)]) + bytes([0x5A]) + bytes(ip)
        elif kind == 'ping':
            dg = hdr + bytes([0x30 | (uid & 15)])
        else:
            dg = hdr[:r.choice([2, 3])] + bytes(r.randrange(256) for _ in range(r.randrange(0, 30)))
        a = s.addr if r.randrange(3) else self.other_addr(s.addr)
        self.emit_dgram(a, dg)
        self.stats['raw'] += 1
        if uid == s.uid and s.auth and kind in ('login', 'data', 'ping'):
            self.touch(s)

    def hostile(self, s):
        """malformed / foreign traffic"""
        r = self.rng
        k = r.randrange(7)
        if k == 0:
            dg = bytes(r.randrange(256) for _ in range(r.randrange(0, 60)))
        elif k == 1:
            name = bytes(r.choice(b'vlisonyrpzVLISONYRPZ0123456789abcdefABCDEFgG') for _ in range(1)) + \
                bytes(r.randrange(1, 256) for _ in range(r.randrange(0, 40)))
            name = name.replace(b'.', b'x') + b'.' + self.domain
            dg = dns_query(self.next_id(), r.choice(self.QTYPES + [2, 28, 255]), name)
        elif k == 2:
            dg = dns_query(self.next_id(), r.choice([2, 1]), r.choice([b'ns.', b'www.', b'', b'x.', b'NS.']) + self.domain)
            self.stats['aux'] += 1
        elif k == 3:
            dg = dns_query(self.next_id(), r.choice(self.QTYPES), b'www.other-domain.org')
        elif k == 4:
            base = dns_query(self.next_id(), self.qtype, qname(b'p', enc(0, bytes(4)), self.domain))
            dg = base[:r.randrange(0, len(base))]
        elif k == 5:
            base = bytearray(dns_query(self.next_id(), self.qtype, qname(b'v', enc(0, bytes(6)), self.domain)))
            for _ in range(r.randrange(1, 4)):
                base[r.randrange(len(base))] = r.randrange(256)
            dg = bytes(base)
        else:
            # id 0 query
            dg = dns_query(0, self.qtype, qname(b'p', enc(0, bytes([s.uid or 0, 0, 1, 2])), self.domain))
        self.emit_dgram(r.choice([s.addr, self.other_addr(s.addr)]), dg, dest=r.randrange(2) == 0)
        self.stats['hostile'] += 1

    # --- whole history ------------------------------------------------------------------------
    def build(self, nevents):
        r = self.rng
        nsess = r.choice([1, 1, 2, 3, 5])
        for k in range(nsess):
            fam = 4 if r.randrange(8) else 6
            ip = bytes([192, 0, 2, 10 + k]) if fam == 4 else bytes([0x20, 1, 0xd, 0xb8] + [0] * 11 + [k + 1])
            self.sessions.append(Session(self, (fam, ip, 4000 + k)))
        for s in self.sessions:
            if r.random() < 0.9:
                self.version(s, proto=0x502 if r.random() > 0.05 else 0x501)
                self.tick()
                if r.random() < 0.9:
                    self.login(s, good=r.random() > 0.1)
                    self.tick()
                for _ in range(r.randrange(0, 4)):
                    self.option(s)
                    self.tick()
        while len(self.events) < nevents:
            s = r.choice(self.sessions)
            x = r.random()
            if x < 0.22:
                self.ping(s)
            elif x < 0.40:
                self.data(s)
            elif x < 0.50:
                self.upstream_packet(s)
            elif x < 0.60:
                self.tun()
            elif x < 0.68:
                self.sweep()
            elif x < 0.76:
                self.dup_some(s)
            elif x < 0.80:
                self.option(s)
            elif x < 0.84:
                self.raw(s)
            elif x < 0.90:
                self.hostile(s)
            elif x < 0.93:
                self.login(s, good=r.random() > 0.3, seed_delta=r.choice([0, 0, 1, -1]))
            elif x < 0.95:
                self.version(s)
            elif x < 0.97:
                self.tick(big=True)
            else:
                # acks that follow the real downstream state more closely: ack 0,1,2.. of current seq
                s.dn_frag = (s.dn_frag + 1) & 15
                self.ping(s)
            self.tick()
        return 'H ' + self.cfg() + ' ; ' + ' ; '.join(self.events[:nevents])


def gen_histories(seed, n, nevents, tag='srv', wildcard=0.0):
    """wildcard: fraction of histories whose server is configured with a wildcard for the first label of the clients'
    domain (only for comparisons of the implementation with the model: the monitors of the checks match plain domains)"""
    rng = vlib.rng_for(seed, tag)
    out = []
    stats = {}
    for _ in range(n):
        g = HistGen(rng)
        if wildcard and rng.random() < wildcard:
            g.domain = rng.choice([b'tun', b'my-tunnel1', b'x', b'T0']) + g.domain[g.domain.index(b'.'):]
            g.srv_domain = b'*' + g.domain[g.domain.index(b'.'):]
            stats['wildcard_server'] = stats.get('wildcard_server', 0) + 1
        out.append(g.build(nevents if isinstance(nevents, int) else rng.choice(nevents)))
        for k, v in g.stats.items():
            stats[k] = stats.get(k, 0) + v
    return out, stats


def to_loop_history(h, rng):
    """turns an H history (handlers called one by one) into an L history for the REAL select loop tunnel(): same events, one per
    select() call, some adjacent datagram / tun-packet pairs merged into a 'both readable' iteration"""
    evs = h.split(' ; ')
    head = 'L' + evs[0][1:]
    out = []
    i = 1
    while i < len(evs):
        a = evs[i].split()
        if i + 1 < len(evs) and rng.random() < 0.2:
            b = evs[i + 1].split()
            if a and b and {a[0], b[0]} == {'X', 'T'}:
                x, t = (a, b) if a[0] == 'X' else (b, a)
                out.append('B %s %s %s %s %s %s' % (x[1], x[2], x[3], x[4], x[5], t[2]))
                i += 2
                continue
        out.append(evs[i])
        i += 1
    # the real loop runs its final sweep once more when the script ends: close every history with a timeout iteration, after
    # which nothing is left to send (otherwise that sweep would emit answers outside the compared output)
    last_now = out[-1].split()[1] if out else '0'
    out.append('S %s' % last_now)
    return head + ' ; ' + ' ; '.join(out)


def loop_glue(rep, ctx, exe, n, tag):
    """correspondence of the server select-loop model (ServerLoop.siter: clear loop with the loop-top clock, tun read only when
    some session can take a packet, tun before DNS, final sweep) with the REAL tunnel() loop of iodined.c driven through a
    scripted select(): L lines of harness/h_srvhist.c"""
    ok, model, lg = vlib.build_model_driver('SRV')
    if not ok:
        ctx.broken.append(('extraction', 'server model driver does not build: ' + lg[-300:]))
        return
    hs, st = gen_histories(rep.seed, n, 100, tag=tag, wildcard=0.3)
    rng = vlib.rng_for(rep.seed, tag + '-merge')
    # targeted: packets for a session pile up (one in flight, more in its ring) before it switches to raw mode -- the ring is then
    # never drained -- and further packets arrive on the tun device: whether the loop still reads the tun device
    for k in range(max(4, n // 10)):
        g = HistGen(rng, adversarial=0.0)
        g.no_case_relay = True
        g.set_net(g.myip, rng.choice([24, 27, 28]))
        ss = [Session(g, (4, bytes([192, 0, 2, 30 + j]), 4100 + j)) for j in range(rng.choice([1, 1, 2]))]
        for s in ss:
            g.version(s)
            g.login(s)
        s = ss[0]
        for _ in range(rng.choice([2, 3, 5])):
            g.tun(dst_ip=g.tun_ips[s.uid], n=rng.choice([60, 150]))
        g.raw(s, 'login')
        for _ in range(rng.choice([3, 6])):
            g.tun(dst_ip=g.tun_ips[rng.choice(ss).uid], n=rng.choice([60, 150]))
            if rng.randrange(2):
                g.raw(s, 'ping')
            g.tick()
        hs.append('H ' + g.cfg() + ' ; ' + ' ; '.join(g.events))
    ls = [to_loop_history(h, rng) for h in hs]
    rc, impl, err = vlib.parallel_run_cases(exe, ls, ctx.work, 'sloop-impl')
    rc2, mod, err2 = vlib.parallel_run_cases(model, ls, ctx.work, 'sloop-model')
    if rc != 0:
        ctx.broken.append(('impl-crash', 'server loop harness exited with %d: %s' % (rc, err[-300:])))
    okc = 0
    for h, a, b in zip(ls, impl, mod):
        if a == b:
            okc += 1
            continue
        ea, eb = a.split(' ; '), b.split(' ; ')
        k = next((j for j, (x, y) in enumerate(zip(ea, eb)) if x != y), min(len(ea), len(eb)))
        evs = h.split(' ; ')
        ctx.broken.append(('correspondence', 'server select-loop model (ServerLoop.siter) and the real tunnel() disagree at iteration %d (event %r) of %r: impl=%r model=%r' % (
            k, evs[k + 1][:80] if k + 1 < len(evs) else '', ' ; '.join(evs[:k + 2])[-3000:], ea[k][:300] if k < len(ea) else '', eb[k][:300] if k < len(eb) else '')))
        break
    rep.cov['server_loop_histories_validated'] = okc
    rep.cov['server_loop_both_ready_iterations'] = sum(l.count(' ; B ') for l in ls)
    rep.cov['evaluations'] = rep.cov.get('evaluations', 0) + sum(l.count(' ; ') for l in ls)
