"""debug helper: show the events of a replay file around the flagged event (implementation output)"""
import json, sys, os, re, subprocess
HERE = os.path.dirname(os.path.abspath(__file__))
sys.path.insert(0, HERE)
sys.path.insert(0, os.path.join(os.path.dirname(HERE), 'tools'))
import srvmon

rp = json.load(open(sys.argv[1]))
span = int(sys.argv[2]) if len(sys.argv) > 2 else 14
exe = sys.argv[3] if len(sys.argv) > 3 else 'build/%s/srv' % rp['property']
case = rp['case']
k = rp['event']
cfg, evs = srvmon.history_events(case)
print(cfg)
dom = bytes.fromhex(cfg[0])
os.makedirs('build/tmp', exist_ok=True)
open('build/tmp/one.cases', 'w').write(case + '\n')
env = dict(os.environ)
env['VERIF_FULL'] = '1'
out = subprocess.run([exe, 'build/tmp/one.cases'], capture_output=True, env=env).stdout.decode()
res = out.strip().split(' ; ')
for i in range(max(0, k - span), min(len(evs), k + 3)):
    e = evs[i].split()
    desc = e[0]
    if e[0] == 'X':
        pq = srvmon.parse_query(bytes.fromhex(e[5])) if e[5] != '-' else None
        if pq:
            q = srvmon.QInfo(pq[0], pq[1], pq[2], dom)
            desc = 'X %s id=%d %s uid=%s ack=%s fs=%s %s' % (e[3], q.id, q.kind, q.uid, q.ack, q.fs, pq[2][:24])
    elif e[0] == 'T':
        desc = 'T len=%d' % (len(e[2]) // 2)
    r = res[i]
    left, right = r.split(' | ') if ' | ' in r else (r, '')
    sends = re.findall(r'=([0-9a-f]{4})[^{ ]*\{(-?\d+):([0-9a-f\-]{0,12})', left)
    us = []
    for u in right.split():
        f = dict((p[0], p[1:]) for p in u.split(':', 1)[1].split(',') if p)
        us.append('%s[F%s I%s O%s X%s U%s K%s P%s M%s Q%s R%s]' % (u.split(':')[0], f.get('F'), f.get('I', '')[:14], f.get('O', '')[:18], f.get('X'),
                                                     f.get('U', '')[:3], f.get('K', '')[:3], f.get('P', '')[:3], f.get('M', '')[:3], f.get('Q', '')[:12], f.get('R', '')[:12]))
    print(('>>' if i == k else '  '), i, desc, '=>', sends, ' '.join(us))
