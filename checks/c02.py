"""C02 -- the tunnel makes progress and recovers after network trouble.
Whole-system runs of the two real programs (and the composed model) under (a) a clean path and
(b) a fault prefix followed by a clean suffix; oracle on the implementation: every packet accepted
from a tun device during the clean phase reaches the peer's tun exactly once and in order."""
import os
import re
import vlib
import syslib
import looplib
import clilib
import srvlib


RESYNC_LOSS = 4


def accepted_and_delivered(hist, gen, out):
    """returns (why, stats): checks exactly-once in-order delivery of packets accepted in the clean phase"""
    evs = hist.split(' ; ')[1:]
    outs = out.split(' ; ')
    start = gen.clean_start
    acc_up, acc_down = [], []      # packets accepted (in order)
    got_up, got_down = [], []      # packets written to the peer's tun (in order) during the clean phase
    prev = None
    for i, (e, o) in enumerate(zip(evs, outs)):
        r = syslib.parse_event_output(o)
        if i >= start:
            got_up += r['srv_tun']
            got_down += r['cli_tun']
            if e.startswith('CU '):
                # accepted iff the client was not already sending: its out-packet length changes from 0
                m0 = re.match(r'O(\d+)/', prev['cli']) if prev else None
                m1 = re.match(r'O(\d+)/', r['cli'])
                was_idle = m0 is None or int(m0.group(1)) == 0
                if was_idle and m1 and (int(m1.group(1)) > 0 or r['q'][0] > (prev['q'][0] if prev else 0)):
                    acc_up.append(e[3:])
            elif e.startswith('SU '):
                # accepted iff it became the out-packet or was queued: U<filled> or O<len> changes
                def key(s):
                    mo = re.search(r',O(\d+)/\d+/\d+/(\d+)/', s)
                    mu = re.search(r',U(\d+)/', s)
                    return (mo.group(1), mo.group(2), mu.group(1)) if mo and mu else None
                k0 = key(prev['srv']) if prev else None
                k1 = key(r['srv'])
                if k0 != k1 or r['cli_tun'] or r['q'][1] > (prev['q'][1] if prev else 0):
                    acc_down.append(e[3:])
        prev = r
    st = dict(acc_up=len(acc_up), acc_down=len(acc_down), got_up=len(got_up), got_down=len(got_down))
    # packets accepted during the fault prefix may still be queued and arrive in the clean phase:
    # only packets accepted in the clean phase are held to "exactly once, in order"
    su, sd = set(acc_up), set(acc_down)
    st['late_from_prefix'] = len([p for p in got_up if p not in su]) + len([p for p in got_down if p not in sd])
    got_up = [p for p in got_up if p in su]
    got_down = [p for p in got_down if p in sd]
    # after a fault prefix the receiver may still consider the sender's next sequence numbers "recent
    # duplicates" (3-bit seqno, window of 3): up to RESYNC_LOSS leading packets per direction may be lost,
    # from the first delivered one on every accepted packet must arrive exactly once and in order.
    # On an always-clean path nothing may be lost.
    allow = RESYNC_LOSS if gen.had_prefix else 0
    for name, acc, got in (('upstream', acc_up, got_up), ('downstream', acc_down, got_down)):
        ok = False
        for skip in range(0, min(allow, len(acc)) + 1):
            if got == acc[skip:]:
                ok = True
                st['lost_' + name] = skip
                break
        if not ok:
            return ('%s: accepted %d packets in the clean phase, peer tun received %d of them; not "all but at most %d leading packets, '
                    'exactly once, in order"' % (name, len(acc), len(got), allow)), st
    return None, st


def loop_oracle(rep, ctx):
    """the real select loops of both programs in virtual time (see looplib.py)"""
    if 'loopsim' not in ctx.exe:
        return
    n = 1200 if rep.tier == 'quick' else 20000
    cases, stats = looplib.gen(rep.seed, n, tag='c02loop')
    corpus = []
    cp = os.path.join(vlib.VERIF, 'corpus', 'C02')
    if os.path.isdir(cp):
        for fn in sorted(os.listdir(cp)):
            if fn.endswith('.loop'):
                corpus += [l.split() for l in open(os.path.join(cp, fn)) if l.strip() and not l.startswith('#')]
    cases = corpus + cases
    res = looplib.run_all(ctx.exe['loopsim'], cases)
    delivered = 0
    bad = {}
    for a, (rc, out) in zip(cases, res):
        kind, txt = looplib.classify(rc, out)
        delivered += looplib.counters(out)
        if kind in ('liveness', 'integrity') and 'loop' not in bad:
            bad['loop'] = (a, kind, txt)
        elif kind in ('handshake', 'crash') and 'mach' not in bad:
            bad['mach'] = (a, kind, txt)
    rep.cov['loop_oracle'] = dict(runs=len(cases), corpus=len(corpus), distribution=stats, packets_delivered_in_checked_windows=delivered,
                                  rule='real client_tunnel()/tunnel() loops in virtual time; per run a configuration, periodic offers on both tun '
                                       'devices, 0-2 fault windows; after the last fault + 30 s every accepted packet must reach the peer tun '
                                       'exactly once within 10 s and the tun devices must keep being read')
    rep.cov['evaluations'] = rep.cov.get('evaluations', 0) + len(cases)
    if 'loop' in bad:
        a, kind, txt = bad['loop']
        rep.add_violation('loop:' + ('wedge' if kind == 'liveness' else 'integrity'),
                          'real select loops in virtual time: ' + txt,
                          dict(kind='loop', driver='loopsim', case=' '.join(a), expected='delivery resumes after the fault windows; exactly once; tun devices read'))
    if 'mach' in bad:
        a, kind, txt = bad['mach']
        ctx.broken.append(('loopsim', 'loop simulator %s on %s: %s' % (kind, ' '.join(a), txt)))


def loop_glue(rep, ctx):
    """correspondence of the select-loop model (ClientLoop.lstep: watchdog, which handler runs for which readiness, the retransmit
    guard of D18) with the REAL client_tunnel() loop driven through a scripted select(): T lines of harness/h_clihist.c"""
    if 'cli' not in ctx.exe:
        return
    ok, cli_model, lg = vlib.build_model_driver('CLI')
    if not ok:
        ctx.broken.append(('extraction', 'client model driver does not build: ' + lg[-300:]))
        return
    n = 150 if rep.tier == 'quick' else 2500
    hs, st = clilib.gen_loop_histories(rep.seed, n, 80, tag='c02cliloop')
    rc, impl, err = vlib.parallel_run_cases(ctx.exe['cli'], hs, ctx.work, 'loop-impl')
    rc2, mod, err2 = vlib.parallel_run_cases(cli_model, hs, ctx.work, 'loop-model')
    if rc != 0:
        ctx.broken.append(('impl-crash', 'client loop harness exited with %d: %s' % (rc, err[-300:])))
    okc = 0
    for h, a, b in zip(hs, impl, mod):
        if a == b:
            okc += 1
            continue
        ea, eb = a.split(' ; '), b.split(' ; ')
        k = next((j for j, (x, y) in enumerate(zip(ea, eb)) if x != y), min(len(ea), len(eb)))
        evs = h.split(' ; ')
        ctx.broken.append(('correspondence', 'select-loop model (ClientLoop.lstep) and the real client_tunnel() disagree at iteration %d (event %r) of %r: impl=%r model=%r' % (
            k, evs[k + 1][:80] if k + 1 < len(evs) else '', ' ; '.join(evs[:k + 2])[-3000:], ea[k][:300] if k < len(ea) else '', eb[k][:300] if k < len(eb) else '')))
        break
    rep.cov['client_loop_histories_validated'] = okc
    rep.cov['client_loop_distribution'] = st
    rep.cov['evaluations'] = rep.cov.get('evaluations', 0) + sum(h.count(' ; ') for h in hs)


def check(rep):
    ctx = vlib.prepare(rep, harnesses={'sys': syslib.SYS, 'sysreal': syslib.SYS_REAL, 'loopsim': looplib.LOOPSIM, 'cli': clilib.CLI, 'srv': srvlib.SRV}, sanitize=False, model='SYS')
    loop_oracle(rep, ctx)
    loop_glue(rep, ctx)
    if 'srv' in ctx.exe:
        srvlib.loop_glue(rep, ctx, ctx.exe['srv'], 120 if rep.tier == 'quick' else 2000, 'c02srvloop')
    nh = 160 if rep.tier == 'quick' else 2500
    hs, gens = syslib.gen_clean(rep.seed, nh, 80, 12, tag='c02')
    rep.cov['rule'] = ('random configurations; per schedule an optional fault prefix (loss, duplication, re-ordering, relay re-sends, ticks), all '
                       'in-flight datagrams lost, a settle phase, then a clean phase: packets offered on both sides, every datagram delivered '
                       'promptly and in order, timers only when idle. distinct = distinct schedules; non-trivial = schedules with >= 1 packet accepted in the clean phase')
    rep.cov['evaluations'] = rep.cov.get('evaluations', 0) + sum(h.count(' ; ') for h in hs)
    if 'sysreal' in ctx.exe:
        os.environ['VERIF_FULL'] = '1'
        rc, implf, err = vlib.parallel_run_cases(ctx.exe['sysreal'], hs, ctx.work, 'implfull')
        del os.environ['VERIF_FULL']
        if rc != 0:
            ctx.broken.append(('impl-crash', 'implementation harness exited with %d: %s' % (rc, err[-300:])))
        tot = dict(acc_up=0, acc_down=0, got_up=0, got_down=0, late_from_prefix=0, lost_upstream=0, lost_downstream=0)
        nontriv = 0
        for h, g, o in zip(hs, gens, implf):
            why, st = accepted_and_delivered(h, g, o)
            for k in tot:
                tot[k] += st.get(k, 0)
            if st['acc_up'] + st['acc_down'] > 0:
                nontriv += 1
            if why:
                rep.add_violation('clean-path-delivery', why, dict(kind='history', driver='sys', case=h, expected='each accepted packet exactly once, in order'))
                break
        rep.cov['distinct_nontrivial'] = nontriv
        rep.cov['clean_phase_totals'] = tot
        rep.cov['samples'] = [hs[0][:300]]
    if 'sys' in ctx.exe and ctx.model:
        rc, impl, err = vlib.parallel_run_cases(ctx.exe['sys'], hs, ctx.work, 'impl')
        rc, mod, err = vlib.parallel_run_cases(ctx.model, hs, ctx.work, 'model')
        ok = 0
        for h, a, b in zip(hs, impl, mod):
            if a == b:
                ok += 1
                continue
            ea, eb = a.split(' ; '), b.split(' ; ')
            k = next((j for j, (x, y) in enumerate(zip(ea, eb)) if x != y), min(len(ea), len(eb)))
            ctx.broken.append(('correspondence', 'composed model and the two real programs disagree at event %d: impl=%r model=%r' % (
                k, ea[k][:300] if k < len(ea) else '', eb[k][:300] if k < len(eb) else '')))
            break
        rep.cov['traces_validated_against_impl'] = ok
    if not rep.violations:
        ctx.report_broken()
    return rep


def replay_loop(rp):
    rep = vlib.Report('C02', 'quick', rp.get('seed', 1))
    ctx = vlib.prepare(rep, harnesses={'loopsim': looplib.LOOPSIM}, sanitize=False, prove_it=False, model='SYS')
    rc, out = looplib.run_one(ctx.exe['loopsim'], rp['case'].split())
    print(out[-2500:])
    return 1 if rc else 0


def replay(rp):
    if rp.get('kind') == 'loop':
        return replay_loop(rp)
    rep = vlib.Report('C02', 'quick', rp.get('seed', 1))
    ctx = vlib.prepare(rep, harnesses={'sys': syslib.SYS_REAL}, sanitize=False, prove_it=False, model='SYS')
    case = rp.get('case')
    if not case:
        print('replay names a broken obligation, not an input:', rp.get('broken'))
        return 1
    cp = os.path.join(ctx.work, 'replay.cases')
    open(cp, 'w').write(case + '\n')
    os.environ['VERIF_FULL'] = '1'
    rc, impl, err = vlib.run_cases(ctx.exe['sys'], cp)
    print('schedule:', case[:300])
    print('last:', impl[0].split(' ; ')[-1][:500] if impl else err)
    return 1
