"""C12 -- a datagram is interpreted from its own bytes only (no stale-buffer over-read).
Proof: coq/Properties_C12.v (ResidueProofs.v, ResidueSteps.v): every decoder of the validated
models gives the same result for all contents of the receive buffer beyond the datagram.

Implementation-level oracle (independent of the model): the REAL decoders are run on every
generated datagram several times -- client side through read_dns_withq ('A' cases, caller buffer
65536 / 4096 / 300 bytes), server side through read_dns ('Q' cases) -- with the wrapped
recvfrom()/recvmsg() pre-filling the whole 64 KB receive buffer with residue patterns 0..4 of
wire_net.c residue_fill (zeros, 0xff, counter, label-like text, pointer-like bytes) and once with
the buffer left alone (-1: it then really holds the earlier datagrams of the run, in a different
order per round; in that round a datagram derived from a longer one -- a truncation, a changed
RDLENGTH -- is received right after its parent, so the buffer holds the rest of the parent); all
runs of one datagram must print the same result.  End-to-end variant: whole server and client
histories (real dispatchers, sessions, raw frames; short/truncated copies of a long datagram
right after it, from another or the same address; crafted raw-mode histories with frames cut to
0..5 bytes) under residues -1, 0, 3, 4, each residue in fresh processes with identical chunking,
must produce the same datagrams, tun packets and session digests.
Correspondence: every result also equals the extracted model's (which never sees a residue)."""
import os
import vlib
from vlib import hexs
from wirelib import WIRE
import srvlib
import clilib

RESIDUES = [0, 1, 2, 3, 4, -1]
HIST_RESIDUES = [-1, 0, 3, 4]
T_A, T_NS, T_CNAME, T_NULL, T_MX, T_TXT, T_SRV, T_PRIVATE = 1, 2, 5, 10, 15, 16, 33, 65399
QTYPES = [T_NULL, T_PRIVATE, T_TXT, T_SRV, T_MX, T_CNAME, T_A]

SRV12 = vlib.tu_harness(['hmain.c', 'h_c12srv.c', 'wire_net.c', 'wire_srv.c', 'wire_cli.c'], 'server', srvlib.SRV['wraps'])
SRV12['repo'] = srvlib.SRV['repo']
CLI12 = vlib.tu_harness(['hmain.c', 'h_c12cli.c', 'wire_net.c', 'wire_srv.c', 'wire_cli.c'], 'server', clilib.CLI['wraps'])
CLI12['repo'] = clilib.CLI['repo']


# ---- wire building blocks ----------------------------------------------------------------------
def b16(v):
    return bytes([(v >> 8) & 255, v & 255])


def hdr(qid, flags, qd, an, ns=0, ar=0):
    return b16(qid) + b16(flags) + b16(qd) + b16(an) + b16(ns) + b16(ar)


def wname(name):
    out = bytearray()
    for lab in name.split(b'.'):
        if lab:
            out.append(len(lab) & 255)
            out += lab
    out.append(0)
    return bytes(out)


def query(qid, qtype, name, edns=False, flags=0x0100, qd=1):
    d = hdr(qid, flags, qd, 0, 0, 1 if edns else 0) + wname(name) + b16(qtype) + b16(1)
    if edns:
        d += bytes([0, 0, 41, 16, 0, 0, 0, 128, 0, 0, 0])
    return d


def rr(owner, rtype, rdata, rdlen=None, ttl=0):
    return owner + b16(rtype) + b16(1) + bytes([(ttl >> 24) & 255, (ttl >> 16) & 255, (ttl >> 8) & 255, ttl & 255]) + \
        b16(len(rdata) if rdlen is None else rdlen) + rdata


def txt_chunks(data, chunk=252):
    out = bytearray()
    for i in range(0, len(data), chunk):
        p = data[i:i + chunk]
        out.append(len(p))
        out += p
    return bytes(out)


PTR_Q = bytes([0xc0, 12])


def answer(qid, qtype, qname, rrs, an=None, flags=0x8400, qd=1):
    return hdr(qid, flags, qd, len(rrs) if an is None else an) + wname(qname) + b16(qtype) + b16(1) + b''.join(rrs)


def host_like(rng, n, first=b'h'):
    s = first + bytes(rng.choice(b'abcdefghijklmnopqrstuvwxyz012345') for _ in range(max(0, n - 1)))
    out = b''
    while s:
        out += s[:57] + b'.'
        s = s[57:]
    return out + b'xy'


def valid_answer(rng, qtype, n, first=None):
    """a well-formed answer of the given question type carrying about n payload bytes; returns
    (datagram, offset of the first RDLENGTH field)"""
    if first is None:
        first = rng.choice([b'P', b'p', b'0', b'a', b'F'])
    qn = first + bytes(rng.choice(b'abcdwxyz0189') for _ in range(rng.choice([4, 4, 30, 60]))) + b'.t.example.com'
    qid = rng.randrange(65536)
    payload = bytes(rng.randrange(256) for _ in range(n))
    head = hdr(qid, 0x8400, 1, 1) + wname(qn) + b16(qtype) + b16(1)
    rdl_off = len(head) + 2 + 8
    if qtype in (T_NULL, T_PRIVATE):
        rrs = [rr(PTR_Q, qtype, payload)]
    elif qtype == T_TXT:
        rrs = [rr(PTR_Q, T_TXT, txt_chunks(b't' + payload, rng.choice([252, 255, 100, 7])))]
    elif qtype == T_CNAME:
        rrs = [rr(PTR_Q, T_CNAME, wname(host_like(rng, n)))]
    elif qtype == T_A:
        if rng.randrange(3):
            rrs = [rr(PTR_Q, T_CNAME, wname(host_like(rng, n)))]
        else:
            rrs = [rr(PTR_Q, T_A, payload[:rng.choice([4, 4, 2, 16])] or b'\x7f\0\0\1')]
    else:
        k = max(1, min(12, n // 40 + 1))
        rrs = []
        for i in range(k):
            nm = wname(host_like(rng, max(2, n // k)))
            if qtype == T_MX:
                rrs.append(rr(PTR_Q, T_MX, b16(10 * (i + 1)) + nm))
            else:
                rrs.append(rr(PTR_Q, T_SRV, b16(10 * (i + 1)) + b16(10) + b16(5060) + nm))
    return answer(qid, qtype, qn, rrs), rdl_off


def put16(d, off, v):
    d = bytearray(d)
    if off + 2 <= len(d):
        d[off] = (v >> 8) & 255
        d[off + 1] = v & 255
    return bytes(d)


# ---- the generator --------------------------------------------------------------------------------
class Gen:
    def __init__(self, seed, tier):
        self.rng = vlib.rng_for(seed, 'c12')
        self.tier = tier
        self.big = tier == 'thorough'
        self.dgs = []           # (class, bytes)
        self.seen = set()
        self.parent = {}
        self.stats = {}

    def add(self, cls, d, parent=None):
        """parent: a longer datagram this one was derived from (cut / field changed); in the round that
        leaves the receive buffer alone the parent is received immediately before it, so that the buffer
        holds the parent's bytes beyond the end of this datagram"""
        d = bytes(d)[:8000]
        if parent is not None:
            parent = bytes(parent)[:8000]
            if parent != d:
                self.add(cls + '-parent' if parent not in self.seen else cls, parent)
        if d in self.seen:
            return
        self.seen.add(d)
        if parent is not None and parent != d:
            self.parent[len(self.dgs)] = parent
        self.dgs.append((cls, d))
        self.stats[cls] = self.stats.get(cls, 0) + 1

    def every_truncation(self, cls, d, step=1):
        self.add(cls, d)
        for l in range(0, len(d) + 1, step):
            self.add(cls, d[:l], parent=d)

    def run(self):
        r = self.rng
        big = self.big
        # 1. valid queries of all types, truncated at every length
        for qt in QTYPES + [T_NS, 255]:
            for name in [b'paaaq.t.example.com', b'0' + b'x' * 56 + b'.' + b'y' * 63 + b'.t.example.com', b'z.t.example.com']:
                for edns in (False, True):
                    if not big and (name.startswith(b'0') and (edns or qt not in (T_NULL, T_TXT, T_A))):
                        continue
                    self.every_truncation('query-truncated', query(r.randrange(65536), qt, name, edns))
        # 2. valid answers of all 7 types, truncated at every length
        for qt in QTYPES:
            for n in ([2, 40, 300] if not big else [2, 3, 40, 130, 300, 700]):
                d, _ = valid_answer(r, qt, n)
                self.every_truncation('answer-truncated', d, step=1 if len(d) < 400 or big else 3)
        # 3. labels whose end is at len-1 / len / len+1, length bytes 0x40..0xBF, long labels
        for qr in (0, 1):
            for lablen in list(range(1, 8)) + [31, 62, 63, 64, 65, 100, 127, 128, 129, 191, 0xbf, 200 if big else 63]:
                for delta in (-2, -1, 0, 1, 2, 5):
                    have = max(0, lablen + delta)
                    body = bytes(r.choice(b'PpAbcxyz019') for _ in range(have))
                    pre = r.choice([b'', b'\x01P', b'\x03pab'])
                    nm = pre + bytes([lablen]) + body
                    base = hdr(r.randrange(65536), 0x8400 if qr else 0x0100, 1, 1 if qr else 0) + nm
                    self.add('label-end', base)
                    if delta >= 0:
                        self.add('label-end', base + b'\0' + b16(r.choice(QTYPES)) + b16(1))
                        self.add('label-end', base + b'\0' + b16(r.choice(QTYPES)))
            for lb in range(0x40, 0xc0, 1 if big else 5):
                body = bytes(r.choice(b'abc') for _ in range(r.choice([0, 1, lb - 1, lb, lb + 1])))
                self.add('label-reserved-type', hdr(7, 0x8400 if qr else 0x0100, 1, qr) + bytes([lb]) + body + b'\0' + b16(T_NULL) + b16(1))
        # 4. compression pointers: to len-1 / len / len+1, to 0..12, forward, self, loops, chains
        for qr in (0, 1):
            fl = 0x8400 if qr else 0x0100
            for tail in (b16(T_NULL) + b16(1), b16(T_NULL) + b'\0' + bytes([3]), b'', b'\0\x10\0\x01\x05'):
                for pre in (b'', b'\x02Pa', b'\x01p\x01q'):
                    L = 12 + len(pre) + 2 + len(tail)
                    targets = [L - 2, L - 1, L, L + 1, L + 2, 0x3fff, 12 + len(pre), 12 + len(pre) + 1, 13] + list(range(0, 13))
                    for t in targets:
                        d = hdr(r.randrange(65536), fl, 1, qr) + pre + bytes([0xc0 | ((t >> 8) & 0x3f), t & 255]) + tail
                        assert len(d) == L
                        self.add('pointer-target', d)
                # pointer whose second byte is missing
                for pre in (b'', b'\x01P', b'\x03Pab\x01c'):
                    self.add('pointer-cut', hdr(9, fl, 1, qr) + pre + b'\xc0')
                    self.add('pointer-cut', hdr(9, fl, 1, qr) + pre + b'\xff')
            # chains / loops of depth 1..12 ending in a label, in a bad pointer, or looping
            for depth in range(1, 13):
                for end in ('label', 'loop', 'bad', 'cut', 'lenbyte-last'):
                    d = bytearray(hdr(r.randrange(65536), fl, 1, qr))
                    first = 12 + 6
                    d += bytes([0xc0, first]) + b16(T_NULL) + b16(1)      # name at 12 -> chain start
                    for k in range(depth):
                        nxt = first + 3 * k + 3
                        d += bytes([0xc0, nxt & 255]) + b'\x07'
                    if end == 'label':
                        d += b'\x03Pqr\0'
                    elif end == 'loop':
                        d += bytes([0xc0, first])
                    elif end == 'bad':
                        d += bytes([0xc1, 0xff])
                    elif end == 'cut':
                        d += b'\xc0'
                    else:
                        d += b'\x05'
                    self.add('pointer-chain', d)
            # label, then pointer back into the header / into itself / to the last byte
            for t in (0, 2, 4, 11, 12, 14, 15):
                self.add('pointer-after-label', hdr(0x0350, fl, 1, qr) + b'\x02Pa' + bytes([0xc0, t]) + b16(T_TXT) + b16(1))
        # 5. RDLENGTH = remaining-1 / remaining / remaining+1 / 0 / 0xffff / >4096, per type
        for qt in QTYPES:
            for n in (2, 3, 30, 260, 1200):
                d, off = valid_answer(r, qt, n)
                true = (d[off] << 8) | d[off + 1]
                remaining = len(d) - (off + 2)
                for v in (remaining - 1, remaining, remaining + 1, remaining + 2, 0, 1, 2, 0xffff, 4096, 4097, true + 256, max(0, true - 1)):
                    if 0 <= v <= 0xffff:
                        self.add('rdlength', put16(d, off, v), parent=d)
                # the same with the datagram cut right after / inside the record header
                for cut in (off, off + 1, off + 2, off + 3):
                    self.add('rdlength-cut', d[:cut], parent=d)
                self.add('rdlength', put16(d[:off + 2 + 1], off, 3), parent=d)
        # 6. TXT strings overrunning the record / the datagram / 4096
        for _ in range(60 if not big else 400):
            qn = r.choice([b'Pab.t.example.com', b'0.t.example.com'])
            strings = []
            for _k in range(r.choice([1, 1, 2, 3, 20])):
                sl = r.choice([0, 1, 5, 100, 252, 255])
                strings.append(bytes(r.randrange(256) for _ in range(sl)))
            rd = bytearray()
            for s in strings:
                rd.append(len(s))
                rd += s
            m = r.randrange(6)
            if m == 0 and rd:
                rd[0] = min(255, rd[0] + r.choice([1, 2, 50]))          # first string claims more
            elif m == 1:
                rd = rd[:max(1, len(rd) - r.choice([1, 2, 3]))]           # last string cut
            elif m == 2:
                rd += bytes([r.choice([1, 9, 255])])                     # dangling length byte at the very end
            elif m == 3:
                rd = bytearray(txt_chunks(bytes(4200), 255))             # more than 4096 bytes of strings
            d = answer(r.randrange(65536), T_TXT, qn, [rr(PTR_Q, T_TXT, bytes(rd))])
            self.add('txt-overrun', d)
            self.add('txt-overrun', put16(d, 12 + len(wname(qn)) + 4 + 10, len(rd) + r.choice([1, 2, 255])))
            self.add('txt-overrun', d[:len(d) - r.choice([1, 2, 5])], parent=d)
        # 7. MX / SRV: preferences 10..2500 and beyond, duplicates, gaps, 0..260 records, odd RDLENGTHs
        for qt in (T_MX, T_SRV):
            counts = [0, 1, 2, 3, 9, 10, 11, 249, 250, 251, 260] if big else [0, 1, 2, 3, 10, 11, 250, 251, 260]
            for cnt in counts:
                for mode in ('seq', 'dup', 'gap', 'odd', 'rev'):
                    rrs = []
                    for i in range(cnt):
                        if mode == 'seq':
                            pref = 10 * (i + 1)
                        elif mode == 'dup':
                            pref = 10 * (i // 2 + 1)
                        elif mode == 'gap':
                            pref = 10 * (i + 1 + (1 if i >= 2 else 0))
                        elif mode == 'odd':
                            pref = r.choice([0, 5, 9, 10, 11, 15, 2490, 2499, 2500, 2501, 2510, 65530, 65535])
                        else:
                            pref = 10 * (cnt - i)
                        nm = wname(b'h' + bytes(r.choice(b'abcz') for _ in range(r.choice([1, 3, 20]))) + b'.xy') \
                            if cnt < 200 else r.choice([b'\x01h\0', PTR_Q])
                        rd = b16(pref) + (b16(10) + b16(5060) if qt == T_SRV else b'') + nm
                        rdlen = None
                        if mode == 'odd' and r.randrange(3) == 0:
                            rdlen = r.choice([0, 1, 2, 3, len(rd) - 1, len(rd) + 1])
                        rrs.append(rr(PTR_Q, qt, rd, rdlen))
                    d = answer(r.randrange(65536), qt, b'Pq.t.example.com', rrs)
                    self.add('mx-srv', d)
                    if cnt and cnt < 200:
                        self.add('mx-srv', put16(d, 6, cnt + r.choice([1, 2, 100])))     # ancount beyond the records present
                        cutpos = len(d) - r.choice([1, 2, 3, 5, 9])
                        self.add('mx-srv', d[:cutpos], parent=d)
            # SRV record cut inside weight/port, MX answered with SRV records and vice versa
            base = hdr(5, 0x8400, 1, 1) + wname(b'Px.t.example.com') + b16(qt) + b16(1)
            for other in (T_MX, T_SRV, T_A, T_NULL):
                full = base + rr(PTR_Q, other, b16(10) + b16(1) + b16(2) + wname(b'hab.xy'))
                for cut in range(len(base), len(full) + 1):
                    self.add('mx-srv-cut', full[:cut], parent=full)
            # a last record whose RDATA is shorter than preference (+ weight, port) + name: RDLENGTH 0..8 with
            # exactly that many bytes present, or none; the parent has a complete record (same or other
            # preference) at that place
            pad = b16(10) + b16(5060) if qt == T_SRV else b''
            rec1 = rr(PTR_Q, qt, b16(10) + pad + wname(b'hfirst.xy'))
            for pref2 in (10, 20, 30):
                rd2 = b16(pref2) + pad + wname(b'hsecond.xy')
                par = answer(0x5150, qt, b'Pq.t.example.com', [rec1, rr(PTR_Q, qt, rd2)])
                for rdl in range(0, 10):
                    self.add('mx-srv-short-rdata', answer(0x5150, qt, b'Pq.t.example.com', [rec1, rr(PTR_Q, qt, rd2[:rdl], rdl)]), parent=par)
                    self.add('mx-srv-short-rdata', answer(0x5150, qt, b'Pq.t.example.com', [rec1, rr(PTR_Q, qt, b'', rdl)]), parent=par)
                    self.add('mx-srv-short-rdata', answer(0x5150, qt, b'Pq.t.example.com', [rec1, rr(PTR_Q, qt, rd2[:rdl], rdl)], an=3), parent=par)
        # 8. counts 0, 1, 0x7fff, 0x8000, 0xffff
        for qr in (0, 1):
            for qt in (T_NULL, T_MX, T_TXT, T_CNAME):
                base, _ = valid_answer(r, qt, 20) if qr else (query(77, qt, b'paaaq.t.example.com'), 0)
                for qd in (0, 1, 2, 0x7fff, 0x8000, 0xffff):
                    for an in (0, 1, 2, 0x7fff, 0x8000, 0xffff):
                        if not big and qt in (T_TXT, T_CNAME) and (qd, an) not in ((0, 1), (1, 0), (0x8000, 1), (1, 0x8000), (0xffff, 0xffff)):
                            continue
                        self.add('counts', put16(put16(base, 4, qd), 6, an))
        # 9. headers shorter than 12 and flag variations on short datagrams
        for l in range(0, 13):
            for fl in (0x0100, 0x8400, 0x8182, 0xffff):
                self.add('short-header', (hdr(0x5151, fl, 1, 1) + b'\x01P\0')[:l])
        for fl in range(0, 0x10000, 0x0111 if not big else 0x0037):
            self.add('flags', hdr(3, fl, 1, 1) + b'\x01P\0' + b16(T_NULL) + b16(1) + rr(PTR_Q, T_NULL, b'\x80\x01ab'))
        # 10. raw frames of every length 0..20 and long
        rh = bytes([0x10, 0xd1, 0x9e])
        for l in list(range(0, 21)) + [36, 100, 1000, 4000]:
            for cmd in (0x10, 0x20, 0x30, 0x00, 0xf0):
                for uid in (0, 1, 15):
                    if not big and uid == 1 and l > 5:
                        continue
                    full = rh + bytes([cmd | uid]) + bytes(r.randrange(256) for _ in range(max(0, l - 4)))
                    self.add('raw-frame', full[:l])
            self.add('raw-frame', (bytes([0x10, 0xd1, 0x9f]) + bytes(l))[:l])
        # 11. random bytes and random mutations of valid datagrams
        for _ in range(1500 if not big else 20000):
            l = r.choice([0, 1, 11, 12, 13, 14, 16, 17, 18, 20, 30, 60, 100, 300])
            d = bytearray(r.randrange(256) for _ in range(l))
            if l >= 6 and r.randrange(4):
                d[2] = r.choice([0x01, 0x84, 0x81, 0x00])
                d[4], d[5] = 0, r.choice([1, 1, 1, 0, 2])
                if l >= 8:
                    d[6], d[7] = 0, r.choice([1, 1, 0, 3])
            self.add('random', d)
        for _ in range(2500 if not big else 30000):
            if r.randrange(3) == 0:
                base = bytearray(query(r.randrange(65536), r.choice(QTYPES + [T_NS]), r.choice(
                    [b'paaaq.t.example.com', b'1abcdefgh.t.example.com', b'www.t.example.com', b'v' + b'a' * 40 + b'.x.org']), r.randrange(2) == 0))
            else:
                base = bytearray(valid_answer(r, r.choice(QTYPES), r.choice([2, 5, 30, 100, 250]))[0])
            orig = bytes(base)
            for _k in range(r.choice([1, 1, 2, 3, 6])):
                m = r.randrange(5)
                pos = r.randrange(12, len(base))
                if m == 0:
                    base[pos] = r.randrange(256)
                elif m == 1:
                    base[pos] = r.choice([0xc0, 0xc0, 0xff, 0x3f, 0x40, 0x80, 0, 1])
                elif m == 2 and pos + 1 < len(base):
                    t = r.choice([len(base) - 1, len(base), len(base) + 1, pos, pos - 1, 12, 0])
                    base[pos] = 0xc0 | ((t >> 8) & 0x3f)
                    base[pos + 1] = t & 255
                elif m == 3:
                    base = base[:pos + r.choice([0, 1, 2])]
                    if len(base) <= 12:
                        break
                else:
                    base[pos:pos] = bytes([r.choice([0xc0, 63, 200])])
            self.add('mutated', base, parent=orig if len(orig) > len(base) else None)
        return self.dgs


# ---- case lines -----------------------------------------------------------------------------------
def case_lines(dgs, parents, rng, tier):
    """rounds: every datagram once per residue, in a different order per round, so that the runs
    of one datagram have different predecessors (matters for residue -1 and for anything that
    survives on the stack between calls).  In the round with residue -1 (buffer left alone) a
    datagram derived from a longer one is received right after that parent, by the same decoder: the
    receive buffer then holds the rest of the parent -- 'long datagram, then its short/truncated copy'.
    Returns (cases, key per case)."""
    cases = []
    keys = []
    index = {d: i for i, (_, d) in enumerate(dgs)}
    order = list(range(len(dgs)))

    def emit(kind, buflen, res, i):
        if kind == 'Q':
            cases.append('Q %d %s' % (res, hexs(dgs[i][1])))
        else:
            cases.append('A %d %d %s' % (buflen, res, hexs(dgs[i][1])))
        keys.append((kind, buflen, i))
    for rd, res in enumerate(RESIDUES):
        if rd:
            rng.shuffle(order)
        for i in order:
            runs = [('Q', 0), ('A', 65536)]
            if res in (1, 4, -1):
                runs.append(('A', 4096))
            if res in (0, 3):
                runs.append(('A', 300))
            pi = index.get(parents.get(i)) if res == -1 else None
            for kind, buflen in runs:
                if pi is not None:
                    emit(kind, buflen, res, pi)
                emit(kind, buflen, res, i)
    return cases, keys


def shard_bounds(cases, shards=16):
    """the split vlib.parallel_run_cases makes (contiguous blocks), to know each case's predecessors"""
    n = len(cases)
    avg = sum(len(c) for c in cases[:50]) / max(1, min(n, 50))
    per = 200 if avg < 2000 else 4
    shards = max(1, min(shards, n // per + 1))
    return (n + shards - 1) // shards


HIST_CHUNK = 4


def run_chunked(exe, cases, work, tag):
    """histories in fixed chunks of HIST_CHUNK lines, one process per chunk, run concurrently; the split
    does not depend on line lengths, so that runs under different residues see the same sequence of
    histories per process.  Returns (rc, lines, err)."""
    from concurrent.futures import ThreadPoolExecutor
    chunks = [cases[i:i + HIST_CHUNK] for i in range(0, len(cases), HIST_CHUNK)]

    def one(ci):
        cp = os.path.join(work, '%s.%d.cases' % (tag, ci))
        with open(cp, 'w') as f:
            f.write('\n'.join(chunks[ci]) + '\n')
        rc, out, err = vlib.run_cases(exe, cp)
        if len(out) < len(chunks[ci]):
            out = out + ['<NO-OUTPUT>'] * (len(chunks[ci]) - len(out))
        return rc, out[:len(chunks[ci])], err
    with ThreadPoolExecutor(max_workers=16) as ex:
        res = list(ex.map(one, range(len(chunks))))
    rc = next((r for r, _, _ in res if r != 0), 0)
    return rc, [l for _, o, _ in res for l in o], ''.join(e for r, _, e in res if r != 0)[-3000:]


def find_repro(exe, cases, ia, ib, work):
    """smallest sequence of case lines, run in ONE process, in which case ia and case ib (same datagram,
    different residue / predecessor) print different results"""
    size = shard_bounds(cases)
    for back in (0, 1, 3, 10, None):
        seq = []
        marks = []
        for idx in (ia, ib):
            start = (idx // size) * size
            lo = start if back is None else max(start, idx - back)
            seq += cases[lo:idx + 1]
            marks.append(len(seq) - 1)
        if len(seq) > 6000:
            break
        cp = os.path.join(work, 'repro.cases')
        with open(cp, 'w') as f:
            f.write('\n'.join(seq) + '\n')
        rc, out, err = vlib.run_cases(exe, cp)
        if len(out) > max(marks) and out[marks[0]] != out[marks[1]]:
            return seq, marks, out[marks[0]], out[marks[1]]
    return None


def insert_c12_events(hist, rng, stats):
    """after a datagram event of a server history insert, from ANOTHER address, short datagrams
    derived from it: truncated copies, the D2 probe shape (name = pointer to the last byte) and a
    short raw frame -- the 'long datagram of client A, then short datagram' scenario"""
    evs = hist.split(' ; ')
    out = [evs[0]]
    for ev in evs[1:]:
        out.append(ev)
        t = ev.split(' ')
        if t[0] != 'X' or t[5] == '-' or rng.random() > 0.35:
            continue
        dg = bytes.fromhex(t[5])
        if len(dg) < 20:
            continue
        other = t[3] if rng.randrange(2) else '4:c6336455:%d' % rng.randrange(1024, 65000)
        k = rng.randrange(6)
        if k == 0:
            short = dg[:rng.randrange(12, len(dg))]
        elif k == 1:
            short = dg[:rng.choice([13, 14, 15, 16, 17, 18, 20, 30])]
        elif k == 2:
            L = rng.choice([18, 19, 24])
            short = dg[:2] + bytes([1, 0, 0, 1, 0, 0, 0, 0, 0, 0, 0xc0, L - 1]) + b16(rng.choice([10, 16, 5])) + b'\0' * (L - 17) + bytes([rng.choice([3, 9, 63])])
        elif k == 3:
            short = bytes([0x10, 0xd1, 0x9e, rng.choice([0x10, 0x20, 0x30]) | rng.randrange(16)]) + dg[:rng.choice([0, 1, 10, 15])]
        elif k == 4:
            # question name cut inside a label, type/class bytes present in the residue only
            short = dg[:12] + dg[12:12 + rng.randrange(1, min(40, len(dg) - 12))]
        else:
            short = dg[:len(dg) - rng.choice([1, 2, 3, 4, 5, 11, 12])]
        out.append('X %s %d %s %s %s' % (t[1], rng.randrange(1 << 31), other, t[4], hexs(short)))
        stats['c12_short_after_long'] = stats.get('c12_short_after_long', 0) + 1
    return ' ; '.join(out)


def insert_c12_client_events(hist, rng, stats):
    """client histories: after a raw datagram event insert truncated / header-only copies"""
    evs = hist.split(' ; ')
    out = [evs[0]]
    for ev in evs[1:]:
        out.append(ev)
        t = ev.split(' ')
        if t[0] != 'D' or t[2] == '-' or rng.random() > 0.5:
            continue
        dg = bytes.fromhex(t[2])
        if len(dg) < 5:
            continue
        short = dg[:rng.choice([1, 2, 3, 3, 4, 5, 11, 12, 13, 16, 20, max(1, len(dg) - 1), max(1, len(dg) - 3)])]
        out.append('D %d %s' % (int(t[1]) + rng.choice([0, 1]), hexs(short)))
        stats['c12_short_after_long'] = stats.get('c12_short_after_long', 0) + 1
    return ' ; '.join(out)


def crafted_server_histories(seed, n):
    """version, login, raw login; then raw ping / raw data / DNS ping each followed -- from the SAME
    address -- by cut copies of itself (raw frames cut to 0..5 bytes: a 3-byte frame is the raw magic
    alone, command/user byte and payload only in the residue)"""
    rng = vlib.rng_for(seed, 'c12-srv-crafted')
    out = []
    for _ in range(n):
        g = srvlib.HistGen(rng, adversarial=0)
        s = srvlib.Session(g, (4, bytes([192, 0, 2, 10]), 4000))
        g.sessions = [s]
        g.version(s)
        g.tick()
        g.login(s)
        g.tick()
        uid = s.uid if s.uid is not None else 0
        rh = bytes([0x10, 0xd1, 0x9e])
        if rng.randrange(4):
            g.emit_dgram(s.addr, rh + bytes([0x10 | uid]) + srvlib.login_stub(g.password, (s.seed + 1) & 0xffffffff))
            g.tick()
        for _k in range(rng.choice([3, 5, 8])):
            k = rng.randrange(4)
            if k == 0:
                full = rh + bytes([0x30 | uid])
            elif k == 1:
                ip = bytearray(rng.randrange(256) for _ in range(rng.choice([24, 40, 40, 1, 10, 20, 23])))
                dst = rng.choice(g.tun_ips[:3] + [0x08080808])
                if len(ip) >= 24:
                    ip[20:24] = bytes([(dst >> 24) & 255, (dst >> 16) & 255, (dst >> 8) & 255, dst & 255])
                full = rh + bytes([0x20 | uid]) + bytes([0x5A]) + bytes(ip)
            elif k == 2:
                full = rh + bytes([0x10 | uid]) + srvlib.login_stub(g.password, (s.seed + 1) & 0xffffffff)
            else:
                g.ping(s)
                full = bytes.fromhex(g.events[-1].split(' ')[5])
                g.events.pop()
            g.emit_dgram(s.addr, full)
            g.tick()
            cuts = [0, 1, 2, 3, 4, 5, 12, 13, 19, 20, len(full) - 1, len(full) - 2] if k != 3 else \
                [12, 13, 14, 17, 20, len(full) - 1, len(full) - 4, len(full) - 5, len(full) - 12, len(full) - 15]
            for c in rng.sample(cuts, 4):
                if 0 <= c < len(full):
                    g.emit_dgram(s.addr, full[:c])
                    g.tick()
        # a packet with a destination, then packets too short to have one (upstream through this session, and on the tun device):
        # what the longer packet left in the uncompress / read buffers must not route the short ones
        own = g.tun_ips[uid] if uid < len(g.tun_ips) else g.tun_ips[0]
        for short_n in rng.sample([1, 4, 10, 19, 20, 23], 3):
            ip = bytearray(rng.randrange(256) for _ in range(40))
            ip[20:24] = own.to_bytes(4, 'big')
            g.emit_dgram(s.addr, rh + bytes([0x20 | uid]) + bytes([0x5A]) + bytes(ip))
            g.emit_dgram(s.addr, rh + bytes([0x20 | uid]) + bytes([0x5A]) + bytes(rng.randrange(256) for _ in range(short_n)))
            g.tun(dst_ip=own, n=60)
            g.tun(n=short_n)
            g.tick()
        out.append('H ' + g.cfg() + ' ; ' + ' ; '.join(g.events))
    return out


def crafted_client_histories(seed, n):
    """raw-mode client: raw data / ping frames for this user, each followed a second later by copies cut
    to 0..5 bytes"""
    rng = vlib.rng_for(seed, 'c12-cli-crafted')
    out = []
    for _ in range(n):
        g = clilib.CliGen(rng)
        g.dns = 0
        rh = bytes([0x10, 0xd1, 0x9e])
        for _k in range(rng.choice([3, 6])):
            if rng.randrange(2):
                full = rh + bytes([0x20 | g.uid]) + bytes([0x5A]) + bytes(rng.randrange(256) for _ in range(rng.choice([1, 20, 60])))
            else:
                full = rh + bytes([0x30 | g.uid])
            g.now += rng.choice([0, 1, 2])
            g.events.append('D %d %s' % (g.now, full.hex()))
            for c in rng.sample([0, 1, 2, 3, 4, 5, len(full) - 1], 3):
                if 0 <= c < len(full):
                    g.now += rng.choice([1, 2, 5])
                    g.events.append('D %d %s' % (g.now, hexs(full[:c])))
            if rng.randrange(3) == 0:
                g.tun()
        out.append(g.head() + ' ; ' + ' ; '.join(g.events))
    return out


def run_histories(rep, ctx, which, exe, model, hists, tag):
    """same history under several residues on the real code: identical output; and equal to the model"""
    # one batch per residue, each a fresh set of processes with the same sharding: the dispatchers keep
    # static state across histories (the rotating ".xy" suffix of write_dns_nameenc, data-CMC of
    # send_chunk), which must evolve identically in the runs that are compared
    impls = []
    nev = sum(h.count(' ; ') for h in hists)
    size = HIST_CHUNK
    for res in HIST_RESIDUES:
        cases = ['R %d %s' % (res, h) for h in hists]
        rc, out, err = run_chunked(exe, cases, ctx.work, '%s-impl%d' % (tag, res))
        if rc != 0:
            idx = next((i for i, l in enumerate(out) if l == '<NO-OUTPUT>'), None)
            rep.add_violation('%s-history:crash' % which, 'real %s dispatcher crashed / exited with %d: %s' % (which, rc, err[-300:]),
                              dict(kind='input', driver=tag, cases=[c[:400000] for c in cases[:idx + 1]] if idx is not None else None,
                                   compare=[idx] if idx is not None else None, observed=err[-2000:]))
            return 0
        impls.append(out)
    impl = impls[0]
    for j in range(1, len(HIST_RESIDUES)):
        for hi, h in enumerate(hists):
            if impls[j][hi] != impl[hi]:
                a = impl[hi].split(' ; ')
                b = impls[j][hi].split(' ; ')
                e = next((x for x in range(min(len(a), len(b))) if a[x] != b[x]), min(len(a), len(b)))
                evs = h.split(' ; ')
                # replay: the histories of this shard up to the failing one, under both residues (two processes
                # are emulated by the static state being equal at the start of each batch: run batch A then batch B
                # would differ; the replay therefore names the two case files)
                rep.add_violation('%s-history:residue-dependent' % which,
                                  'the real %s reacts differently to event %d (%s) of a history when the receive buffer beyond the '
                                  'datagram holds residue %d instead of %d: %r vs %r' % (
                                      which, e, evs[e + 1][:120] if e + 1 < len(evs) else '?', HIST_RESIDUES[j], HIST_RESIDUES[0],
                                      (b[e] if e < len(b) else '')[:200], (a[e] if e < len(a) else '')[:200]),
                                  dict(kind='input', driver=tag, history_batches=[
                                      ['R %d %s' % (HIST_RESIDUES[0], x[:400000]) for x in hists[(hi // size) * size:hi + 1]],
                                      ['R %d %s' % (HIST_RESIDUES[j], x[:400000]) for x in hists[(hi // size) * size:hi + 1]]], event=e,
                                       expected='identical outputs for both residues'))
                return nev
    if model:
        rc, mod, err = run_chunked(model, hists, ctx.work, tag + '-model')
        for hi, h in enumerate(hists):
            if hi < len(mod) and mod[hi] != impl[hi]:
                a = impl[hi].split(' ; ')
                b = mod[hi].split(' ; ')
                e = next((x for x in range(min(len(a), len(b))) if a[x] != b[x]), min(len(a), len(b)))
                evs = h.split(' ; ')
                txt = 'model and real %s disagree at event %d (%s) of history %r...: impl=%r model=%r' % (
                    which, e, evs[e + 1][:160] if e + 1 < len(evs) else '?', h[:100],
                    (a[e] if e < len(a) else '')[:200], (b[e] if e < len(b) else '')[:200])
                ctx.broken.append(('correspondence:%s-history' % which, txt))
                if not rep.violations:
                    # a concrete history on which the real dispatcher leaves the validated model
                    rep.add_violation('correspondence:%s-history' % which, txt,
                                      dict(kind='input', driver=tag, event=e, history_batches=[
                                          ['R %d %s' % (HIST_RESIDUES[0], x[:400000]) for x in hists[(hi // size) * size:hi + 1]]],
                                           expected='implementation output equals the model output'), concrete=True)
                break
    return nev


def forwarder_stage(rep, ctx):
    """replies of the local DNS server on the forwarding socket (-b): tunnel_bind() reads the id from the reply.  Pairs of
    histories with the same forwarded queries (so the same forwarding state) that differ only in WHICH full reply precedes a
    short one (0, 1 bytes; 2 bytes = an id nobody asked with): the short reply must have the same effect in both -- it is read
    from its own bytes only.  Real forward_query / tunnel_bind of iodined.c (harness/h_c20.c)."""
    if 'fwd' not in ctx.exe:
        return
    import c20, struct
    rng = vlib.rng_for(rep.seed, 'c12-forwarder')
    n = 120 if rep.tier == 'quick' else 1200
    lines, pairs = [], []
    for it in range(n):
        top = b't.example'
        hi = rng.randrange(1, 256)
        lo1, lo2 = rng.sample(range(256), 2)
        ids = [(hi << 8) | lo1, (hi << 8) | lo2]
        qs = []
        for j, qid in enumerate(ids):
            name = b'www%d.other.org' % j
            pkt = c20.build_query(qid, name, 1, rng, edns=0, flags=0x0100)
            qs.append('Q,%d,%d,%s,1,%d,1,%s' % (3 + j, 4000 + j, pkt.hex(), qid, name.hex()))
        def full(rid):
            return struct.pack('>HHHHHH', rid, 0x8180, 1, 0, 0, 0) + b'\x03www\x05other\x03org\x00' + struct.pack('>HH', 1, 1)
        short = rng.choice([bytes([hi]), b'', bytes([hi]), struct.pack('>H', (hi << 8) | lo1)[:1]])
        for first in ids:
            steps = qs + ['R,%s' % full(first).hex(), 'R,%s' % (short.hex() if short else '-')]
            lines.append('NET 5353 %s %s' % (top.hex(), ';'.join(steps)))
        pairs.append((len(lines) - 2, len(lines) - 1, short))
    rc, out, err = vlib.parallel_run_cases(ctx.exe['fwd'], lines, ctx.work, 'fwd-residue')
    if rc != 0:
        ctx.broken.append(('impl-crash', 'forwarder harness exited with %d: %s' % (rc, err[-300:])))
    okc = 0
    for a, b, short in pairs:
        ra, rb = out[a].split(';'), out[b].split(';')
        if len(ra) < 4 or len(rb) < 4 or ra[-1] != rb[-1]:
            rep.add_violation('forwarder:residue-dependent', 'tunnel_bind(): a %d-byte reply on the forwarding socket has a different effect depending on which '
                              'full reply came before it (same forwarded queries in both histories): %r vs %r' % (len(short), ra[-1][:120], rb[-1][:120]),
                              dict(kind='history', driver='fwd', case=lines[a], case2=lines[b], observed=out[a][-300:], expected=out[b][-300:]))
            break
        okc += 1
    rep.cov['forwarder_pairs'] = dict(pairs=len(pairs), same_effect=okc)
    rep.cov['evaluations'] = rep.cov.get('evaluations', 0) + 2 * len(pairs)
    rep.cov['rule'] += ('. Forwarder stage: %d pairs of histories through the real forward_query / tunnel_bind: two forwarded queries whose ids '
                        'share the high byte, then a full reply to one or to the other, then a reply of 0 or 1 bytes: its effect must not '
                        'depend on which full reply preceded it' % len(pairs))


def check(rep):
    import c20
    import srvlib, fwdlib
    ctx = vlib.prepare(rep, harnesses={'wire': WIRE, 'c12srv': SRV12, 'c12cli': CLI12, 'fwd': c20.harness_spec()['srv'], 'srv': srvlib.SRV},
                       sanitize=(rep.tier == 'thorough'), model='WIRE')
    g = Gen(rep.seed, rep.tier)
    # corpus first
    cp = os.path.join(vlib.VERIF, 'corpus', 'C12')
    ncorpus = 0
    if os.path.isdir(cp):
        for fn in sorted(os.listdir(cp)):
            for l in open(os.path.join(cp, fn)):
                l = l.strip()
                if l and not l.startswith('#'):
                    g.add('corpus', bytes.fromhex(l.split()[-1]) if l.split()[-1] != '-' else b'')
                    ncorpus += 1
    dgs = g.run()
    rng = vlib.rng_for(rep.seed, 'c12-order')
    cases, keys = case_lines(dgs, g.parent, rng, rep.tier)
    rep.cov['rule'] = ('corpus first; generated datagrams by class (see input_distribution): valid queries/answers of all 7 types '
                       'truncated at every length; labels ending at len-2..len+5 incl. length bytes 0x40..0xBF; compression pointers to '
                       'len-2..len+2, 0..12, forward/self, chains and loops of depth 1..12, cut pointers; RDLENGTH = remaining-1/remaining/'
                       'remaining+1/0/0xffff/4096/4097; TXT strings overrunning; MX/SRV with 0..260 records, preferences 0..65535, '
                       'duplicates/gaps/reversed; qdcount/ancount in {0,1,2,0x7fff,0x8000,0xffff}; headers of 0..12 bytes; flag words; raw '
                       'frames of length 0..20, 36, 100, 1000, 4000; random bytes; random mutations.  Every datagram: real read_dns (Q) and '
                       'real read_dns_withq (A, buffers 65536/4096/300) under residues 0,1,2,3,4 and -1 (buffer left alone), one round per '
                       'residue in a different order, in round -1 every derived datagram right after its longer parent; oracle: all runs of a datagram print the same result; correspondence: equals the '
                       'extracted model.  Histories: srvlib/clilib histories + short datagrams derived from the preceding long one, under '
                       'residues -1,0,3,4.  distinct_nontrivial = distinct datagrams of >= 12 bytes')
    rep.cov['input_distribution'] = dict(g.stats)
    rep.cov['residues'] = RESIDUES
    rep.cov['datagrams'] = len(dgs)
    rep.cov['distinct_nontrivial'] = len([1 for _, d in dgs if len(d) >= 12])
    rep.cov['samples'] = [cases[0][:200], cases[len(cases) // 3][:200], cases[-1][:200]]
    evaluations = 0
    impl = None
    if 'wire' in ctx.exe:
        rc, impl, err = vlib.parallel_run_cases(ctx.exe['wire'], cases, ctx.work, 'impl')
        evaluations += len(cases)
        if rc != 0:
            idx = next((i for i, l in enumerate(impl) if l == '<NO-OUTPUT>'), None)
            rep.add_violation('decode:crash', 'real decoder crashed / exited with %d: %s' % (rc, err[-300:]),
                              dict(kind='input', driver='wire', cases=[cases[idx][:100000]] if idx is not None else None, observed=err[-2000:]))
        first = {}
        groups_by_result = {}
        bad = None
        for i, (k, o) in enumerate(zip(keys, impl)):
            if 'GUARD-VIOLATED' in o:
                rep.add_violation('decode:guard', 'client wrote past its buffer', dict(kind='input', driver='wire', cases=[cases[i][:100000]], observed=o))
                break
            j = first.setdefault(k, i)
            if impl[j] != o and bad is None:
                bad = (j, i)
        if bad is not None and not rep.violations:
            j, i = bad
            kind, buflen, di = keys[i]
            cls, d = dgs[di]
            rp = find_repro(ctx.exe['wire'], cases, j, i, ctx.work)
            side = 'server read_dns' if kind == 'Q' else 'client read_dns_withq (buffer %d)' % buflen
            what = ('%s interprets the %d-byte datagram %s (class %s) differently depending on what the receive buffer / stack holds '
                    'beyond it: %r for %r but %r for %r' % (side, len(d), d.hex()[:160], cls, impl[j][:160], cases[j][:24], impl[i][:160], cases[i][:24]))
            rep.add_violation('decode:%s:%s' % (kind, cls), what,
                              dict(kind='input', driver='wire', cases=[c[:100000] for c in (rp[0] if rp else [cases[j], cases[i]])],
                                   compare=list(rp[1]) if rp else [0, 1], datagram=d.hex(), observed=[impl[j][:2000], impl[i][:2000]],
                                   reproduced_in_isolation=bool(rp), expected='identical results'))
        rep.cov['result_classes'] = len(set(impl))
    # correspondence with the model on one case per (decoder, buffer size, datagram)
    if ctx.model and impl is not None:
        idxs = sorted(set(first.values()))
        mcases = [cases[i] for i in idxs]
        rc, mod, err = vlib.parallel_run_cases(ctx.model, mcases, ctx.work, 'model')
        evaluations += len(mcases)
        ok = 0
        for i, m in zip(idxs, mod):
            if impl[i] != m:
                kind, buflen, di = keys[i]
                cls, d = dgs[di]
                txt = ('model and implementation disagree on the %d-byte datagram %s (class %s), case %r: impl=%r model=%r' % (
                    len(d), d.hex()[:200], cls, cases[i][:40], impl[i][-200:], m[-200:]))
                ctx.broken.append(('correspondence:%s:%s' % (kind, cls), txt))
                if not rep.violations:
                    # a concrete datagram on which the real code leaves the validated model: recorded with its replay
                    rep.add_violation('correspondence:%s:%s' % (kind, cls), txt,
                                      dict(kind='input', driver='wire', cases=[cases[i][:100000]], datagram=d.hex(), observed=[impl[i][:2000]],
                                           model=m[:2000], expected='implementation result equals the model result'), concrete=True)
                break
            ok += 1
        rep.cov['traces_validated_against_impl'] = ok
    # sanitizer pass (thorough)
    if 'wire' in ctx.san:
        sub = cases[::7]
        rc, sl, err = vlib.parallel_run_cases(ctx.san['wire'], sub, ctx.work, 'san')
        rep.cov['sanitizer_cases'] = len(sub)
        evaluations += len(sub)
        if rc != 0:
            idx = next((i for i, l in enumerate(sl) if l == '<NO-OUTPUT>'), None)
            rep.add_violation('sanitizer', 'ASan/UBSan report: ' + err[-400:],
                              dict(kind='input', driver='wire.san', cases=[sub[idx][:100000]] if idx is not None else None, observed=err[-2000:]))
    # end-to-end histories
    nh = (24, 40, 12) if rep.tier == 'quick' else (300, 60, 100)
    hstats = {}
    if 'c12srv' in ctx.exe:
        mok, msrv, lg = vlib.build_model_driver('SRV')
        if not mok:
            ctx.broken.append(('extraction:SRV', 'server model driver build failed: ' + lg[-300:]))
        hs, st = srvlib.gen_histories(rep.seed, nh[0], nh[1], tag='c12-srv')
        hr = vlib.rng_for(rep.seed, 'c12-srv-ins')
        hs = [insert_c12_events(h, hr, st) for h in hs] + crafted_server_histories(rep.seed, nh[2])
        st['c12_crafted_histories'] = nh[2]
        hstats['server'] = st
        nev = run_histories(rep, ctx, 'server', ctx.exe['c12srv'], msrv if mok else None, hs, 'c12srv')
        rep.cov['server_history_events'] = nev
        evaluations += nev * len(HIST_RESIDUES)
    if 'c12cli' in ctx.exe:
        mok, mcli, lg = vlib.build_model_driver('CLI')
        if not mok:
            ctx.broken.append(('extraction:CLI', 'client model driver build failed: ' + lg[-300:]))
        hs, st = clilib.gen_histories(rep.seed, nh[0], nh[1], tag='c12-cli')
        hr = vlib.rng_for(rep.seed, 'c12-cli-ins')
        hs = [insert_c12_client_events(h, hr, st) for h in hs] + crafted_client_histories(rep.seed, nh[2])
        st['c12_crafted_histories'] = nh[2]
        hstats['client'] = st
        nev = run_histories(rep, ctx, 'client', ctx.exe['c12cli'], mcli if mok else None, hs, 'c12cli')
        rep.cov['client_history_events'] = nev
        evaluations += nev * len(HIST_RESIDUES)
    rep.cov['history_distribution'] = hstats
    rep.cov['evaluations'] = evaluations
    forwarder_stage(rep, ctx)
    # what is forwarded to another client is what the sender sent: nothing that an earlier packet left in a session's reassembly buffer
    # (DNS-mode and raw-mode senders, recipient busy: the out-queue path; slot re-use).  The stage is shared with C01.
    fwdlib.stage(rep, ctx, key='forwarded')
    if not rep.violations:
        ctx.report_broken()
    return rep


def replay(rp):
    rep = vlib.Report('C12', 'quick', rp.get('seed', 1))
    drv = rp.get('driver', 'wire').replace('.san', '')
    spec = {'wire': WIRE, 'c12srv': SRV12, 'c12cli': CLI12}[drv]
    ctx = vlib.prepare(rep, harnesses={drv: spec}, sanitize=False, prove_it=False,
                       model={'wire': 'WIRE', 'c12srv': 'SRV', 'c12cli': 'CLI'}[drv])
    if rp.get('history_batches'):
        # each batch in its own process (static dispatcher state starts equal); compare the last history
        outs = []
        for bi, batch in enumerate(rp['history_batches']):
            cp = os.path.join(ctx.work, 'replay%d.cases' % bi)
            open(cp, 'w').write('\n'.join(batch) + '\n')
            rc, impl, err = vlib.run_cases(ctx.exe[drv], cp)
            outs.append(impl[-1] if impl and rc == 0 else 'CRASH ' + err[-300:])
            print('batch %d (%s...): %d histories' % (bi, batch[-1][:12], len(batch)))
        if len(outs) == 1:
            # one batch: compare with the model (which takes the histories without the residue prefix)
            cp = os.path.join(ctx.work, 'replay-model.cases')
            open(cp, 'w').write('\n'.join(c[c.index(' ', 2) + 1:] for c in rp['history_batches'][0]) + '\n')
            rc, mod, err = vlib.run_cases(ctx.model, cp) if ctx.model else (1, [], 'no model')
            outs.append(mod[-1] if mod else 'NO-MODEL-OUTPUT ' + err[-300:])
        a = outs[0].split(' ; ')
        b = outs[1].split(' ; ')
        e = next((x for x in range(min(len(a), len(b))) if a[x] != b[x]), None)
        if e is None and len(a) == len(b):
            print('oracle: ok (identical outputs)')
            return 0
        print('event %s: %r vs %r' % (e, (a[e] if e is not None else '')[:300], (b[e] if e is not None else '')[:300]))
        print('oracle: outputs differ (%s)' % ('implementation vs model' if len(rp['history_batches']) == 1 else 'they depend on the residue'))
        return 1
    cs = rp.get('cases')
    if not cs:
        print('replay names a broken obligation, not an input:', rp.get('broken'))
        return 1
    cp = os.path.join(ctx.work, 'replay.cases')
    open(cp, 'w').write('\n'.join(cs) + '\n')
    rc, impl, err = vlib.run_cases(ctx.exe[drv], cp)
    cmp = rp.get('compare') or ([0, 1] if len(cs) > 1 else [0])
    for i in cmp:
        print('case :', cs[i][:200])
        print('impl :', impl[i][-400:] if i < len(impl) else err)
    bad = rc != 0 or (len(cmp) == 2 and (max(cmp) >= len(impl) or impl[cmp[0]] != impl[cmp[1]]))
    if ctx.model and drv == 'wire':
        rc2, mod, err2 = vlib.run_cases(ctx.model, cp)
        for i in cmp:
            print('model:', mod[i][-400:] if i < len(mod) else err2)
            if i < len(mod) and i < len(impl) and mod[i] != impl[i]:
                bad = True
    print('oracle:', 'results differ (residue / predecessor dependent, or not the model result)' if bad else 'ok')
    return 1 if bad else 0
