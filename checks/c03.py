"""C03 -- no tunnel access without answering the password challenge.
Proof: coq/Properties_C03.v over the validated dispatcher model (Server.v).  Correspondence: the
real iodined.c dispatcher and the extracted model run the same histories (corpus, targeted
scenarios, srvlib's generic traffic) and must agree event by event on datagrams, tun writes and the
per-session state digest.  Oracle on the implementation's output, independent of the model: a
monitor that learns each slot's challenge from the VACK answers, knows from the inputs which
challenges were answered with login(password, seed), and flags any privileged effect on behalf of a
session that has not: an authenticated / authenticated_raw flag, a tun write, an I reply, a change of
codec / downstream codec / lazy / fragsize / options lock, a switch to raw mode, a datagram to or a
change of the outgoing packet of another session."""
import vlib
import authlib
from authlib import parse_history, parse_event_out, split_events, classify, vacks, login_stub

OPTION_KINDS = ('S', 'O', 'N')


def monitor(case, out, cnt):
    cfg, evs = parse_history(case)
    outs = split_events(out)
    pw = cfg.password
    slots = {}      # uid -> dict(seed, ans, raw)
    prev = {}

    def bump(k, n=1):
        cnt[k] = cnt.get(k, 0) + n

    for k, ev in enumerate(evs):
        if k >= len(outs):
            return ('output-missing', 'no output for event %d' % k, k)
        o = parse_event_out(outs[k])
        if o is None:
            return ('output-unparsable', 'unparsable output for event %d: %r' % (k, outs[k][:100]), k)
        dig = o['dig']
        bump('events')
        cl = classify(ev['dg'], cfg.domain) if ev['kind'] == 'X' else None
        uid = cl['uid'] if cl else None
        if cl:
            bump('kind_' + cl['kind'])
        # what this event proves about knowledge of the password
        hash_ok = False
        if cl and cl['kind'] == 'L' and uid in slots:
            un = cl['unpacked']
            if len(un) >= 18 and un[1:17] == login_stub(pw, slots[uid]['seed']):
                slots[uid]['ans'] = True
                hash_ok = True
                bump('correct_logins')
            else:
                bump('wrong_logins')
        if cl and cl['kind'] == 'raw_login' and uid in slots and len(cl['payload']) >= 16:
            if slots[uid]['ans'] and cl['payload'][:16] == login_stub(pw, (slots[uid]['seed'] + 1) & 0xffffffff):
                slots[uid]['raw'] = True
                hash_ok = True
                bump('correct_raw_logins')
            else:
                bump('wrong_or_premature_raw_logins')
        vk = vacks(o)
        for (vu, seed) in vk:
            slots[vu] = dict(seed=seed, ans=False, raw=False)
            bump('vacks')
        vset = set(v for v, _ in vk)
        acting_ok = uid in slots and slots[uid]['ans'] if uid is not None else False

        # 1. flags
        for i, f in dig.items():
            if i not in slots or str(slots[i]['seed']) != f.get('S'):
                return ('seed-without-vack', 'slot %d holds challenge %s that no VACK announced' % (i, f.get('S')), k)
            a = f.get('A', '0000')
            if a[0] == '1' and not slots[i]['ans']:
                return ('auth-without-login', 'slot %d is authenticated but its current challenge (seed %d) was never answered correctly'
                        % (i, slots[i]['seed']), k)
            if a[1] == '1' and not slots[i]['raw']:
                return ('authraw-without-raw-login', 'slot %d is authenticated_raw without a correct raw login after a DNS login' % i, k)
        # 2. tun writes
        if o['tuns']:
            bump('tun_writes', len(o['tuns']))
            ok = cl is not None and cl['kind'] in ('D', 'raw_data') and acting_ok and (cl['kind'] == 'D' or slots[uid]['raw'])
            if not ok:
                return ('tun-write-unauthorized', 'a packet was written to the tun device by an event (%s, userid %r) whose session is not logged in'
                        % (cl['kind'] if cl else ev['kind'], uid), k)
        # 3. options, conn
        for i, f in dig.items():
            p = prev.get(i)
            if p is None or i in vset:
                continue
            changed = [x for x in 'EDF' if f.get(x) != p.get(x)]
            if f.get('C', 'xx')[1:] != p.get('C', 'xx')[1:]:
                changed.append('lazy')
            if f.get('A', '0000')[2] != p.get('A', '0000')[2]:
                changed.append('locked')
            if changed:
                bump('option_changes')
                if not (cl and cl['kind'] in OPTION_KINDS and uid == i and acting_ok):
                    return ('option-change-unauthorized', 'fields %s of slot %d changed in an event (%s, userid %r) that is not an option '
                            'command of that logged-in session' % (','.join(changed), i, cl['kind'] if cl else ev['kind'], uid), k)
            if p.get('C', 'xx')[0] == '1' and f.get('C', 'xx')[0] == '0':
                bump('raw_switches')
                if not (cl and cl['kind'] == 'raw_login' and uid == i and hash_ok):
                    return ('raw-switch-unauthorized', 'slot %d switched to raw mode without a correct raw login of a logged-in session' % i, k)
        if ev['kind'] == 'X':
            src = ev['src']
            # 4. the I reply
            if cl and cl['kind'] == 'I':
                for s in o['sends']:
                    if s['rv'] in (5, 17) and s['dec'] and s['dec'].startswith('49'):
                        bump('i_replies')
                        if not acting_ok:
                            return ('address-disclosed', 'the I request naming userid %r got the address although that session is not logged in' % uid, k)
            # 5. forwarding: datagrams to someone else, other sessions' outgoing packets
            elsewhere = [s for s in o['sends'] if (s['fam'], s['ip']) != (src[0], src[1])
                         and not (cl and cl['kind'] in ('infra', 'unparsed') and s['ip'] == '7f000001')]   # forward_query to the local DNS server
            touched = [i for i, f in dig.items() if i != uid and i in prev and i not in vset and
                       (f.get('O') != prev[i].get('O') or f.get('U') != prev[i].get('U'))]
            if elsewhere or touched:
                bump('forwards')
                if not acting_ok:
                    return ('forward-unauthorized', 'event (%s, userid %r) of a session that is not logged in sent a datagram to another '
                            'address or changed the outgoing packet of slot %r' % (cl['kind'] if cl else '?', uid, touched), k)
            if cl and cl['kind'] == 'unparsed':
                bump('unparsed')
        prev = dig
    return None


def check(rep):
    rep.cov['rule'] = ('corpus (corpus/C03, corpus/SRV) first; targeted histories (replayed logins after re-allocation at 59/60/61/62/120 s, '
                       'raw login/data/ping before the DNS login, option/I/R/N/ping/data commands before login and after a failed login, '
                       'userids 16..255 / negative / unallocated, 19 sessions for <= 16 slots), then srvlib.gen_histories traffic; '
                       'every history through the real dispatcher, monitor on its output; model/implementation diff per event on '
                       'the corpus and a quarter of the rest (quick) or all (thorough). evaluations = events monitored')
    return authlib.run_check(rep, 'C03', monitor, authlib.AuthGen.SCENARIOS_C03, ('c03-gen', 'c03-tgt'),
                             extra_harnesses={'srvreal': SRV_REALLOGIN, 'login': LOGIN_FN}, extra_stage=real_login_stage)


# ---------------------------------------------------------------------------------------------------------------------
# Real-login stage.  The histories above run with login_calculate() replaced (the model needs an oracle for it); "answering
# the challenge" then means answering the stand-in.  Here the same server harness is linked with the REAL login_calculate of
# src/login.c, and the monitor judges logins by the formula of the protocol document (hashlib MD5, never the code): for every
# one of the 31 bits a challenge can differ in, a session logs in correctly, falls silent, the slot is re-claimed by somebody
# else with a challenge that differs in exactly that bit, and the old login is replayed byte for byte -- it must be refused
# and nothing privileged may follow (same monitor as above).  The login the first session sends is what login_calculate()
# of the same tree computes (a real client), so a login function that client and server share but that is not the
# documented one shows as a login accepted without the documented answer.  No model comparison here (the model's login is the stand-in).
import srvlib
SRV_REALLOGIN = dict(srvlib.SRV)
SRV_REALLOGIN['wraps'] = [w for w in srvlib.SRV['wraps'] if w != 'login_calculate']
# what a real client answers: login_calculate() of the same tree (harness/h_c19.c, case L)
LOGIN_FN = dict(harness=['hmain.c', 'h_c19.c'], repo=vlib.PURE_SRCS, wraps=['time', 'md5_append'])
A_INV = pow(1103515245, -1, 1 << 64)


def seed_for_challenge(c, rng):
    """a value for the harness' rand() state such that the next rand() returns c (0 <= c < 2^31)"""
    x = (rng.randrange(1 << 17) << 47) | (c << 16) | rng.randrange(1 << 16)
    return ((x - 12345) * A_INV) % (1 << 64)


def real_login_stage(rep, ctx):
    global login_stub
    if 'srvreal' not in ctx.exe:
        return
    import hashlib
    from srvlib import qname, enc, b32c

    def doc_login(pw, seed):
        p32 = (bytes(pw) + bytes(32))[:32]
        chal = (seed % (1 << 32)).to_bytes(4, 'big') * 8
        return hashlib.md5(bytes(a ^ b for a, b in zip(p32, chal))).digest()

    rng = vlib.rng_for(rep.seed, 'c03-real')
    hs = []
    plan = []
    for bit in range(31):
        for variant in range(1 if rep.tier == 'quick' else 6):
            pw = bytes(rng.randrange(1, 256) for _ in range(rng.choice([3, 8, 32]))) if rng.randrange(3) else b'secret'
            c1 = rng.randrange(1 << 31)
            plan.append((bit, variant, pw, c1, c1 ^ (1 << bit)))
    # the logins a real client of this tree sends for the first challenge and for the second
    client = {}
    if 'login' in ctx.exe:
        ll = []
        for bit, variant, pw, c1, c2 in plan:
            ll += ['L 16 %s %d' % (vlib.hexs(pw), c1), 'L 16 %s %d' % (vlib.hexs(pw), c2)]
        rc0, lo, err0 = vlib.parallel_run_cases(ctx.exe['login'], ll, ctx.work, 'clientlogin')
        for l, o in zip(ll, lo):
            t = l.split(' ')
            try:
                client[(t[2], int(t[3]))] = bytes.fromhex(o.split(' ')[0])
            except ValueError:
                pass
    for bit, variant, pw, c1, c2 in plan:
        for _ in (0,):
            g = srvlib.HistGen(rng, adversarial=0.0)
            g.no_case_relay = True
            g.check_ip = 1
            g.set_net('10.0.0.1', 27)
            g.password = pw
            real1 = client.get((vlib.hexs(pw), c1), doc_login(pw, c1))
            real2 = client.get((vlib.hexs(pw), c2), doc_login(pw, c2))
            a = srvlib.Session(g, (4, bytes([192, 0, 2, 10]), 4010))
            m = srvlib.Session(g, (4, bytes([198, 51, 100, 7]), 4011))

            def version(s, chal):
                s.rs = (s.rs + 1) & 0xffff
                data = bytes([0, 0, 5, 2, s.rs >> 8, s.rs & 255])
                g.emit_query(s.addr, qname(b'v', enc(0, data), g.domain), seed=seed_for_challenge(chal, rng))

            def login(s, uid, h):
                s.rs = (s.rs + 1) & 0xffff
                g.emit_query(s.addr, qname(b'l', enc(0, bytes([uid]) + h + bytes([s.rs >> 8, s.rs & 255])), g.domain))

            def after(s, uid):
                # what an intruder would do next: ask for the address, switch the codec, send a packet
                s.rs = (s.rs + 1) & 0xffff
                cm = b32c(s.rs >> 10) + b32c(s.rs >> 5) + b32c(s.rs)
                g.emit_query(s.addr, b'i' + b32c(uid) + cm + b'.' + g.domain)
                ip = bytearray(rng.randrange(256) for _ in range(32))
                ip[20:24] = bytes([8, 8, 8, 8])
                hdr = ('%x' % uid).encode() + b32c(1 << 2) + b32c(0) + b32c(1) + b'a'
                g.emit_query(s.addr, qname(hdr, enc(0, bytes([0x5A]) + bytes(ip)), g.domain))

            version(a, c1)
            login(a, 0, real1)                              # what the real client sends for c1
            after(a, 0)
            g.now += rng.choice([61, 62, 120])
            version(m, c2)
            login(m, 0, real1)                              # the replay
            after(m, 0)
            if variant % 2:
                login(m, 0, real2)                          # and the right answer works
                after(m, 0)
            hs.append('H ' + g.cfg() + ' ; ' + ' ; '.join(g.events))
    rc, impl, err = vlib.parallel_run_cases(ctx.exe['srvreal'], hs, ctx.work, 'reallogin')
    if rc != 0:
        ctx.broken.append(('impl-crash', 'server harness (real login_calculate) exited with %d: %s' % (rc, err[-300:])))
    saved = login_stub
    login_stub = doc_login
    cnt = {}
    try:
        for c, o in zip(hs, impl):
            if o == '<NO-OUTPUT>':
                continue
            res = monitor(c, o, cnt)
            if res:
                key, what, upto = res
                rep.add_violation('real-login:' + key, 'real login_calculate, challenge of the re-claimed slot differs from the old one in one bit, old login '
                                  'replayed: ' + what, dict(kind='input', driver='srvreal', case=authlib.truncate_history(c, upto), expected=what,
                                                            observed=split_events(o)[upto][:1500] if upto < len(split_events(o)) else ''))
                break
    finally:
        login_stub = saved
    rep.cov['real_login_stage'] = dict(histories=len(hs), correct_logins=cnt.get('correct_logins', 0), wrong_logins=cnt.get('wrong_logins', 0),
                                       tun_writes=cnt.get('tun_writes', 0), i_replies=cnt.get('i_replies', 0))
    rep.cov['evaluations'] = rep.cov.get('evaluations', 0) + sum(h.count(' ; ') for h in hs)
    rep.cov['rule'] += ('. Real-login stage: %d histories with the real login_calculate (src/login.c): correct login, 61+ s of silence, the slot '
                        're-claimed with a challenge differing in exactly one of the 31 bits, the old login replayed, then I / data requests; '
                        'judged by the same monitor with the login formula of the protocol document' % len(hs))


def replay(rp):
    return authlib.run_replay(rp, 'C03', monitor)
