"""C03 -- no tunnel access without answering the password challenge.
Proof: coq/Properties_C03.v over the validated dispatcher model (Server.v).  Correspondence: the
real iodined.c dispatcher and the extracted model run the same histories (corpus, targeted
scenarios, srvlib's generic traffic) and must agree event by event on datagrams, tun writes and the
per-session state digest.  Oracle on the implementation's output, independent of the model: a
monitor that learns each slot's challenge from the VACK answers, knows from the inputs which
challenges were answered with login(password, seed), and flags any privileged effect on behalf of a
session that has not: an authenticated / authenticated_raw flag, a tun write, an I reply, a change of
codec / downstream codec / lazy / fragsize / options lock, a switch to raw mode, a datagram to or a
change of the outgoing packet of another session."""
import vlib
import authlib
from authlib import parse_history, parse_event_out, split_events, classify, vacks, login_stub

OPTION_KINDS = ('S', 'O', 'N')


def monitor(case, out, cnt):
    cfg, evs = parse_history(case)
    outs = split_events(out)
    pw = cfg.password
    slots = {}      # uid -> dict(seed, ans, raw)
    prev = {}

    def bump(k, n=1):
        cnt[k] = cnt.get(k, 0) + n

    for k, ev in enumerate(evs):
        if k >= len(outs):
            return ('output-missing', 'no output for event %d' % k, k)
        o = parse_event_out(outs[k])
        if o is None:
            return ('output-unparsable', 'unparsable output for event %d: %r' % (k, outs[k][:100]), k)
        dig = o['dig']
        bump('events')
        cl = classify(ev['dg'], cfg.domain) if ev['kind'] == 'X' else None
        uid = cl['uid'] if cl else None
        if cl:
            bump('kind_' + cl['kind'])
        # what this event proves about knowledge of the password
        hash_ok = False
        if cl and cl['kind'] == 'L' and uid in slots:
            un = cl['unpacked']
            if len(un) >= 18 and un[1:17] == login_stub(pw, slots[uid]['seed']):
                slots[uid]['ans'] = True
                hash_ok = True
                bump('correct_logins')
            else:
                bump('wrong_logins')
        if cl and cl['kind'] == 'raw_login' and uid in slots and len(cl['payload']) >= 16:
            if slots[uid]['ans'] and cl['payload'][:16] == login_stub(pw, (slots[uid]['seed'] + 1) & 0xffffffff):
                slots[uid]['raw'] = True
                hash_ok = True
                bump('correct_raw_logins')
            else:
                bump('wrong_or_premature_raw_logins')
        vk = vacks(o)
        for (vu, seed) in vk:
            slots[vu] = dict(seed=seed, ans=False, raw=False)
            bump('vacks')
        vset = set(v for v, _ in vk)
        acting_ok = uid in slots and slots[uid]['ans'] if uid is not None else False

        # 1. flags
        for i, f in dig.items():
            if i not in slots or str(slots[i]['seed']) != f.get('S'):
                return ('seed-without-vack', 'slot %d holds challenge %s that no VACK announced' % (i, f.get('S')), k)
            a = f.get('A', '0000')
            if a[0] == '1' and not slots[i]['ans']:
                return ('auth-without-login', 'slot %d is authenticated but its current challenge (seed %d) was never answered correctly'
                        % (i, slots[i]['seed']), k)
            if a[1] == '1' and not slots[i]['raw']:
                return ('authraw-without-raw-login', 'slot %d is authenticated_raw without a correct raw login after a DNS login' % i, k)
        # 2. tun writes
        if o['tuns']:
            bump('tun_writes', len(o['tuns']))
            ok = cl is not None and cl['kind'] in ('D', 'raw_data') and acting_ok and (cl['kind'] == 'D' or slots[uid]['raw'])
            if not ok:
                return ('tun-write-unauthorized', 'a packet was written to the tun device by an event (%s, userid %r) whose session is not logged in'
                        % (cl['kind'] if cl else ev['kind'], uid), k)
        # 3. options, conn
        for i, f in dig.items():
            p = prev.get(i)
            if p is None or i in vset:
                continue
            changed = [x for x in 'EDF' if f.get(x) != p.get(x)]
            if f.get('C', 'xx')[1:] != p.get('C', 'xx')[1:]:
                changed.append('lazy')
            if f.get('A', '0000')[2] != p.get('A', '0000')[2]:
                changed.append('locked')
            if changed:
                bump('option_changes')
                if not (cl and cl['kind'] in OPTION_KINDS and uid == i and acting_ok):
                    return ('option-change-unauthorized', 'fields %s of slot %d changed in an event (%s, userid %r) that is not an option '
                            'command of that logged-in session' % (','.join(changed), i, cl['kind'] if cl else ev['kind'], uid), k)
            if p.get('C', 'xx')[0] == '1' and f.get('C', 'xx')[0] == '0':
                bump('raw_switches')
                if not (cl and cl['kind'] == 'raw_login' and uid == i and hash_ok):
                    return ('raw-switch-unauthorized', 'slot %d switched to raw mode without a correct raw login of a logged-in session' % i, k)
        if ev['kind'] == 'X':
            src = ev['src']
            # 4. the I reply
            if cl and cl['kind'] == 'I':
                for s in o['sends']:
                    if s['rv'] in (5, 17) and s['dec'] and s['dec'].startswith('49'):
                        bump('i_replies')
                        if not acting_ok:
                            return ('address-disclosed', 'the I request naming userid %r got the address although that session is not logged in' % uid, k)
            # 5. forwarding: datagrams to someone else, other sessions' outgoing packets
            elsewhere = [s for s in o['sends'] if (s['fam'], s['ip']) != (src[0], src[1])
                         and not (cl and cl['kind'] in ('infra', 'unparsed') and s['ip'] == '7f000001')]   # forward_query to the local DNS server
            touched = [i for i, f in dig.items() if i != uid and i in prev and i not in vset and
                       (f.get('O') != prev[i].get('O') or f.get('U') != prev[i].get('U'))]
            if elsewhere or touched:
                bump('forwards')
                if not acting_ok:
                    return ('forward-unauthorized', 'event (%s, userid %r) of a session that is not logged in sent a datagram to another '
                            'address or changed the outgoing packet of slot %r' % (cl['kind'] if cl else '?', uid, touched), k)
            if cl and cl['kind'] == 'unparsed':
                bump('unparsed')
        prev = dig
    return None


def check(rep):
    rep.cov['rule'] = ('corpus (corpus/C03, corpus/SRV) first; targeted histories (replayed logins after re-allocation at 59/60/61/62/120 s, '
                       'raw login/data/ping before the DNS login, option/I/R/N/ping/data commands before login and after a failed login, '
                       'userids 16..255 / negative / unallocated, 19 sessions for <= 16 slots), then srvlib.gen_histories traffic; '
                       'every history through the real dispatcher, monitor on its output; model/implementation diff per event on '
                       'the corpus and a quarter of the rest (quick) or all (thorough). evaluations = events monitored')
    return authlib.run_check(rep, 'C03', monitor, authlib.AuthGen.SCENARIOS_C03, ('c03-gen', 'c03-tgt'))


def replay(rp):
    return authlib.run_replay(rp, 'C03', monitor)
