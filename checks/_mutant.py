"""development helper (not part of the checks): copy /repo to a scratch directory, apply one breaking
edit, run ./check <ID> against it, print the verdict lines, delete the copy.
usage: python3 checks/_mutant.py <ID> <mutant-name> [seed]"""
import os, sys, shutil, subprocess, re, time

HERE = os.path.dirname(os.path.abspath(__file__))
ROOT = os.path.dirname(HERE)


def sub(path, old, new, count=1):
    s = open(path).read()
    assert old in s, 'pattern not found in %s: %r' % (path, old)
    s = s.replace(old, new, count)
    open(path, 'w').write(s)


def m_d9(d):
    subprocess.run(['patch', '-d', d, '-p1', '-i', os.path.join(ROOT, 'seeded/revert-fix-D9-cache-fragsize/patch.diff')], check=True,
                   stdout=subprocess.DEVNULL)


def m_d19(d):
    subprocess.run(['patch', '-d', d, '-p1', '-i', os.path.join(ROOT, 'seeded/revert-fix-D19-premature-downstream-ack/patch.diff')],
                   check=True, stdout=subprocess.DEVNULL)


def m_nomin(d):
    sub(d + '/src/iodined.c', 'datalen = MIN(users[userid].fragsize, users[userid].outpacket.len - users[userid].outpacket.offset);',
        'datalen = users[userid].outpacket.len - users[userid].outpacket.offset;')


def m_lt0(d):
    sub(d + '/src/iodined.c', 'if (max_frag_size < 2) {', 'if (max_frag_size < 0) {')


def m_last(d):
    sub(d + '/src/iodined.c', 'last = (users[userid].outpacket.len == users[userid].outpacket.offset + datalen);',
        'last = (users[userid].outpacket.len <= users[userid].outpacket.offset + datalen + 1);')


def m_qmemdata2(d):
    sub(d + '/src/user.h', '#define QMEMDATA_LEN 15', '#define QMEMDATA_LEN 2')


def m_nolower(d):
    s = open(d + '/src/iodined.c').read()
    i = s.index('static inline int answer_from_qmem_data')
    j = s.index('return answer_from_qmem(dns_fd, q, users[userid].qmemdata_cmc', i)
    body = s[i:j]
    old = """		if (q->name[i+1] >= 'A' && q->name[i+1] <= 'Z')
			cmc[i] = q->name[i+1] + ('a' - 'A');
		else
			cmc[i] = q->name[i+1];"""
    assert old in body
    body = body.replace(old, "		cmc[i] = q->name[i+1];")
    open(d + '/src/iodined.c', 'w').write(s[:i] + body + s[j:])


def m_cache_after_ack(d):
    s = open(d + '/src/iodined.c').read()
    i = s.index("} else if (in[0] == 'P' || in[0] == 'p') {")
    j = s.index("} else if ((in[0] >= '0' && in[0] <= '9')", i)
    body = s[i:j]
    old = """#ifdef DNSCACHE_LEN
		/* Check if cached */
		if (answer_from_dnscache(dns_fd, userid, q))
			return;
#endif
"""
    assert old in body
    body = body.replace(old, '')
    anchor = "		process_downstream_ack(userid, dn_seq, dn_frag);\n"
    assert anchor in body
    body = body.replace(anchor, anchor + "\n" + old)
    open(d + '/src/iodined.c', 'w').write(s[:i] + body + s[j:])


def m_ack_first(d):
    s = open(d + '/src/iodined.c').read()
    i = s.index("} else if (in[0] == 'P' || in[0] == 'p') {")
    old = """#ifdef DNSCACHE_LEN
		/* Check if cached */
		if (answer_from_dnscache(dns_fd, userid, q))
			return;
#endif
"""
    j = s.index(old, i)
    s = s[:j] + "		process_downstream_ack(userid, (unpacked[1] >> 4) & 7, unpacked[1] & 15);\n" + s[j:]
    open(d + '/src/iodined.c', 'w').write(s)


MUTANTS = dict(ackfirst=m_ack_first, d9=m_d9, d19=m_d19, nomin=m_nomin, lt0=m_lt0, last=m_last, qmemdata2=m_qmemdata2, nolower=m_nolower,
               cacheafterack=m_cache_after_ack)


def main():
    pid, name = sys.argv[1], sys.argv[2]
    seed = sys.argv[3] if len(sys.argv) > 3 else '1'
    d = '/tmp/c1516-mut-%s-%d' % (name, os.getpid())
    shutil.rmtree(d, ignore_errors=True)
    subprocess.run(['rsync', '-a', '--exclude', '.git', '/repo/', d + '/'], check=True)
    try:
        MUTANTS[name](d)
        env = dict(os.environ)
        env['VERIF_REPO'] = d
        env['VERIF_SEED'] = seed
        t0 = time.time()
        p = subprocess.run([os.path.join(ROOT, 'check'), pid], env=env, stdout=subprocess.PIPE, stderr=subprocess.STDOUT, text=True)
        lines = [l for l in p.stdout.split('\n') if l.startswith(('#', 'VIOLATION', 'OK', 'KNOWN'))]
        print('mutant %s on %s: exit %d in %.0fs' % (name, pid, p.returncode, time.time() - t0))
        for l in lines[:6]:
            print('   ', l[:400])
        if not lines:
            print(p.stdout[-1500:])
    finally:
        shutil.rmtree(d, ignore_errors=True)


if __name__ == '__main__':
    main()
