"""C10 -- every DNS message emitted is well-formed and answers echo their question.

Stage 1 (correspondence): the REAL code emits datagrams -- client builders through send_query (K),
the client's query encoder on arbitrary names / types / ids (E), the server's write_dns for every
record type x downstream codec x payload length (W), the NS / A auxiliary answers through the real
tunnel_dns (N) -- and the extracted Coq emitters must produce the same bytes.
Stage 2 (specification + oracle): every datagram emitted by the real code is parsed by the
extracted strict RFC 1035 parser DnsWf.wf_msg ('P' cases, model driver) and by the independent
Python parser wirelib.parse_msg; both must accept and agree, and the implementation-level oracle
checks the echo of the question, owner names, answer types, NS / A contents.
Stage 3 (the specification is not vacuous): hand-made malformed messages (corpus/C10/malformed*)
and systematic mutations of real datagrams must be rejected by both parsers; hand-written legal
messages (corpus/C10/wellformed*) must be accepted; the two parsers must agree on every mutant."""
import os
import collections
import vlib
import wirelib
import srvlib
from wirelib import WIRE

DOMAIN = b't.example.com'
TYPES = [('NULL', 10), ('PRIVATE', 65399), ('TXT', 16), ('SRV', 33), ('MX', 15), ('CNAME', 5), ('A', 1)]
TYNUM = dict((n, t) for t, n in TYPES)
CODECS = 'TSUVR'
BITS = [5, 6, 6, 7]

QNAME_SHORT = b'paaaq.t.example.com'
QNAME_LONG = (b'0abcd' + b'x' * 57 + b'.' + b'y' * 57 + b'.' + b'z' * 57 + b'.' + b'w' * 50 + b'.t.example.com')
QNAME_MAX = b'a' * 63 + b'.' + b'B' * 63 + b'.' + b'c' * 63 + b'.' + b'd' * 47 + b'.t.example.com'     # 253 chars, 255 on the wire
QNAME_MIXED = b'Y\xe9\xffAb-C_+\x01\x7f\x80.Zz9.T.Example.COM'
QNAMES_W = [QNAME_SHORT, QNAME_LONG, QNAME_MAX, QNAME_MIXED, b'z.t.example.com']

W_LENGTHS = sorted(set(list(range(1, 13)) + [56, 57, 58, 100, 113, 114, 115, 152, 153, 154, 182, 183, 184, 213, 214, 215, 244, 245, 246, 247,
                                              251, 252, 253, 254, 255, 256, 257, 503, 504, 505, 1000, 1200, 2000, 2558, 2559, 2560, 3070, 3071,
                                              3072, 3582, 3583, 3584, 4094, 4095, 4096, 4097, 4098]))


def in_domain_name(name):
    """labels 1..63 bytes, no NUL, <= 255 bytes on the wire (the quantifier of C10)"""
    if name == b'':
        return True
    labels = name.split(b'.')
    return all(1 <= len(l) <= 63 for l in labels) and b'\0' not in name and len(name) + 2 <= 255


def rand_label(rng, n, alpha=None):
    if alpha is None:
        return bytes(rng.choice([rng.randrange(1, 46), rng.randrange(47, 256), rng.choice(b'abcXYZ019-_')]) for _ in range(n))
    return bytes(rng.choice(alpha) for _ in range(n))


def rand_name(rng, total=None):
    """a name inside the quantifier: labels of 1..63 bytes without '.'/NUL, <= 253 chars"""
    if total is None:
        total = rng.choice([1, 2, 3, 10, 63, 64, 65, 127, 128, 200, 252, 253, rng.randrange(1, 254)])
    labels = []
    left = total
    while left > 0:
        l = min(left, rng.choice([63, 1, 2, rng.randrange(1, 64)]))
        if left - l == 1:          # would leave room for a dot but no label
            if l > 1:
                l -= 1
            else:
                l = 2 if left >= 2 else 1
        l = min(l, 63, left)
        labels.append(rand_label(rng, l))
        left -= l
        if left > 0:
            left -= 1
    nm = b'.'.join(labels)
    return nm


def mk_domain(D, rng):
    import c08
    return c08.mk_domain(D, rng)


def corpus_lines(prefix, exclude=()):
    out = []
    cp = os.path.join(vlib.VERIF, 'corpus', 'C10')
    if os.path.isdir(cp):
        for fn in sorted(os.listdir(cp)):
            if not fn.startswith(prefix) or any(fn.startswith(e) for e in exclude) or not fn.endswith('.cases'):
                continue
            for l in open(os.path.join(cp, fn)):
                l = l.strip()
                if l and not l.startswith('#'):
                    out.append(l)
    return out


# ------------------------------------------------------------------------------------------
# stage 1 case generation

def gen_k(rng, tier, stats):
    """client builders (chunks, packets, probes, the ten handshake queries) for every hostname limit"""
    cases, meta = [], []
    for L in range(100, 256):
        Dmax = min(128, L - 24)
        Ds = sorted(set([3, Dmax] + [rng.randrange(3, Dmax + 1) for _ in range(1 if tier == 'quick' else 6)]))
        for D in Ds:
            dom = mk_domain(D, rng)
            for codec in range(4):
                space = L - D - 8
                space -= space // 57
                cb = max(1, (space * BITS[codec]) // 8)
                for kind in ([0, 1, 2, 3] if tier == 'thorough' else [0, rng.choice([1, 2, 3]), 3]):
                    n = rng.choice([1, max(1, cb - 1), cb, cb + 1, 2 * cb + 3, rng.randrange(1, 2049)])
                    fill = rng.randrange(3)
                    data = bytes([0xff]) * n if fill == 0 else (bytes(n) if fill == 1 else bytes(rng.randrange(256) for _ in range(n)))
                    edns = rng.randrange(2)
                    if kind == 0:
                        a = [rng.randrange(16), rng.randrange(8), rng.randrange(16), rng.randrange(8), rng.randrange(16)]
                        stats['K_chunk'] += 1
                    elif kind == 1:
                        a = [rng.choice(b'plvn'), 0, 0, 0, 0]
                        data = data[:rng.choice([4, 5, 6, 19, 300])]
                        stats['K_packet'] += 1
                    elif kind == 2:
                        a = [rng.randrange(16), rng.randrange(2048), rng.randrange(65536), 0, 0]
                        data = b''
                        stats['K_probe'] += 1
                    else:
                        which = (L + codec + D) % 10 if tier == 'quick' else rng.randrange(10)
                        arg = {0: rng.choice([0x502, 0x501, 0, 0xffffffff]), 3: rng.choice([2, 100, 200, 1200, 4000, 65535]),
                               6: rng.choice(b'TSUVRtsuvr'), 7: rng.choice([5, 6, 26, 7]), 8: rng.choice(b'TSUVRLI')}.get(which, 0)
                        a = [which, rng.randrange(16), arg, rng.randrange(65536), 0]
                        if which == 1:
                            data = bytes(rng.randrange(256) for _ in range(16))
                        elif which == 5:
                            data = bytes(rng.choice(b'aAbBcC019-+_\xbc\xfd') for _ in range(rng.randrange(1, 60)))
                        else:
                            data = b''
                        stats['K_handshake_%d' % which] = stats.get('K_handshake_%d' % which, 0) + 1
                    cases.append('K %d %d %d %s %s %d %d %d %d %d %d %s' % (codec, L, edns, dom.hex(), dom.hex(), kind,
                                                                              a[0], a[1], a[2], a[3], a[4], vlib.hexs(data)))
                    meta.append(dict(k='K', L=L, dom=dom, edns=edns, kind=kind, a=a, indom=True))
    return cases, meta


def gen_e(rng, tier, stats):
    """the query encoder on arbitrary names / types / ids, inside and outside the quantifier"""
    cases, meta = [], []
    qtypes = [t for _, t in TYPES] + [2, 28, 255, 0, 65535]
    ids = [0, 1, 255, 256, 8727, 32767, 32768, 65535]

    def add(name, indom, cls):
        ty = rng.choice(qtypes)
        qid = rng.choice(ids + [rng.randrange(65536)])
        edns = rng.randrange(2)
        cases.append('E %d %d %d %s' % (ty, qid, edns, vlib.hexs(name)))
        meta.append(dict(k='E', name=name, ty=ty, id=qid, edns=edns, indom=indom))
        stats[cls] += 1
    fixed = [b'', b'a', b'a.b', QNAME_SHORT, QNAME_LONG, QNAME_MAX, QNAME_MIXED, b'x' * 63, b'x' * 63 + b'.' + b'y' * 63,
             b'\xff' * 63 + b'.\x01.t.example.com']
    for nm in fixed:
        for _ in range(4):
            add(nm, True, 'E_in_domain')
    for _ in range(600 if tier == 'quick' else 6000):
        add(rand_name(rng), True, 'E_in_domain')
    # outside the quantifier (illegal labels / lengths): bytes must still equal the model's; the
    # parsers' verdict is recorded, not required
    odd = [b'x' * 64, b'a.' + b'x' * 64 + b'.c', b'a..b', b'.a', b'a.', b'...', b'a' * 63 + (b'.' + b'b' * 63) * 3, b'a' * 300,
           (b'abcdefg.' * 40)[:-1], b'a\0b.c', b'x' * 4097]
    for nm in odd:
        for _ in range(2):
            add(nm, False, 'E_out_of_domain')
    return cases, meta


def payload(kind, n, rng):
    if kind == 0:
        return bytes([0xff]) * n
    if kind == 1:
        return bytes(n)
    if kind == 2:
        return (b'.\0' * n)[:n]          # dots and NULs in the payload must never reach a name
    return bytes(rng.randrange(256) for _ in range(n))


def gen_w(rng, tier, stats):
    """server answers: 7 types x 5 codecs x payload lengths x question names"""
    cases, meta = [], []
    ids = [0, 65535, 1, 256, 8727, 32768]
    for tname, ty in TYPES:
        for ce in CODECS + ('x' if tier == 'thorough' else ''):
            names = [QNAME_SHORT, QNAME_LONG] if tier == 'quick' else QNAMES_W
            for qn in names:
                for n in W_LENGTHS:
                    d = payload(rng.choice([0, 1, 2, 3, 3, 3]), n, rng)
                    qid = rng.choice(ids + [rng.randrange(65536)] * 3)
                    cases.append('W %d %d %d 65536 %s %s' % (ty, ord(ce), qid, qn.hex(), d.hex()))
                    meta.append(dict(k='W', ty=ty, ce=ce, name=qn, id=qid, n=n, indom=True))
                    stats['W_sweep'] += 1
    # mixed-case / high-byte / maximal names, odd codec letters, random in-domain names
    for _ in range(700 if tier == 'quick' else 6000):
        tname, ty = rng.choice(TYPES)
        ce = rng.choice(CODECS + 'xt')
        n = rng.choice(W_LENGTHS + [rng.randrange(1, 4099)])
        qn = rng.choice([QNAME_MAX, QNAME_MIXED, b'z.t.example.com', rand_name(rng), rand_name(rng)])
        d = payload(rng.randrange(4), n, rng)
        qid = rng.choice(ids + [rng.randrange(65536)])
        cases.append('W %d %d %d %d %s %s' % (ty, ord(ce), qid, rng.choice([65536, 4096]), qn.hex(), d.hex()))
        meta.append(dict(k='W', ty=ty, ce=ce, name=qn, id=qid, n=n, indom=True))
        stats['W_random_names'] += 1
    return cases, meta


def gen_n(rng, tier, stats):
    """NS queries under the tunnel domain, A queries for ns./www., and queries that get no auxiliary answer"""
    cases, meta = [], []
    pres = [b'', b'ab.', b'X.Y.', b'ns.', b'www.', b'a' * 63 + b'.', b'\xe9\xff.q.', b'a.b.c.d.e.f.g.h.',
            b'x' * 63 + b'.' + b'y' * 63 + b'.' + b'z' * 63 + b'.' + b'w' * 45 + b'.']
    doms = [b't.example.com', b'T.Example.COM', b'T.EXAMPLE.COM', b't.eXAMPLE.cOM']
    dests = [(0, b''), (4, bytes([192, 0, 2, 7])), (4, bytes([0, 0, 0, 0])), (4, bytes([255, 254, 253, 1])),
             (6, bytes([0x20, 1, 0xd, 0xb8] + [0] * 11 + [0x35])), (6, bytes(15) + b'\x01')]
    nsips = [None, bytes([198, 51, 100, 9])]
    ids = [0, 65535, 4242, 256]

    def add(ty, name, cls, expect):
        for fam, dest in dests:
            for nsip in nsips:
                qid = rng.choice(ids + [rng.randrange(65536)])
                cases.append('N %d %d %d %s %s %s' % (ty, qid, fam, dest.hex() or '-', nsip.hex() if nsip else '-', name.hex()))
                meta.append(dict(k='N', ty=ty, name=name, id=qid, fam=fam, dest=dest, nsip=nsip, expect=expect, indom=True))
                stats[cls] += 1
    for pre in pres:
        for dom in doms:
            add(2, pre + dom, 'N_ns', 'ns')
    for dom in doms:
        for p in [b'ns.', b'NS.', b'nS.', b'Ns.']:
            add(1, p + dom, 'N_a_ns', 'a-ns')
        for p in [b'www.', b'WWW.', b'wWw.', b'Www.']:
            add(1, p + dom, 'N_a_www', 'a-www')
    # no auxiliary answer: types outside the switch, names outside the domain, no label boundary
    for ty, nm in [(28, b'ns.t.example.com'), (255, b'ab.t.example.com'), (6, b't.example.com'), (12, b'www.t.example.com'),
                   (2, b'xt.example.com'), (2, b'example.com'), (2, b't.example.org'), (1, b'ns.t.example.org'),
                   (1, b'www.example.com'), (2, b'com'), (2, b'a.b.c')]:
        add(ty, nm, 'N_none', 'none')
    return cases, meta


def gen_h(rng, tier, stats):
    """queries of the seven tunnel types pushed through the real tunnel_dns -> handle_null_request:
    whatever the handlers answer (version / login / error replies, case check echo, codec tests) is
    collected for stage 2 only (the handlers themselves are not part of the C10 model; everything they
    emit goes through write_dns)."""
    cases, meta = [], []
    heads = [b'vaaaaaaaaaaab', b'v', b'laaaaaaaaaaaaaaaaaaaaaaaaaaaaaaaaab', b'l', b'ia', b'i', b'zAbC-019\xbc\xfd', b'z' + b'Q' * 60,
             b'saf', b'sa', b'oat', b'oa', b'yta', b'ysa', b'yua', b'yva', b'yra', b'raaaad', b'naaaaaaab', b'paaaaaaab', b'0aaaab', b'q', b'x']
    for h in heads:
        for tname, ty in TYPES:
            nm = h + rng.choice([b'.t.example.com', b'.T.Example.COM'])
            qid = rng.choice([0, 65535, rng.randrange(1, 65535)])
            cases.append('N %d %d 4 c0000207 - %s' % (ty, qid, nm.hex()))
            meta.append(dict(k='H', ty=ty, name=nm, id=qid, indom=True))
            stats['H_handler'] += 1
    return cases, meta


# ------------------------------------------------------------------------------------------
# oracle on the implementation's datagrams

def datagrams_of(kind, out):
    """hex datagrams the real code emitted for a case (list), or None when the line is not understood"""
    if out == '<NO-OUTPUT>' or out.startswith('UNKNOWN'):
        return None
    if out.startswith('NOSEND'):
        return []
    if kind in ('K', 'W'):
        return [out.split(' | ')[0]]
    if kind == 'E':
        return [out]
    if kind in ('N', 'H'):
        f = out.split(' ')
        return f[1:1 + int(f[0])]
    return None


def rr_checks(rr):
    return None


def oracle(m, dg, msg, idx=0):
    """implementation-level oracle on one parsed datagram; returns None or a description"""
    k = m['k']
    D = wirelib.dotted
    if k in ('K', 'E'):
        if msg['qr'] != 0:
            return 'query has QR set'
        if msg['answers'] or msg['authority']:
            return 'query carries answer/authority records'
        ar = msg['additional']
        if m['edns']:
            if len(ar) != 1 or ar[0]['type'] != 41 or ar[0]['owner'] or ar[0]['rdata'] != b'':
                return 'EDNS0 query without exactly one root-owned empty OPT record'
            if dg[-11:] != bytes([0, 0, 41, 0x10, 0, 0, 0, 0x80, 0, 0, 0]):
                return 'OPT record is not the fixed 4096-byte advertisement'
        elif ar:
            return 'additional records in a non-EDNS0 query'
        if k == 'K':
            if msg['id'] != 8727 or msg['qtype'] != 10:
                return 'client query id/type differ from chunkid/do_qtype'
            if not D(msg['qname']).endswith(b'.' + m['dom']):
                return 'query name does not end in the tunnel domain'
        else:
            if msg['id'] != m['id'] or msg['qtype'] != m['ty']:
                return 'query id/type differ from the request'
            if D(msg['qname']) != m['name']:
                return 'question name %r differs from the requested name' % D(msg['qname'])[:40]
        return None
    # answers
    if msg['qr'] != 1:
        return 'answer without QR'
    if msg['id'] != m['id']:
        return 'answer id %d differs from the query id %d' % (msg['id'], m['id'])
    if D(msg['qname']) != m['name']:
        return 'answer question name differs from the query name (exact bytes)'
    if msg['qtype'] != m['ty']:
        return 'answer question type %d differs from the query type %d' % (msg['qtype'], m['ty'])
    ans = msg['answers']
    if not ans:
        return 'answer without answer records'
    for r in ans:
        if D(r['owner']) != m['name']:
            return 'answer record owner does not resolve to the question name'
        want = 5 if m['ty'] == 1 and k in ('W', 'H') else m['ty']
        if r['type'] != want:
            return 'answer record type %d for a type %d question' % (r['type'], m['ty'])
        if r['cls'] != 1:
            return 'answer record class %d' % r['cls']
        if want in (5, 15, 33, 2) and r['rdname'] is None:
            return 'name-valued RDATA not parsed'
        if want in (5, 15, 33) and any(len(l) > 57 for l in r['rdname']):
            return 'encoded name label longer than 57'
    if msg['authority']:
        return 'authority records present'
    if k in ('W', 'H'):
        if msg['additional']:
            return 'additional records in a tunnel answer'
        if m['ty'] not in (15, 33) and len(ans) != 1:
            return '%d answer records for a single-record type' % len(ans)
        if m['ty'] == 15 and any(r['rdata'][:2] != bytes([(10 * (i + 1)) >> 8, (10 * (i + 1)) & 255]) for i, r in enumerate(ans)):
            return 'MX preferences are not 10, 20, ...'
        return None
    # N: auxiliary answers
    ip = m['nsip'] if m['nsip'] else (m['dest'] if m['fam'] == 4 else None)
    if len(ans) != 1:
        return 'auxiliary answer with %d records' % len(ans)
    if m['expect'] == 'ns':
        dl = len(m['name']) - len(DOMAIN)
        nsname = b'ns.' + m['name'][dl:]
        if D(ans[0]['rdname']) != nsname:
            return 'NS answer names %r, expected %r' % (D(ans[0]['rdname']), nsname)
        ar = msg['additional']
        if ip is None:
            if ar:
                return 'additional record without an IPv4 address'
        else:
            if len(ar) != 1 or ar[0]['type'] != 1 or D(ar[0]['owner']) != nsname or ar[0]['rdata'] != ip:
                return 'additional section is not one A record for the ns name with the server address'
    else:
        if msg['additional']:
            return 'additional records in an A answer'
        want = bytes([127, 0, 0, 1]) if m['expect'] == 'a-www' else ip
        if ans[0]['type'] != 1 or ans[0]['rdata'] != want:
            return 'A answer carries %r, expected %r' % (ans[0]['rdata'], want)
    return None


def expected_count(m):
    """how many datagrams an N case must produce"""
    if m['expect'] == 'none':
        return 0
    ip = m['nsip'] if m['nsip'] else (m['dest'] if m['fam'] == 4 else None)
    if m['expect'] == 'a-ns' and ip is None:
        return 0
    return 1


# ------------------------------------------------------------------------------------------
# stage 3: mutations of real datagrams

def mutants(dg, msg, rng):
    """(bytes, must_be_malformed, label) derived from a well-formed datagram"""
    out = []
    b = bytearray(dg)
    out.append((bytes(b) + b'\0', True, 'trailing-byte'))
    if len(b) > 12:
        out.append((bytes(b[:-1]), True, 'truncated'))
    for off, nm in ((6, 'ancount'), (8, 'nscount'), (10, 'arcount')):
        c = bytearray(b)
        v = ((c[off] << 8) | c[off + 1]) + 1
        c[off], c[off + 1] = (v >> 8) & 255, v & 255
        out.append((bytes(c), True, nm + '+1'))
    if msg['answers']:
        c = bytearray(b)
        v = ((c[6] << 8) | c[7]) - 1
        c[6], c[7] = (v >> 8) & 255, v & 255
        out.append((bytes(c), True, 'ancount-1'))
        # first answer record: owner is the 2-byte pointer right after the question
        p = 12
        while b[p] != 0:
            p += 1 + b[p]
        p += 5
        if b[p] == 0xc0:
            for delta, lbl in ((1, 'owner-pointer+1'), (len(b), 'owner-pointer-forward')):
                c = bytearray(b)
                t = (((c[p] & 0x3f) << 8) | c[p + 1]) + delta
                c[p], c[p + 1] = 0xc0 | ((t >> 8) & 0x3f), t & 255
                first = b[12]
                out.append((bytes(c), (delta != 1 or first != 0) and True, lbl))
            for delta in (1, -1):
                c = bytearray(b)
                v = ((c[p + 10] << 8) | c[p + 11]) + delta
                if 0 <= v < 65536:
                    c[p + 10], c[p + 11] = (v >> 8) & 255, v & 255
                    ty = (b[p + 2] << 8) | b[p + 3]
                    # opaque types: a changed RDLENGTH of the LAST record shows up as a length mismatch too
                    out.append((bytes(c), True, 'rdlength%+d(type %d)' % (delta, ty)))
    # one random byte flip: no expectation, the parsers must merely agree
    c = bytearray(b)
    i = rng.randrange(len(c))
    c[i] ^= 1 << rng.randrange(8)
    out.append((bytes(c), False, 'bitflip'))
    return out


def py_verdict(dg):
    try:
        return wirelib.model_p_line(wirelib.parse_msg(dg))
    except wirelib.Malformed:
        return 'MALFORMED'
    except IndexError:
        return 'MALFORMED'


# ------------------------------------------------------------------------------------------

def history_echo(rep, ctx):
    """the echo clause over histories: every answer the real server emits in a session history (held queries, queries
    re-delivered with a new id or from another address while their answer is cached, duplicates of pending queries)
    carries the id and question of a query that was received FROM THE ADDRESS IT IS SENT TO and not answered yet.
    Reuses the history generator and the multiset matcher of the C14 check on a small set of targeted histories."""
    if 'srvh' not in ctx.exe:
        return
    import c14
    n = 60 if rep.tier == 'quick' else 600
    cases, _ = c14.gen_targeted(rep.seed, n, 90, tag='c10-echo')
    rc, impl, err = c14.run_full(ctx.exe['srvh'], cases, ctx.work, 'echo')
    st = collections.Counter()
    for c, o in zip(cases, impl):
        if o == '<NO-OUTPUT>':
            continue
        try:
            c14.monitor(c, o, st)
        except c14.Verdict as v:
            if v.key.startswith('answer:'):
                rep.add_violation('echo:history', 'an answer does not echo a query received from the address it was sent to (id / question / '
                                  'destination): ' + v.what, dict(kind='history', driver='srvh', case=c14.truncate(c, v.event_index), event=v.event_index,
                                                                 expected='id and question of an unanswered query from that address'))
                break
    rep.cov['history_echo'] = dict(histories=len(cases), answers_matched=st.get('answers_matched', 0) or sum(v for k, v in st.items() if k.startswith('answer')),
                                   counters={k: v for k, v in st.items() if k in ('recv_strict', 'recv_lenient', 'answers', 'answers_matched', 'answered_later')})


def check(rep):
    os.environ['VERIF_FULL'] = '1'          # datagrams in full hex (hmain.c putsum / drvlib.ml sum_of_bytes)
    ctx = vlib.prepare(rep, harnesses={'wire': WIRE, 'srvh': srvlib.SRV}, sanitize=(rep.tier == 'thorough'), model='WIRE')
    history_echo(rep, ctx)
    rng = vlib.rng_for(rep.seed, 'c10')
    stats = dict(corpus=0, K_chunk=0, K_packet=0, K_probe=0, E_in_domain=0, E_out_of_domain=0, W_sweep=0, W_random_names=0,
                 N_ns=0, N_a_ns=0, N_a_www=0, N_none=0, H_handler=0)
    groups = []      # (tag, cases, meta, diff_with_model)
    cor = corpus_lines('', exclude=('malformed', 'wellformed'))
    stats['corpus'] = len(cor)
    kc, km = gen_k(rng, rep.tier, stats)
    ec, em = gen_e(rng, rep.tier, stats)
    wc, wm = gen_w(rng, rep.tier, stats)
    nc, nm = gen_n(rng, rep.tier, stats)
    hc, hm = gen_h(rng, rep.tier, stats)
    groups = [('cor', cor, [None] * len(cor), True), ('ke', kc + ec, km + em, True), ('w', wc, wm, True), ('n', nc, nm, True),
              ('h', hc, hm, False)]
    rep.cov['rule'] = ('stage 1: corpus; K: every hostname limit L 100..255 x domain lengths {3, max, random} x 4 codecs x builders (chunk, packet, '
                       'probe, the ten handshake queries), EDNS0 on/off; E: query encoder on random names inside the quantifier (labels 1..63 of '
                       'arbitrary bytes except . and NUL, up to 253 chars), all ids/types, plus names outside it (bytes compared, verdict recorded); '
                       'W: 7 types x 5 codecs x %d payload lengths (1..12, every capacity edge +-1, 4096, 4098) x question names (19 and 248 chars; '
                       'thorough: 253 chars, mixed case / high bytes) plus random in-domain names, ids incl. 0 and 65535; N: NS / A(ns.) / A(www.) '
                       'under t.example.com in 4 spellings x 9 prefixes x {no destination, 3 IPv4 destinations, 2 IPv6 destinations} x {-n unset, set}, and 11 queries that '
                       'must get no auxiliary answer; H: 23 command heads x 7 types through the real tunnel_dns/handle_null_request (oracle only). '
                       'stage 2: every datagram the real code emitted -> extracted wf_msg + Python parse_msg + echo oracle. stage 3: hand-made '
                       'malformed/wellformed corpus and mutations of real datagrams through both parsers. distinct = distinct datagrams parsed; '
                       'non-trivial = all' % len(W_LENGTHS))
    allcases = sum(len(g[1]) for g in groups)
    emitted = []     # (hex datagram, meta, case)
    counts = dict(datagrams=0, queries=0, answers=0, by_answer_type={}, out_of_domain_malformed=0, out_of_domain_wellformed=0,
                  txt_strings_max=0, mx_records_max=0, longest_datagram=0)
    impl_out = {}
    if 'wire' in ctx.exe:
        for tag, cases, meta, diff in groups:
            rc, impl, err = vlib.parallel_run_cases(ctx.exe['wire'], cases, ctx.work, 'impl-' + tag)
            impl_out[tag] = impl
            if rc != 0:
                ctx.broken.append(('impl-crash', 'implementation harness exited with %d on %s cases: %s' % (rc, tag, err[-300:])))
            for c, o, m in zip(cases, impl, meta):
                kind = m['k'] if m else c.split(' ')[0]
                dgs = datagrams_of(kind, o)
                if dgs is None:
                    rep.add_violation('emit:%s' % kind, 'no result / crash: ' + o[:100],
                                      dict(kind='input', driver='wire', case=c[:100000], observed=o[:2000]))
                    break
                if m is None:
                    m = meta_from_case(c)
                if m is None:
                    continue
                if m['k'] == 'N':
                    want = expected_count(m)
                    if len(dgs) != want:
                        rep.add_violation('aux:%s' % m['expect'], 'expected %d auxiliary answer(s), the server sent %d' % (want, len(dgs)),
                                          dict(kind='input', driver='wire', case=c, observed=o[:2000]))
                        break
                elif m['k'] in ('K', 'W') or (m['k'] == 'E' and m['indom'] and len(m['name']) <= 4000):
                    if len(dgs) != 1:
                        rep.add_violation('emit:%s' % m['k'], 'nothing was sent for a query/answer inside the quantifier',
                                          dict(kind='input', driver='wire', case=c[:100000], observed=o[:2000]))
                        break
                for h in dgs:
                    emitted.append((h, m, c))
            if rep.violations:
                break
    # ---- stage 2: both parsers + oracle on everything the real code emitted
    seen = {}
    pcases = []
    pwant = []
    for h, m, c in emitted:
        dg = bytes.fromhex(h)
        counts['datagrams'] += 1
        counts['longest_datagram'] = max(counts['longest_datagram'], len(dg))
        try:
            msg = wirelib.parse_msg(dg)
            verdict = wirelib.model_p_line(msg)
        except (wirelib.Malformed, IndexError) as e:
            msg = None
            verdict = 'MALFORMED'
            why = str(e)
        if not m['indom']:
            counts['out_of_domain_malformed' if msg is None else 'out_of_domain_wellformed'] += 1
        elif msg is None:
            rep.add_violation('malformed:%s' % key_of(m), 'emitted datagram is not a well-formed RFC 1035 message: %s' % why,
                              dict(kind='input', driver='wire', case=c[:100000], observed=h[:4000], expected='well-formed message'))
            break
        else:
            why = oracle(m, dg, msg)
            if why:
                rep.add_violation('echo:%s' % key_of(m), why,
                                  dict(kind='input', driver='wire', case=c[:100000], observed=h[:4000], expected=why))
                break
            if msg['qr']:
                counts['answers'] += 1
                t = msg['answers'][0]['type']
                counts['by_answer_type'][str(t)] = counts['by_answer_type'].get(str(t), 0) + 1
                counts['mx_records_max'] = max(counts['mx_records_max'], len(msg['answers']))
                if t == 16:
                    rd = msg['answers'][0]['rdata']
                    k, p = 0, 0
                    while p < len(rd):
                        p += 1 + rd[p]
                        k += 1
                    counts['txt_strings_max'] = max(counts['txt_strings_max'], k)
            else:
                counts['queries'] += 1
        if h not in seen:
            seen[h] = verdict
            pcases.append('P ' + h)
            pwant.append(verdict)
    # ---- stage 3: corpus of malformed / wellformed messages, mutants of real datagrams
    mal = corpus_lines('malformed')
    wel = corpus_lines('wellformed')
    spec = dict(malformed_corpus=len(mal), wellformed_corpus=len(wel), mutants=0, mutants_required_malformed=0, mutants_accepted_by_both=0)
    scases, swant, sreq = [], [], []
    for l in mal:
        scases.append(l)
        swant.append(py_verdict(bytes.fromhex(l.split(' ')[1])))
        sreq.append('MALFORMED')
    for l in wel:
        scases.append(l)
        swant.append(py_verdict(bytes.fromhex(l.split(' ')[1])))
        sreq.append('OK')
    if not rep.violations:
        pool = [(h, m) for h, m, c in emitted if m['indom']]
        nmut = 250 if rep.tier == 'quick' else 3000
        for h, m in (rng.sample(pool, min(nmut, len(pool))) if pool else []):
            dg = bytes.fromhex(h)
            if len(dg) > 3000 and rng.randrange(4):
                continue
            msg = wirelib.parse_msg(dg)
            for mb, must, lbl in mutants(dg, msg, rng):
                scases.append('P ' + mb.hex())
                v = py_verdict(mb)
                swant.append(v)
                sreq.append('MALFORMED' if must else None)
                spec['mutants'] += 1
                spec['mutants_required_malformed'] += 1 if must else 0
                if v != 'MALFORMED':
                    spec['mutants_accepted_by_both'] += 1
    for l, v, r in zip(scases, swant, sreq):
        if r == 'MALFORMED' and v != 'MALFORMED':
            ctx.broken.append(('spec-parser', 'the Python strict parser accepts a message that must be rejected: %s' % l[:200]))
            break
        if r == 'OK' and not v.startswith('OK'):
            ctx.broken.append(('spec-parser', 'the Python strict parser rejects a legal hand-written message: %s' % l[:200]))
            break
    # ---- model side: emitters (byte equality) and the extracted parser
    validated = 0
    if ctx.model and 'wire' in ctx.exe and not rep.violations:
        for tag, cases, meta, diff in groups:
            if not diff or not cases:
                continue
            rc, mod, err = vlib.parallel_run_cases(ctx.model, cases, ctx.work, 'model-' + tag)
            d = vlib.first_diff(cases, impl_out[tag], mod)
            if d is not None:
                ctx.broken.append(('correspondence', 'model emitter and implementation disagree on case %r: impl=%r model=%r' % (
                    cases[d][:300], impl_out[tag][d][:300], mod[d][:300])))
                break
            validated += len(cases)
        rc, pm, err = vlib.parallel_run_cases(ctx.model, pcases, ctx.work, 'model-p')
        d = vlib.first_diff(pcases, pwant, pm)
        if d is not None:
            dgm = [(m, c) for h, m, c in emitted if 'P ' + h == pcases[d]][0]
            if pm[d] == 'MALFORMED' and dgm[0]['indom']:
                rep.add_violation('malformed-coq:%s' % key_of(dgm[0]),
                                  'the extracted specification parser wf_msg rejects an emitted datagram',
                                  dict(kind='input', driver='wire', case=dgm[1][:100000], observed=pcases[d][:4000], expected='wf_msg = Some _'))
            else:
                ctx.broken.append(('spec-parser', 'extracted wf_msg and the Python parser disagree on %s: coq=%r python=%r' % (
                    pcases[d][:300], pm[d][:300], pwant[d][:300])))
        else:
            validated += len(pcases)
        rc, sm, err = vlib.parallel_run_cases(ctx.model, scases, ctx.work, 'model-s')
        d = vlib.first_diff(scases, swant, sm)
        if d is not None:
            ctx.broken.append(('spec-parser', 'extracted wf_msg and the Python parser disagree on a malformed/mutated message %s: coq=%r python=%r' % (
                scases[d][:300], sm[d][:300], swant[d][:300])))
        else:
            validated += len(scases)
    if 'wire' in ctx.san and not rep.violations:
        sub = (kc + ec)[::5] + wc[::5] + nc[::3] + hc
        rc, sl, err = vlib.parallel_run_cases(ctx.san['wire'], sub, ctx.work, 'san')
        rep.cov['sanitizer_cases'] = len(sub)
        if rc != 0:
            idx = next((i for i, l in enumerate(sl) if l == '<NO-OUTPUT>'), None)
            rep.add_violation('sanitizer', 'ASan/UBSan report: ' + err[-400:],
                              dict(kind='input', driver='wire.san', case=sub[idx][:100000] if idx is not None else None, observed=err[-2000:]))
    stats.update(spec)
    rep.cov['input_distribution'] = stats
    rep.cov['emitted'] = counts
    rep.cov['evaluations'] = allcases + len(pcases) + len(scases)
    rep.cov['distinct_nontrivial'] = len(seen)
    rep.cov['traces_validated_against_impl'] = validated
    rep.cov['samples'] = [c[:300] for c in (kc[:1] + ec[40:41] + wc[:1] + wc[-1:] + nc[:1] + nc[-1:] + hc[:1] + pcases[:1] + scases[:2])]
    os.environ.pop('VERIF_FULL', None)
    if not rep.violations:
        ctx.report_broken()
    return rep


def key_of(m):
    if m['k'] in ('W', 'H'):
        return '%s/%s' % (m['k'], TYNUM.get(m['ty'], m['ty'])) + ('/' + m['ce'] if 'ce' in m else '')
    if m['k'] == 'N':
        return 'N/' + m['expect']
    if m['k'] == 'K':
        return 'K/kind%d' % m['kind']
    return m['k']


def meta_from_case(c):
    """metadata for a corpus line (same fields the generators record)"""
    t = c.split(' ')
    try:
        if t[0] == 'W':
            return dict(k='W', ty=int(t[1]), ce=chr(int(t[2])), id=int(t[3]), name=cname(t[5]), n=0, indom=in_domain_name(cname(t[5])))
        if t[0] == 'E':
            nm = cname(t[4])
            return dict(k='E', ty=int(t[1]), id=int(t[2]), edns=int(t[3]), name=nm, indom=in_domain_name(nm))
        if t[0] == 'K':
            return dict(k='K', L=int(t[2]), edns=int(t[3]), dom=bytes.fromhex(t[4]), kind=int(t[6]), a=[int(x) for x in t[7:12]], indom=True)
        if t[0] == 'N':
            nm = cname(t[6])
            ty = int(t[1])
            low = nm.lower()
            under = low == DOMAIN or low.endswith(b'.' + DOMAIN)
            if ty == 2 and under:
                e = 'ns'
            elif ty == 1 and low == b'ns.' + DOMAIN:
                e = 'a-ns'
            elif ty == 1 and low == b'www.' + DOMAIN:
                e = 'a-www'
            elif under and ty in TYNUM:
                return dict(k='H', ty=ty, id=int(t[2]), name=nm, indom=in_domain_name(nm))
            else:
                e = 'none'
            return dict(k='N', ty=ty, id=int(t[2]), fam=int(t[3]), dest=bytes.fromhex(t[4]) if t[4] != '-' else b'',
                        nsip=bytes.fromhex(t[5]) if t[5] != '-' else None, name=nm, expect=e, indom=in_domain_name(nm))
    except (ValueError, IndexError):
        return None
    return None


def cname(h):
    b = bytes.fromhex(h) if h != '-' else b''
    return b.split(b'\0')[0]


def replay(rp):
    os.environ['VERIF_FULL'] = '1'
    if rp.get('kind') == 'history':
        import c14
        return c14.replay(rp)
    rep = vlib.Report('C10', 'quick', rp.get('seed', 1))
    ctx = vlib.prepare(rep, harnesses={'wire': WIRE}, sanitize=False, prove_it=False, model='WIRE')
    case = rp.get('case')
    if not case:
        print('replay names a broken obligation, not an input:', rp.get('broken'))
        return 1
    cp = os.path.join(ctx.work, 'replay.cases')
    open(cp, 'w').write(case + '\n')
    rc, impl, err = vlib.run_cases(ctx.exe['wire'], cp)
    print('case :', case[:300])
    print('impl :', impl[0][:600] if impl else err)
    if ctx.model:
        rc2, mod, err2 = vlib.run_cases(ctx.model, cp)
        print('model:', mod[0][:600] if mod else err2)
    bad = 0
    m = meta_from_case(case)
    dgs = datagrams_of(m['k'] if m else case.split(' ')[0], impl[0]) if impl else None
    if dgs is None:
        print('oracle: no result / crash')
        return 1
    if m and m['k'] == 'N' and len(dgs) != expected_count(m):
        print('oracle: expected %d auxiliary answer(s), got %d' % (expected_count(m), len(dgs)))
        bad = 1
    for h in dgs:
        dg = bytes.fromhex(h)
        try:
            msg = wirelib.parse_msg(dg)
            why = oracle(m, dg, msg) if m and m['indom'] else None
            print('python parser:', wirelib.model_p_line(msg)[:300])
        except (wirelib.Malformed, IndexError) as e:
            why = 'not a well-formed RFC 1035 message: %s' % e
            if m and not m['indom']:
                print('(outside the quantifier) ' + why)
                why = None
        if ctx.model:
            open(cp, 'w').write('P ' + h + '\n')
            rc2, mod, err2 = vlib.run_cases(ctx.model, cp)
            print('wf_msg       :', mod[0][:300] if mod else err2)
            if mod and mod[0] == 'MALFORMED' and m and m['indom'] and not why:
                why = 'extracted wf_msg rejects the datagram'
        print('oracle:', why or 'ok')
        if why:
            bad = 1
    return bad
