"""C18 -- tunnel address pool: distinct in-subnet addresses, never the server's; lookup by
tunnel address finds exactly the live logged-in owner.
Proof: coq/Properties_C18.v (UsersProofs.v over the model Users.v).  Correspondence: the real
init_users / find_user_by_ip / find_available_user of src/user.c (virtual clock) vs the
extracted model.  Implementation oracle (independent of the model, written from the property
text): count = min(16, size-3); every address inside the server's subnet, not network /
broadcast / server address, pairwise distinct; lookup returns a live logged-in owner or -1 iff
there is none; allocation hands out free slots only and exactly `count` sessions."""
import os, sys
import vlib
import srvlib

USERS = 16          # property text: min(16, subnet size - 3)
TIMEOUT = 60        # property text / DESIGN: "last_pkt + 60 > now"


def bswap(x):
    return int.from_bytes(x.to_bytes(4, 'big'), 'little')


def dotted(h):
    return '%d.%d.%d.%d' % (h >> 24, (h >> 16) & 255, (h >> 8) & 255, h & 255)


def host(a, b, c, d):
    return (a << 24) | (b << 16) | (c << 8) | d


# base addresses (host order) whose low bits are replaced by the host position; the last octets
# are chosen so that /25../30 networks have zero, all-ones and mixed low-octet network parts
BASES5 = [host(0, 0, 0, 0), host(10, 0, 0, 0), host(127, 0, 0, 0), host(192, 168, 255, 252), host(255, 255, 255, 252)]
BASES_EXTRA = [host(172, 16, 85, 84), host(10, 170, 170, 168), host(1, 2, 3, 128)]


def addr(base, nb, pos):
    size = 1 << (32 - nb)
    return (base & ~(size - 1) & 0xffffffff) | pos


def boundary_positions(nb, rng, nrand):
    size = 1 << (32 - nb)
    cnt = min(USERS, size - 3)
    ps = set(range(0, 21))
    ps |= {cnt - 1, cnt, cnt + 1, cnt + 2, cnt + 3, size - 1, size - 2, size - 3, size - 4, size // 2, size // 2 - 1,
           255, 256, 257, 511, 512, 65535, 65536, 65537}
    for _ in range(nrand):
        ps.add(rng.randrange(size))
    return sorted(p for p in ps if 0 <= p < size)


def user_rec(a, au, d, lp, tip):
    return '%d %d %d %d %d' % (a, au, d, lp, tip)


def gen_cases(seed, tier):
    rng = vlib.rng_for(seed, 'c18')
    cases = []
    stats = dict(corpus=0, init_boundary=0, init_exhaustive=0, init_random=0, lifecycle=0, lookup_single_fault=0,
                 lookup_random=0, alloc_random=0, netmasks='8..30', exhaustive_netmasks='')
    cp = os.path.join(vlib.VERIF, 'corpus', 'C18')
    if os.path.isdir(cp):
        for fn in sorted(os.listdir(cp)):
            for l in open(os.path.join(cp, fn)):
                l = l.strip()
                if l and not l.startswith('#'):
                    cases.append(l)
                    stats['corpus'] += 1
    # the unit-test configuration and friends
    for a, nb in ((host(127, 0, 0, 1), 27), (host(10, 0, 0, 1), 27), (host(192, 168, 0, 1), 30), (host(10, 0, 0, 5), 27)):
        cases.append('I %d %d' % (bswap(a), nb))
        cases.append('P %d %d 1000000' % (bswap(a), nb))
    seen = set()

    def add_init(base, nb, pos, kind):
        h = addr(base, nb, pos)
        key = (h, nb)
        if key in seen:
            return
        seen.add(key)
        cases.append('I %d %d' % (bswap(h), nb))
        stats[kind] += 1

    bases = BASES5 + BASES_EXTRA
    # boundary positions for every netmask x every base
    for nb in range(8, 31):
        for base in bases:
            for pos in boundary_positions(nb, rng, 6 if tier == 'quick' else 40):
                add_init(base, nb, pos, 'init_boundary')
    # exhaustive host positions
    if tier == 'thorough':
        ex_range, ex_bases = range(16, 31), BASES5
    else:
        ex_range, ex_bases = range(22, 31), [BASES5[3], BASES_EXTRA[0]]
    stats['exhaustive_netmasks'] = '%d..%d x %d bases' % (ex_range[0], ex_range[-1], len(ex_bases))
    for nb in ex_range:
        for base in ex_bases:
            for pos in range(1 << (32 - nb)):
                add_init(base, nb, pos, 'init_exhaustive')
    # random server addresses, all netmasks
    for _ in range(3000 if tier == 'quick' else 60000):
        nb = rng.randrange(8, 31)
        h = rng.getrandbits(32)
        if rng.randrange(3) == 0:   # server inside the pool
            h = addr(h, nb, rng.randrange(0, min(20, 1 << (32 - nb))))
        add_init(h, nb, h & ((1 << (32 - nb)) - 1), 'init_random')
    # whole life cycle on a subset
    for nb in range(8, 31):
        for base in (bases if tier == 'thorough' else bases[3:6]):
            for pos in boundary_positions(nb, rng, 2):
                if tier == 'quick' and pos > 20 and rng.randrange(3):
                    continue
                cases.append('P %d %d %d' % (bswap(addr(base, nb, pos)), nb, rng.choice([61, 1000, 1000000, 1700000000])))
                stats['lifecycle'] += 1
    # lookup: one owner, exactly one condition toggled / clock at the 60 s boundary
    pool = [bswap(host(10, 0, 0, d)) for d in range(2, 18)]
    for slot in (0, 1, 7, 15):
        for now in (1000, 1000000, 1700000000):
            for (a, au, d, dt) in ((1, 1, 0, 0), (0, 1, 0, 0), (1, 0, 0, 0), (1, 1, 1, 0), (1, 1, 0, -59), (1, 1, 0, -60),
                                   (1, 1, 0, -61), (1, 1, 0, 1), (2, 1, 0, -59), (1, 256, 0, -1), (1, 1, 2, 0), (1, 1, 0, -1000),
                                   (0, 0, 0, 0), (0, 0, 1, -60), (2147483647, 2147483647, 0, -59)):
                recs = []
                for i in range(16):
                    if i == slot:
                        recs.append(user_rec(a, au, d, now + dt, pool[i]))
                    else:
                        recs.append(user_rec(1, 1, 0, now, pool[i]))
                cases.append('F %d %d 16 %s' % (now, pool[slot], ' '.join(recs)))
                stats['lookup_single_fault'] += 1
    # lookup: random tables with duplicates
    flagv = [0, 1, 1, 1, 0, 1, 2, 256, 2147483647]
    for _ in range(3000 if tier == 'quick' else 60000):
        now = rng.choice([61, 1000, 1000000, rng.randrange(100, 2000000000)])
        n = rng.choice([0, 1, 2, 3, 5, 16, 16, 16, 20, rng.randrange(0, 21)])
        nips = rng.choice([1, 2, 3, 4, 16])
        ipset = [rng.choice(pool) for _ in range(nips)] if rng.randrange(4) else [rng.getrandbits(32) for _ in range(nips)]
        recs = []
        for i in range(n):
            lp = max(0, now + rng.choice([-61, -60, -59, -59, 0, 0, -1, -1000, 1, 5, -now]))
            d = rng.choice([0, 0, 0, 0, 1, 3])
            recs.append(user_rec(rng.choice(flagv), rng.choice(flagv), d, lp, rng.choice(ipset)))
        q = rng.choice(ipset) if rng.randrange(5) else rng.getrandbits(32)
        cases.append(('F %d %d %d %s' % (now, q, n, ' '.join(recs))).rstrip())
        stats['lookup_random'] += 1
    # allocation: random tables, m successive calls
    for _ in range(1500 if tier == 'quick' else 30000):
        now = rng.choice([61, 1000, 1000000, rng.randrange(100, 2000000000)])
        n = rng.choice([0, 1, 2, 5, 16, 16, rng.randrange(0, 21)])
        recs = []
        for i in range(n):
            lp = max(0, now + rng.choice([-61, -60, -59, 0, -1, -1000, 1, -now]))
            recs.append(user_rec(rng.choice(flagv), rng.choice([0, 1]), rng.choice([0, 0, 0, 1, 2]), lp, pool[i % 16]))
        m = max(1, rng.choice([1, 2, n, n + 1, n + 2]))
        cases.append(('A %d %d %d %s' % (now, m, n, ' '.join(recs))).rstrip())
        stats['alloc_random'] += 1
    return cases, stats


# ------------------------------------------------------------------------------------------
# implementation-level oracle, from the property text

def parse_table(nums):
    return [tuple(nums[i:i + 5]) for i in range(0, len(nums), 5)]


def is_live(u, now):
    a, au, d, lp, tip = u
    return a != 0 and au != 0 and d == 0 and lp + TIMEOUT > now


def is_free(u, now):
    a, au, d, lp, tip = u
    return (a == 0 or lp + TIMEOUT < now) and d == 0


def check_pool(my_le, nb, count, ips):
    """the address-pool part of the property on the values the C stored"""
    size = 1 << (32 - nb)
    want = min(USERS, size - 3)
    if count != want:
        return 'init_users:count', 'usercount %d, property says min(16, %d - 3) = %d' % (count, size, want)
    if len(ips) != count:
        return 'init_users:count', '%d addresses for usercount %d' % (len(ips), count)
    sh = bswap(my_le)
    mask = ~(size - 1) & 0xffffffff
    net = sh & mask
    bc = net | (size - 1)
    hs = [bswap(x) for x in ips]
    for i, h in enumerate(hs):
        if h & mask != net:
            return 'init_users:outside-subnet', 'slot %d gets %s, outside %s/%d' % (i, dotted(h), dotted(net), nb)
        if h == net or h == bc:
            return 'init_users:net-or-broadcast', 'slot %d gets %s, the %s address of %s/%d' % (
                i, dotted(h), 'network' if h == net else 'broadcast', dotted(net), nb)
        if h == sh:
            return 'init_users:server-address', "slot %d gets the server's own address %s (/%d)" % (i, dotted(h), nb)
    if len(set(hs)) != len(hs):
        dup = [dotted(h) for h in hs if hs.count(h) > 1][0]
        return 'init_users:duplicate', 'address %s assigned to two slots (server %s/%d)' % (dup, dotted(sh), nb)
    return None


def oracle(case, out):
    """returns None or (key, description)"""
    t = case.split(' ')
    if out == '<NO-OUTPUT>' or out == '' or 'UNKNOWN' in out:
        return 'harness', 'no result / crash: %r' % out
    if t[0] == 'I':
        my_le, nb = int(t[1]), int(t[2])
        if out == 'REFUSED':
            return 'init_users:refused', 'netmask /%d refused' % nb
        if 'RET-MISMATCH' in out or 'BAD-INIT-STATE' in out:
            return 'init_users:state', 'return value / initial slot state wrong: ' + out[:120]
        v = [int(x) for x in out.split(' ')]
        return check_pool(my_le, nb, v[0], v[1:])
    if t[0] == 'F':
        now, ip, n = int(t[1]), int(t[2]), int(t[3])
        us = parse_table([int(x) for x in t[4:]])
        r = int(out)
        owners = [i for i, u in enumerate(us) if u[4] == ip and is_live(u, now)]
        if r == -1:
            if owners:
                return 'find_user_by_ip:missed', 'live logged-in session %d owns the address but lookup returned -1' % owners[0]
            return None
        if not (0 <= r < n):
            return 'find_user_by_ip:range', 'lookup returned %d for a table of %d' % (r, n)
        if us[r][4] != ip:
            return 'find_user_by_ip:wrong-owner', 'lookup returned slot %d whose address differs' % r
        if not is_live(us[r], now):
            a, au, d, lp, _ = us[r]
            slug, why = (('inactive', 'inactive') if a == 0 else ('unauthenticated', 'not authenticated') if au == 0 else
                         ('disabled', 'disabled') if d != 0 else ('stale', 'silent for %d s' % (now - lp)))
            return 'find_user_by_ip:not-live:' + slug, 'lookup returned slot %d which is %s' % (r, why)
        if r != owners[0]:
            return 'find_user_by_ip:order', 'lookup returned slot %d, not the first live owner %d' % (r, owners[0])
        return None
    if t[0] == 'A':
        now, m, n = int(t[1]), int(t[2]), int(t[3])
        us = [list(u) for u in parse_table([int(x) for x in t[4:]])]
        left, right = out.split(' | ')
        rs = [int(x) for x in left.split(' ')]
        if len(rs) != m:
            return 'find_available_user:harness', 'expected %d results' % m
        for r in rs:
            free = [i for i, u in enumerate(us) if is_free(u, now)]
            if r == -1:
                if free:
                    return 'find_available_user:missed', 'slot %d is free but allocation was refused' % free[0]
                continue
            if not (0 <= r < n) or not is_free(us[r], now):
                return 'find_available_user:takeover', 'allocation handed out slot %d which is in use or disabled' % r
            if r != free[0]:
                return 'find_available_user:order', 'allocation returned slot %d, first free is %d' % (r, free[0])
            us[r][0], us[r][1], us[r][3] = 1, 0, now
        fin = '-' if not us else ' '.join('%d:%d:%d:%d:%d' % tuple(u) for u in us)
        if fin != right:
            return 'find_available_user:state', 'table after allocation differs: %s' % right[:100]
        return None
    if t[0] == 'P':
        my_le, nb, now = int(t[1]), int(t[2]), int(t[3])
        if out == 'REFUSED':
            return 'init_users:refused', 'netmask /%d refused' % nb
        a, b, c = out.split(' | ')
        av = [int(x) for x in a.split(' ')]
        cnt, rs = av[0], av[1:]
        want = min(USERS, (1 << (32 - nb)) - 3)
        created = [r for r in rs if r != -1]
        if cnt != want or len(created) != want or len(set(created)) != len(created) or rs[len(created):] != [-1] * (len(rs) - len(created)):
            return 'sessions:count', 'server created %d sessions (%s), property says %d' % (len(created), a, want)
        fs = [int(x) for x in b.split(' ')] if b.strip() else []
        if fs != list(range(want)):
            return 'sessions:lookup', 'looking the assigned addresses up gives %s, not 0..%d' % (b, want - 1)
        if int(c) != -1:
            return 'sessions:server-address', "the server's own address is owned by session %s" % c
        return None
    return 'harness', 'unknown case'


def shrink_case(case):
    return case if len(case) < 600 else case[:600] + '...(truncated)'


def nontrivial(case):
    t = case.split(' ')
    return not (t[0] in ('F', 'A') and t[3] == '0')


def run_all(rep, ctx, cases):
    impl = None
    if 'pure' in ctx.exe:
        rc, impl, err = vlib.parallel_run_cases(ctx.exe['pure'], cases, ctx.work, 'impl')
        if rc != 0:
            ctx.broken.append(('impl-crash', 'implementation harness exited with %d: %s' % (rc, err[-300:])))
        seen_keys = set()
        for c, o in zip(cases, impl):
            try:
                res = oracle(c, o)
            except (ValueError, IndexError) as e:
                res = ('harness', 'unparsable result %r (%s)' % (o[:100], e))
            if res and res[0] not in seen_keys:
                seen_keys.add(res[0])
                rep.add_violation(res[0], res[1], dict(kind='input', driver='pure', case=c, observed=o, expected=res[1]))
                if len(seen_keys) >= 4:
                    break
        if 'pure' in ctx.san:
            sub = cases[:20000]
            rc, sl, err = vlib.parallel_run_cases(ctx.san['pure'], sub, ctx.work, 'san')
            rep.cov['sanitizer_cases'] = len(sub)
            if rc != 0:
                idx = next((i for i, l in enumerate(sl) if l == '<NO-OUTPUT>'), None)
                rep.add_violation('sanitizer', 'ASan/UBSan report in user.c: ' + err[-400:],
                                  dict(kind='input', driver='pure.san', case=sub[idx] if idx is not None else None,
                                       observed=err[-2000:]))
    if ctx.model and impl is not None:
        rc, mod, err = vlib.parallel_run_cases(ctx.model, cases, ctx.work, 'model')
        d = vlib.first_diff(cases, impl, mod)
        rep.cov['traces_validated_against_impl'] = len(cases) if d is None else d
        if d is not None:
            ctx.broken.append(('correspondence', 'model and implementation disagree on case %r: impl=%r model=%r' % (
                shrink_case(cases[d]), impl[d][:200], mod[d][:200])))
    return impl


def check(rep):
    import mainlib
    ctx = vlib.prepare(rep, harnesses={'pure': vlib.pure_harness('C18'), 'srvmain': mainlib.SRVMAIN, 'srv': srvlib.SRV}, sanitize=(rep.tier == 'thorough'))
    cases, stats = gen_cases(rep.seed, rep.tier)
    rep.cov['rule'] = ('corpus first; init_users: every netmask 8..30 x 8 base addresses x boundary host positions (0..20, around '
                       'usercount, first/last host, network and broadcast position, 255/256/257, 65535..65537) + random positions, '
                       'exhaustive host positions for /22../30 (quick) or /16../30 x 5 upper-octet patterns (thorough), random '
                       '32-bit servers; life cycle init->allocate until refused->authenticate->look every address up; '
                       'find_user_by_ip: full tables with exactly one condition toggled and last_pkt at now-61..now-59, random '
                       'tables with duplicate addresses and non-0/1 flag values; find_available_user: random tables, repeated '
                       'calls. distinct = distinct case lines; non-trivial = non-empty table / any init case')
    rep.cov['input_distribution'] = stats
    rep.cov['evaluations'] = len(cases)
    rep.cov['distinct_nontrivial'] = len(set(c for c in cases if nontrivial(c)))
    n = len(cases)
    rep.cov['samples'] = [shrink_case(c) for c in (cases[0:3] + cases[n // 3:n // 3 + 2] + cases[-3000:-2998] + cases[-2:])]
    rep.cov['exhaustive'] = False
    rep.cov['exhaustive_part'] = ('host positions of %s; everything else sampled' % stats['exhaustive_netmasks'])
    run_all(rep, ctx, cases)
    startup_stage(rep, ctx)
    login_reply_stage(rep, ctx)
    if not rep.violations:
        ctx.report_broken()
    return rep


def login_reply_stage(rep, ctx):
    """the address a session is assigned is what the server TELLS the client in the login reply "server-client-mtu-netmask":
    every slot of a server is taken and logged in through the real 'V' and 'L' handlers (server-history harness); the client
    addresses read from the replies must be distinct host addresses of the server's subnet, none the server's own, the network
    or the broadcast address, the server field the server's address and the netmask field the configured one; then model ==
    implementation per event.  Server addresses include ones whose dotted form has the full 15 characters."""
    if 'srv' not in ctx.exe:
        return
    import re
    rng = vlib.rng_for(rep.seed, 'c18-login')
    cfgs = []
    for ip in ('10.0.0.1', '192.168.100.200', '172.116.200.129', '100.100.100.100', '203.113.255.254', '10.9.8.7', '255.255.255.129', '198.51.100.130'):
        for nb in (8, 16, 24, 25, 27, 28, 29, 30):
            cfgs.append((ip, nb))
    if rep.tier == 'quick':
        cfgs = [c for k, c in enumerate(cfgs) if k % 2 == 0 or c[0] in ('192.168.100.200', '100.100.100.100')]
    hs, meta = [], []
    for ip, nb in cfgs:
        g = srvlib.HistGen(rng, adversarial=0.0)
        g.no_case_relay = True
        g.set_net(ip, nb)
        g.qtype = rng.choice(g.QTYPES)
        logins = {}
        # every other server sees all its clients through one relay / NAT: the same source address, different ports
        same_src = (len(hs) % 2 == 1)
        for k in range(g.nusers):
            s = srvlib.Session(g, (4, bytes([192, 0, 2, 20 + (0 if same_src else k)]), 5000 + k))
            g.version(s)
            g.login(s)
            logins[len(g.events) - 1] = '2:%s:%d' % (s.addr[1].hex(), s.addr[2])
        hs.append('H ' + g.cfg() + ' ; ' + ' ; '.join(g.events))
        meta.append((ip, nb, logins, g.mtu))
    os.environ['VERIF_FULL'] = '1'
    try:
        rc, impl, err = vlib.parallel_run_cases(ctx.exe['srv'], hs, ctx.work, 'loginreply-impl')
        ok, model, lg = vlib.build_model_driver('SRV')
        mod = None
        if ok:
            rc2, mod, err2 = vlib.parallel_run_cases(model, hs, ctx.work, 'loginreply-model')
    finally:
        os.environ.pop('VERIF_FULL', None)
    if rc != 0:
        ctx.broken.append(('impl-crash', 'server history harness exited with %d: %s' % (rc, err[-300:])))
    send_re = re.compile(r'^(\d+):([0-9a-f]*):(\d+)=([0-9a-f]+|-)\{(-?\d+):([0-9a-f]*|-)\}$')
    nrep = 0
    for h, (ip, nb, logins, mtu), o in zip(hs, meta, impl):
        segs = o.split(' ; ')
        a, b, c, d = [int(x) for x in ip.split('.')]
        host = (a << 24) | (b << 16) | (c << 8) | d
        size = 1 << (32 - nb)
        net = host - host % size
        seen = {}
        bad = None
        for idx, who in logins.items():
            txt = None
            for t in (segs[idx] if idx < len(segs) else '').split(' | ')[0].split(' ')[1:]:
                m = send_re.match(t)
                if m and '%s:%s:%s' % (m.group(1), m.group(2), m.group(3)) == who and m.group(6) not in ('-', ''):
                    txt = bytes.fromhex(m.group(6))
            f = txt.split(b'-') if txt else []
            try:
                srv_a, cli_a = [sum(int(x) << s for x, s in zip(p.split(b'.'), (24, 16, 8, 0))) if p.count(b'.') == 3 else None for p in f[:2]]
                got_mtu, got_nb = int(f[2]), int(f[3])
            except Exception:
                bad = (idx, 'the login reply %r is not "server-client-mtu-netmask"' % txt)
                break
            nrep += 1
            why = None
            if srv_a != host:
                why = 'server field %r is not the server address %s' % (f[0], ip)
            elif cli_a is None or not (net < cli_a < net + size - 1):
                why = 'client address %r is not a host address of %s/%d' % (f[1], ip, nb)
            elif cli_a == host:
                why = 'client address %r is the server\'s own' % f[1]
            elif cli_a in seen:
                why = 'client address %r was already given to the session of event %d' % (f[1], seen[cli_a])
            elif got_nb != nb or got_mtu != mtu:
                why = 'mtu/netmask fields %r-%r, configured %d-%d' % (f[2], f[3], mtu, nb)
            if why:
                bad = (idx, why)
                break
            seen[cli_a] = idx
        if bad:
            idx, why = bad
            evs = h.split(' ; ')
            rep.add_violation('login-reply:address', 'server %s/%d, login of the session %s: %s' % (ip, nb, logins[idx], why),
                              dict(kind='history', driver='srv', case=' ; '.join(evs[:idx + 2]), event=idx, observed=(segs[idx] if idx < len(segs) else '')[:600]))
            break
    if mod is not None:
        dd = vlib.first_diff(hs, impl, mod)
        if dd is not None:
            ea, eb = impl[dd].split(' ; '), mod[dd].split(' ; ')
            k = next((j for j, (x, y) in enumerate(zip(ea, eb)) if x != y), min(len(ea), len(eb)))
            ctx.broken.append(('correspondence', 'login-reply stage: server model and the real server disagree at event %d of %r: impl=%r model=%r' % (
                k, hs[dd][:1500], ea[k][:300] if k < len(ea) else '', eb[k][:300] if k < len(eb) else '')))
    rep.cov['login_replies'] = dict(servers=len(hs), replies_checked=nrep)
    rep.cov['evaluations'] = rep.cov.get('evaluations', 0) + sum(h.count(' ; ') for h in hs)
    rep.cov['rule'] += ('. Login-reply stage: %d servers (addresses with 7..15 characters in dotted form x netmasks 8..30), every slot taken and logged '
                        'in through the real handlers (for every other server all clients arrive from one source address, as through a relay): the client address in each reply is a distinct host address of the subnet, not the server\'s' % len(hs))


def startup_stage(rep, ctx):
    """the netmask range check lives in main() of iodined.c: the real main() on a scripted command line (harness/h_mainargs.inc,
    run up to open_tun) accepts a tunnel address a.b.c.d/N exactly for N in 8..30 and then creates min(16, 2^(32-N) - 3)
    sessions; the same verdict and count as the model (Users.netmask_accepted, Users.init_users)"""
    if 'srvmain' not in ctx.exe:
        return
    import mainlib
    rng = vlib.rng_for(rep.seed, 'c18-main')
    args = []
    for base in ('10.0.0.1', '192.168.99.77', '172.16.0.200', '10.255.255.254'):
        for nb in list(range(-2, 41)) + [64, 255, 256, 65544]:
            args.append((base, '%s/%d' % (base, nb), nb))
    args += [('10.0.0.1', '10.0.0.1', 27), ('10.0.0.1', '10.0.0.1/', 0), ('10.0.0.1', '10.0.0.1/x', 0), ('10.0.0.1', '10.0.0.1/27x', 27),
             ('10.0.0.1', '10.0.0.1/ 9', 9), ('10.0.0.1', '10.0.0.1/030', 30), ('10.0.0.1', '10.0.0.1/+8', 8)]
    lines = [mainlib.aline([b'-f', b'-P', b'pw', b'--', a.encode(), b't.example.com']) for _, a, _ in args]
    rc, out, err = vlib.parallel_run_cases(ctx.exe['srvmain'], lines, ctx.work, 'srvmain')
    if rc != 0:
        ctx.broken.append(('impl-crash', 'main() harness exited with %d: %s' % (rc, err[-300:])))
    mod = None
    if ctx.model:
        ml = ['I %d %d' % (int.from_bytes(bytes(int(x) for x in b.split('.')), 'little'), max(nb, 0)) for b, _, nb in args]
        rc2, mod, err2 = vlib.parallel_run_cases(ctx.model, ml, ctx.work, 'model-main')
    acc = 0
    for i, ((b, a, nb), l, o) in enumerate(zip(args, lines, out)):
        got = o.startswith('ACCEPT')
        exp = 8 <= nb <= 30
        acc += got
        users = None
        if got:
            f = dict(x.split('=', 1) for x in o.split(' ') if '=' in x)
            users = int(f.get('users', -1))
        if got != exp:
            rep.add_violation('startup:netmask-%s' % ('accepted' if got else 'refused'), 'main() of iodined %s the tunnel address %s (netmask %d); '
                              'the property is about netmasks /8../30, which must be usable, and no other is' % ('accepts' if got else 'refuses', a, nb),
                              dict(kind='input', driver='iodined-main', case=l, observed=o, expected='ACCEPT' if exp else 'REJECT'))
            break
        if got and users != min(16, (1 << (32 - nb)) - 3):
            rep.add_violation('startup:sessions:count', 'main() of iodined with %s creates %s sessions, min(16, subnet size - 3) = %d' % (
                a, users, min(16, (1 << (32 - nb)) - 3)), dict(kind='input', driver='iodined-main', case=l, observed=o))
            break
        if mod is not None and nb >= 0:
            mref = mod[i] == 'REFUSED'
            if mref == got or (got and int(mod[i].split(' ')[0]) != users):
                ctx.broken.append(('correspondence', 'startup stage: main() of iodined on %s: %r, the model (netmask_accepted / init_users): %r' % (
                    a, o, mod[i][:60])))
                break
    rep.cov['startup'] = dict(command_lines=len(lines), accepted=acc)
    rep.cov['evaluations'] = rep.cov.get('evaluations', 0) + len(lines)
    rep.cov['rule'] += ('. Startup stage: %d command lines a.b.c.d/N (N = -2..40 and beyond, malformed suffixes) through the real main() of '
                        'iodined.c up to open_tun: accepted iff 8 <= N <= 30, sessions created = min(16, 2^(32-N) - 3), same as the model' % len(lines))


def replay(rp):
    rep = vlib.Report('C18', 'quick', rp.get('seed', 1))
    ctx = vlib.prepare(rep, harnesses=('pure',), sanitize=False, prove_it=False)
    case = rp.get('case')
    if not case:
        print('replay names a broken obligation, not an input:', rp.get('broken'))
        return 1
    cp = os.path.join(ctx.work, 'replay.cases')
    open(cp, 'w').write(case + '\n')
    rc, impl, err = vlib.run_cases(ctx.exe['pure'], cp)
    rc2, mod, err2 = vlib.run_cases(ctx.model, cp) if ctx.model else (0, ['-'], '')
    print('case :', shrink_case(case))
    print('impl :', impl[0][:300] if impl else err)
    print('model:', mod[0][:300] if mod else err2)
    res = oracle(case, impl[0]) if impl else ('crash', 'crash')
    print('oracle:', res[1] if res else 'ok')
    return 1 if res else 0
