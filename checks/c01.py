"""C01 -- the tunnel never delivers a packet that was not sent.
Whole-system correspondence: the composed Gallina model (Tunnel.v: Client.v + Server.v + adversarial
network) against the two real programs under the same fault schedules; implementation-level oracle:
every packet written to either tun device is byte-identical to a packet offered earlier at the
peer's tun device."""
import os
import vlib
import syslib
import looplib
import srvlib
import fwdlib


def oracle(hist, gen, out):
    """out: implementation output line produced with VERIF_FULL=1 (full hex)"""
    evs = hist.split(' ; ')[1:]
    outs = out.split(' ; ')
    up = set()
    down = set()
    n_s = n_c = 0
    for i, (e, o) in enumerate(zip(evs, outs)):
        if e.startswith('CU '):
            up.add(e[3:])
        elif e.startswith('SU '):
            down.add(e[3:])
        r = syslib.parse_event_output(o)
        for p in r['srv_tun']:
            n_s += 1
            if p not in up:
                return i, 'server wrote a packet to tun that no client offered (fabricated/corrupted/mis-assembled): %s' % p[:80], n_s, n_c
        for p in r['cli_tun']:
            n_c += 1
            if p not in down:
                return i, 'client wrote a packet to tun that the server side never offered: %s' % p[:80], n_s, n_c
    return None, None, n_s, n_c


def loop_integrity(rep, ctx):
    """the real select loops of both programs in virtual time with the real zlib (looplib.py): nothing may be written to a tun
    device that was not offered at the peer's, and nothing twice, under fault windows with loss / duplication / delay"""
    if 'loopsim' not in ctx.exe:
        return
    n = 800 if rep.tier == 'quick' else 12000
    cases, stats = looplib.gen(rep.seed, n, tag='c01loop')
    res = looplib.run_all(ctx.exe['loopsim'], cases)
    delivered = 0
    for a, (rc, out) in zip(cases, res):
        kind, txt = looplib.classify(rc, out)
        delivered += looplib.counters(out)
        if rc == 1:
            viol = [l for l in out.splitlines() if l.startswith('VIOLATION') and 'garbage' in l]
            if viol:
                rep.add_violation('loop:integrity', 'real select loops in virtual time, real zlib: ' + ' / '.join(viol)[:400],
                                  dict(kind='loop', driver='loopsim', case=' '.join(a), expected='only packets offered at the peer tun (repeats are allowed by C01)'))
                break
    rep.cov['loop_oracle'] = dict(runs=len(cases), distribution=stats, packets_delivered_in_checked_windows=delivered)
    rep.cov['evaluations'] = rep.cov.get('evaluations', 0) + len(cases)


def check(rep):
    ctx = vlib.prepare(rep, harnesses={'sys': syslib.SYS, 'sysreal': syslib.SYS_REAL, 'loopsim': looplib.LOOPSIM, 'srv': srvlib.SRV},
                       sanitize=False, model='SYS')
    loop_integrity(rep, ctx)
    fwdlib.stage(rep, ctx)
    nh, ne = (240, 160) if rep.tier == 'quick' else (3000, 250)
    corpus = []
    cp = os.path.join(vlib.VERIF, 'corpus', 'C01')
    if os.path.isdir(cp):
        for fn in sorted(os.listdir(cp)):
            corpus += [l.strip() for l in open(os.path.join(cp, fn)) if l.strip() and not l.startswith('#')]
    hs, gens, stats = syslib.gen_histories(rep.seed, nh, ne, tag='c01')
    hs2, gens2 = syslib.gen_clean(rep.seed, nh // 4, 60, 6, tag='c01clean')
    allh = corpus + hs + hs2
    allg = [None] * len(corpus) + gens + gens2
    rep.cov['rule'] = ('corpus first; random configurations (7 query types x upstream codec x downstream codec x lazy x fragsize x -M) each with a '
                       'schedule of client/server loop iterations: tun packets on both sides, delivery in or out of order, duplication, drop, relay '
                       're-sends with rewritten DNS id and randomised letter case, time-outs, clock ticks (incl. >60 s); plus fault-prefix/clean-suffix '
                       'schedules. distinct = distinct schedules; non-trivial = schedules in which at least one packet reached a tun device')
    rep.cov['rule'] += ('. Forwarding stage (checks/fwdlib.py): 2-3 scripted sessions on the real server, frames for one recipient from the '
                        'server tun and from the other sessions\' upstream while its downstream is busy (out-queue), the recipient fetching '
                        'fragment by fragment: every stream it reassembles is the framing of one offered frame; then model == implementation')
    rep.cov['input_distribution'] = stats
    rep.cov['evaluations'] = rep.cov.get('evaluations', 0) + sum(h.count(' ; ') for h in allh)
    env = {'VERIF_FULL': '1'}
    delivered = 0
    if 'sys' in ctx.exe and 'sysreal' in ctx.exe:
        os.environ['VERIF_FULL'] = '1'
        # integrity oracle: the real programs with the REAL zlib (its checksum is the last line of defence)
        rc, implf, err = vlib.parallel_run_cases(ctx.exe['sysreal'], allh, ctx.work, 'implfull')
        del os.environ['VERIF_FULL']
        if rc != 0:
            ctx.broken.append(('impl-crash', 'implementation harness exited with %d: %s' % (rc, err[-300:])))
        nontriv = 0
        tot_s = tot_c = 0
        for h, g, o in zip(allh, allg, implf):
            i, why, ns, nc = oracle(h, g, o)
            tot_s += ns
            tot_c += nc
            if ns + nc > 0:
                nontriv += 1
            if why:
                evs = h.split(' ; ')
                rep.add_violation('tun-integrity', why, dict(kind='history', driver='sys', case=' ; '.join(evs[:i + 2]),
                                                              observed=o.split(' ; ')[i][:600], expected='only packets offered at the peer tun'))
                break
        rep.cov['distinct_nontrivial'] = nontriv
        rep.cov['packets_delivered_to_server_tun'] = tot_s
        rep.cov['packets_delivered_to_client_tun'] = tot_c
        rep.cov['samples'] = [allh[0][:300], allh[-1][:300]]
        rc, impl, err = vlib.parallel_run_cases(ctx.exe['sys'], allh, ctx.work, 'impl')
        if ctx.model:
            rc, mod, err = vlib.parallel_run_cases(ctx.model, allh, ctx.work, 'model')
            ok = 0
            for h, a, b in zip(allh, impl, mod):
                if a == b:
                    ok += 1
                    continue
                ea, eb = a.split(' ; '), b.split(' ; ')
                k = next((j for j, (x, y) in enumerate(zip(ea, eb)) if x != y), min(len(ea), len(eb)))
                ctx.broken.append(('correspondence', 'composed model and the two real programs disagree at event %d of schedule %r: impl=%r model=%r' % (
                    k, ' ; '.join(h.split(' ; ')[:k + 2])[-400:], ea[k][:300] if k < len(ea) else '', eb[k][:300] if k < len(eb) else '')))
                break
            rep.cov['traces_validated_against_impl'] = ok
            if any(k == 'correspondence' for k, _ in ctx.broken) and not rep.violations:
                support = framing_search(ctx, allh, allg)
                if support:
                    ctx.broken = [(k, (t + ' || supporting history (zlib replaced by the checksum-less framing codec of the history harness; the code as it is now '
                                   'hands a buffer to uncompress() that is not a packet, where the model of the unchanged code does not; with the real zlib the '
                                   'Adler-32 check may still reject it): ' + support) if k == 'correspondence' else t) for k, t in ctx.broken]
    if not rep.violations:
        ctx.report_broken()
    return rep


def framing_search(ctx, allh, allg):
    """search aid when the correspondence is broken: a schedule on which the implementation (framing codec, no checksum) writes a packet to a tun
    device that was never offered while the extracted model on the same schedule does not"""
    try:
        os.environ['VERIF_FULL'] = '1'
        rc, implf, err = vlib.parallel_run_cases(ctx.exe['sys'], allh, ctx.work, 'framing-impl')
        hits = []
        for h, g, o in zip(allh, allg, implf):
            i, why, ns, nc = oracle(h, g, o)
            if why:
                hits.append((h, i, why))
            if len(hits) >= 8:
                break
        for h, i, why in hits:
            cp = os.path.join(ctx.work, 'framing-model.cases')
            open(cp, 'w').write(h + '\n')
            rc, mod, err = vlib.run_cases(ctx.model, cp)
            if mod:
                j, mwhy, _, _ = oracle(h, None, mod[0])
                if not mwhy:
                    evs = h.split(' ; ')
                    return '%s -- history: %s' % (why, ' ; '.join(evs[:i + 2])[:20000])
        return None
    finally:
        os.environ.pop('VERIF_FULL', None)


def replay(rp):
    if rp.get('kind') == 'loop':
        import c02
        return c02.replay_loop(rp)
    rep = vlib.Report('C01', 'quick', rp.get('seed', 1))
    ctx = vlib.prepare(rep, harnesses={'sys': syslib.SYS_REAL}, sanitize=False, prove_it=False, model='SYS')
    case = rp.get('case')
    if not case:
        print('replay names a broken obligation, not an input:', rp.get('broken'))
        return 1
    cp = os.path.join(ctx.work, 'replay.cases')
    open(cp, 'w').write(case + '\n')
    os.environ['VERIF_FULL'] = '1'
    rc, impl, err = vlib.run_cases(ctx.exe['sys'], cp)
    i, why, ns, nc = oracle(case, None, impl[0]) if impl else (0, 'crash', 0, 0)
    print('schedule:', case[:400])
    print('last event output:', impl[0].split(' ; ')[-1][:600] if impl else err)
    print('oracle:', why or 'ok')
    return 1 if why else 0
