"""srvmon.py -- shared by checks/c15.py and checks/c16.py: server histories (corpus + generated +
targeted scenarios built on srvlib.HistGen), running them on the real iodined (harness/h_srvhist.c)
and on the extracted model, parsing the per-event result lines, and the client-side emulation the
implementation-level monitors need (which query addresses which session, what a ping / data query
acknowledges).  Verdicts are in the checks."""
import os, re
import vlib, srvlib
from srvlib import CB32


# ------------------------------------------------------------------------------------------
# decoding what the generator sent (the monitors read the *inputs* they are given; they never
# look at the model)

B32REV = {c: i for i, c in enumerate(CB32)}
B32REV.update({c - 32: i for i, c in enumerate(CB32) if 97 <= c <= 122})


def b32dec(s):
    bits = 0
    nb = 0
    out = bytearray()
    for ch in s:
        if ch not in B32REV:
            break
        bits = (bits << 5) | B32REV[ch]
        nb += 5
        if nb >= 8:
            out.append((bits >> (nb - 8)) & 255)
            nb -= 8
    return bytes(out)


def parse_query(dg):
    """(id, qtype, name bytes with dots) of a DNS query datagram, or None"""
    if len(dg) < 17 or (dg[2] & 0x80):
        return None
    qid = (dg[0] << 8) | dg[1]
    if ((dg[4] << 8) | dg[5]) < 1:
        return None
    p = 12
    labs = []
    while p < len(dg):
        n = dg[p]
        p += 1
        if n == 0:
            break
        if n & 0xc0:
            return None
        labs.append(dg[p:p + n])
        p += n
    if p + 4 > len(dg):
        return None
    qtype = (dg[p] << 8) | dg[p + 1]
    return qid, qtype, b'.'.join(labs) + b'.'


class QInfo:
    """what a query datagram is, as far as the monitors care"""
    __slots__ = ('id', 'qtype', 'name', 'kind', 'uid', 'ack', 'fs', 'fp_recv', 'src')

    def __init__(self, qid, qtype, name, domain):
        self.id = qid
        self.qtype = qtype
        self.name = name
        self.kind = None      # 'ping' | 'data' | 'N' | other letter
        self.uid = None
        self.ack = None       # (dn_seq, dn_frag) the query acknowledges
        self.fs = None        # requested fragsize of an N request
        self.fp_recv = None   # ping: first 4 decoded bytes of the whole (undotified) name
        self.src = None       # source address token of the event that carried it
        low = name.lower()
        dom = domain.lower() + b'.' if not domain.endswith(b'.') else domain.lower()
        if not low.endswith(b'.' + dom) and low != dom:
            return
        body = name[:len(name) - len(dom) - 1]
        if not body:
            return
        c0 = body[:1].lower()
        und = body.replace(b'.', b'')
        if c0 == b'p':
            d = b32dec(und[1:])
            self.kind = 'ping'
            self.fp_recv = d[:4]
            if len(d) >= 4:
                self.uid = d[0]
                self.ack = (d[1] >> 4, d[1] & 15)      # as the C computes them from a signed char: see monitor
        elif c0 in b'0123456789abcdef':
            self.kind = 'data'
            self.uid = int(c0, 16)
            if len(body) >= 4:
                d2 = B32REV.get(body[2], 0)
                d3 = B32REV.get(body[3], 0)
                self.ack = (d2 & 7, d3 >> 1)
        elif c0 == b'n':
            d = b32dec(und[1:])
            self.kind = 'N'
            if len(d) >= 3:
                self.uid = d[0]
                self.fs = (d[1] << 8) | d[2]
        else:
            self.kind = c0.decode('latin-1')


# ------------------------------------------------------------------------------------------
# result lines

SEND_RE = re.compile(r'^(\d+):([0-9a-f]*):(\d+)=([^{]*)(?:\{(-?\d+):([^}]*)\})?$')


class Send:
    __slots__ = ('fam', 'ip', 'port', 'dgram', 'rv', 'dec')


class UState:
    """fields of one session digest"""
    def __init__(self, txt):
        self.txt = txt
        i, rest = txt.split(':', 1)
        self.slot = int(i)
        self.f = {}
        for part in rest.split(','):
            if part:
                self.f[part[0]] = part[1:]

    def fragsize(self):
        return int(self.f['F'])

    def I(self):
        return self.f.get('I')

    def O(self):
        return self.f.get('O')

    def outpkt(self):
        """(len, offset, sentlen, seqno, fragment) of the out-packet"""
        v = self.f['O'].split('/')
        return tuple(int(x) for x in v[:5])

    def queue(self):
        return self.f.get('U')


class EvResult:
    __slots__ = ('raw', 'sends', 'tuns', 'users', 'bad')


def parse_event(txt):
    r = EvResult()
    r.raw = txt
    r.sends = []
    r.tuns = []
    r.users = {}
    r.bad = False
    if ' | ' in txt:
        left, right = txt.split(' | ', 1)
    elif txt.endswith(' |'):
        left, right = txt[:-2], ''
    else:
        r.bad = True
        return r
    toks = left.split(' ')
    try:
        n = int(toks[0])
        k = 1
        for _ in range(n):
            m = SEND_RE.match(toks[k])
            k += 1
            s = Send()
            s.fam, s.ip, s.port, s.dgram = int(m.group(1)), m.group(2), int(m.group(3)), m.group(4)
            s.rv = int(m.group(5)) if m.group(5) is not None else None
            s.dec = m.group(6)
            r.sends.append(s)
        tn = int(toks[k][1:])
        r.tuns = toks[k + 1:k + 1 + tn]
    except Exception:
        r.bad = True
        return r
    for u in right.strip().split(' '):
        if u:
            us = UState(u)
            r.users[us.slot] = us
    return r


def split_events(line):
    return [parse_event(e) for e in line.split(' ; ')]


def dec_bytes(s):
    """decoded payload summary -> (length, bytes or None, first bytes)"""
    if s is None or s == '-' or s == '':
        return 0, b'', b''
    if s.startswith('L'):
        _, ln, h, first = re.match(r'^(L)(\d+):([0-9a-f]{8}):([0-9a-f]*)$', s).groups()
        return int(ln), None, bytes.fromhex(first)
    b = bytes.fromhex(s)
    return len(b), b, b[:8]


# ------------------------------------------------------------------------------------------
# histories

def history_events(line):
    """'H cfg ; ev ; ev' -> (cfg tokens, [event strings])"""
    parts = [p.strip() for p in line.split(' ; ')]
    head = parts[0].split()
    return head[1:], parts[1:]


def corpus_lines(dirs):
    out = []
    for d in dirs:
        cp = os.path.join(vlib.VERIF, 'corpus', d)
        if os.path.isdir(cp):
            for fn in sorted(os.listdir(cp)):
                if fn.endswith('.cases'):
                    for l in open(os.path.join(cp, fn)):
                        l = l.strip()
                        if l and not l.startswith('#'):
                            out.append(l)
    return out


def run_both(ctx, cases, tag, full=False):
    """run implementation and model on the same history lines; returns (impl_lines, model_lines)"""
    old = os.environ.get('VERIF_FULL')
    if full:
        os.environ['VERIF_FULL'] = '1'
    elif 'VERIF_FULL' in os.environ:
        del os.environ['VERIF_FULL']
    try:
        impl = mod = None
        if 'srv' in ctx.exe:
            rc, impl, err = vlib.parallel_run_cases(ctx.exe['srv'], cases, ctx.work, tag + '-impl')
            if rc != 0:
                ctx.broken.append(('impl-crash', 'implementation harness exited with %d: %s' % (rc, err[-300:])))
        if ctx.model:
            rc, mod, err = vlib.parallel_run_cases(ctx.model, cases, ctx.work, tag + '-model')
            if rc != 0:
                ctx.broken.append(('model-crash', 'model driver exited with %d: %s' % (rc, err[-300:])))
    finally:
        if old is None:
            os.environ.pop('VERIF_FULL', None)
        else:
            os.environ['VERIF_FULL'] = old
    return impl, mod


def first_event_diff(case, a, b):
    """(event index, event text, impl text, model text) of the first differing event of one history"""
    ea = a.split(' ; ')
    eb = b.split(' ; ')
    _, evs = history_events(case)
    for k in range(max(len(ea), len(eb))):
        x = ea[k] if k < len(ea) else '<missing>'
        y = eb[k] if k < len(eb) else '<missing>'
        if x != y:
            return k, (evs[k] if k < len(evs) else '?'), x, y
    return None


def diff_histories(ctx, cases, impl, mod):
    """correspondence: first history / event where model and implementation differ -> ctx.broken"""
    if impl is None or mod is None:
        return 0
    for n, (c, a, b) in enumerate(zip(cases, impl, mod)):
        if a != b:
            d = first_event_diff(c, a, b)
            if d:
                k, ev, x, y = d
                ctx.broken.append(('correspondence', 'model and implementation disagree on history %d at event %d (%s): impl=%r model=%r' % (
                    n, k, ev[:160], x[-400:], y[-400:])))
            else:
                ctx.broken.append(('correspondence', 'model and implementation disagree on history %d' % n))
            return n
    return len(cases)
