"""C14 -- the server never sends unsolicited or surplus DNS answers; at most two held queries per
session, never overwritten without an answer.

Proof: coq/Properties_C14.v over the dispatcher model coq/Server.v.
Correspondence: whole histories (datagrams, tun packets, sweeps) through the real iodined.c
dispatcher (harness/h_srvhist.c) and through the extracted model, diffed per event.
Implementation-level oracles (independent of the model), applied to the implementation's output
under VERIF_FULL=1:
  (1) multiset monitor: every emitted DNS answer (strictly parsed with wirelib.parse_msg) must match
      a distinct earlier injected query datagram with the same source address incl. port, DNS id,
      question name and type that has not been answered yet;
  (2) held-query monitor on the printed users[] digests: a query held in q / q_sendrealsoon before
      an event is, after it, still held by that session or an answer with its DNS id was emitted
      (sessions that were re-allocated or are / become raw-mode are exempt)."""
import os, re, collections, time
import vlib, srvlib, wirelib
from srvlib import HistGen, Session, enc, qname, b32c, dns_query

RAW_HDR = bytes([0x10, 0xd1, 0x9e])
SEND_RE = re.compile(r'^(\d+):([0-9a-f]*):(\d+)=([0-9a-f]+|-)(\{[^}]*\})?$')
SESS_RE = re.compile(r'^(\d+):A(\d)(\d)(\d)(\d),L(-?\d+),S(-?\d+),C(\d)(\d),')
HELD_RE = re.compile(r',Q(\d+)/(\d+)/([0-9a-f]{8}),R(\d+)/(\d+)/(\d)/([0-9a-f]{8}),')


# ------------------------------------------------------------------------------------------
# generator: srvlib.HistGen wrapped with scenarios aimed at the held-query machinery

class C14Gen(HistGen):
    def __init__(self, rng, **kw):
        HistGen.__init__(self, rng, **kw)
        self.stats.update(lazy_on=0, lazy_off=0, held_dup=0, case_dup=0, raw_then_dns=0, id0=0, burst=0)

    def set_lazy(self, s, on=True):
        uid = s.uid if s.uid is not None else 0
        s.rs = (s.rs + 1) & 0xffff
        cm = b32c(s.rs >> 10) + b32c(s.rs >> 5) + b32c(s.rs)
        name = b'o' + b32c(uid) + (b'l' if on else b'i') + cm + b'.' + self.domain
        self.emit_query(s.addr, name)
        self.stats['lazy_on' if on else 'lazy_off'] += 1
        self.touch(s)

    def dup_held(self, s):
        """re-deliver one of the most recent (probably still held) queries: new id, maybe another
        source port / address, maybe the very same id, maybe changed letter case"""
        r = self.rng
        if not s.last_names:
            return
        nm, qt = r.choice(s.last_names[-2:])
        how = r.randrange(6)
        addr = s.addr
        qid = None
        if how == 1:
            addr = self.other_addr(s.addr)
        elif how == 2:
            addr = (s.addr[0], s.addr[1], s.addr[2] + r.randrange(1, 4))
        elif how == 3:
            qid = self.qid            # same DNS id as the last query sent
        elif how == 4:
            # case-randomising relay: same query, other spelling
            nm = bytes((c ^ 0x20) if (65 <= (c & 0xdf) <= 90 and r.randrange(2)) else c for c in nm)
            self.stats['case_dup'] += 1
        elif how == 5:
            qt = r.choice(self.QTYPES)
        self.emit_query(addr, nm, qtype=qt, qid=qid)
        self.stats['held_dup'] += 1
        self.stats['dup'] += 1

    def id0_query(self, s):
        r = self.rng
        uid = s.uid or 0
        if r.randrange(2):
            name = qname(b'p', enc(0, bytes([uid, 0, r.randrange(256), r.randrange(256)])), self.domain)
        else:
            name = qname(('%x' % (uid & 15)).encode() + b'aaaa', enc(s.codec, bytes(5)), self.domain)
        self.emit_query(s.addr, name, qid=0)
        self.stats['id0'] += 1

    def tun_for(self, s):
        if s.uid is not None and s.uid < len(self.tun_ips):
            self.tun(dst_ip=self.tun_ips[s.uid], n=self.rng.choice([24, 60, 150, 300, 700, 1400]))
        else:
            self.tun()

    def build(self, nevents):
        r = self.rng
        nsess = r.choice([1, 1, 2, 3])
        for k in range(nsess):
            fam = 4 if r.randrange(6) else 6
            ip = bytes([192, 0, 2, 10 + k]) if fam == 4 else bytes([0x20, 1, 0xd, 0xb8] + [0] * 11 + [k + 1])
            self.sessions.append(Session(self, (fam, ip, 4000 + k)))
        mode = r.choice(['lazy', 'lazy', 'lazy', 'immediate', 'mixed'])
        for s in self.sessions:
            self.version(s)
            self.tick()
            self.login(s)
            self.tick()
            if r.random() < 0.5:
                self.option(s)
                self.tick()
            if mode == 'lazy' or (mode == 'mixed' and r.randrange(2)):
                self.set_lazy(s, True)
                self.tick()
        while len(self.events) < nevents:
            s = r.choice(self.sessions)
            x = r.random()
            if x < 0.20:
                self.ping(s)
            elif x < 0.34:
                self.data(s)
            elif x < 0.42:
                self.upstream_packet(s, dst_ip=r.choice(self.tun_ips[:len(self.sessions)] + [0x08080808]))
            elif x < 0.58:
                self.dup_held(s)
            elif x < 0.66:
                self.tun_for(s)
            elif x < 0.74:
                self.sweep()
            elif x < 0.78:
                # burst: several pings back to back, then duplicates of all of them
                for _ in range(r.randrange(2, 5)):
                    self.ping(s)
                for _ in range(r.randrange(1, 4)):
                    self.dup_held(s)
                self.stats['burst'] += 1
            elif x < 0.81:
                self.id0_query(s)
            elif x < 0.84:
                self.set_lazy(s, r.randrange(3) > 0)
            elif x < 0.88:
                # switch to raw mode, then DNS-mode queries for the same userid
                self.raw(s, kind=r.choice(['login', 'login', 'ping', 'data']))
                self.tick()
                for _ in range(r.randrange(1, 4)):
                    if r.randrange(2):
                        self.ping(s)
                    else:
                        self.data(s)
                self.stats['raw_then_dns'] += 1
            elif x < 0.91:
                self.hostile(s)
            elif x < 0.93:
                self.option(s)
            elif x < 0.95:
                self.version(s)
                self.tick()
                self.login(s)
            elif x < 0.97:
                self.tick(big=True)
            else:
                s.dn_frag = (s.dn_frag + 1) & 15
                self.ping(s)
            self.tick()
        return 'H ' + self.cfg() + ' ; ' + ' ; '.join(self.events[:nevents])


def gen_targeted(seed, n, nevents, tag='c14'):
    rng = vlib.rng_for(seed, tag)
    out = []
    stats = {}
    for _ in range(n):
        g = C14Gen(rng)
        # all record types get their share: the generator draws one per history
        out.append(g.build(nevents))
        for k, v in g.stats.items():
            stats[k] = stats.get(k, 0) + v
        stats['qtype_%d' % g.qtype] = stats.get('qtype_%d' % g.qtype, 0) + 1
    return out, stats


# ------------------------------------------------------------------------------------------
# implementation-level oracles

def lenient_query(dg):
    """(id, dotted name, type) of a datagram the strict parser rejects but whose header + first
    question can be read (extra sections / counts are not the monitor's business); None otherwise"""
    if len(dg) < 17:
        return None
    if ((dg[4] << 8) | dg[5]) < 1:
        return None
    labels = []
    p = 12
    hops = 0
    end = None
    while True:
        if p >= len(dg):
            return None
        c = dg[p]
        if c == 0:
            p += 1
            break
        if c & 0xc0 == 0xc0:
            if p + 1 >= len(dg):
                return None
            if end is None:
                end = p + 2
            p = ((c & 0x3f) << 8) | dg[p + 1]
            hops += 1
            if hops > 20:
                return None
            continue
        if p + 1 + c > len(dg):
            return None
        labels.append(bytes(dg[p + 1:p + 1 + c]))
        p += 1 + c
    if end is None:
        end = p
    if end + 4 > len(dg):
        return None
    return ((dg[0] << 8) | dg[1], b'.'.join(labels), (dg[end] << 8) | dg[end + 1], dg[2] >> 7)


def parse_events(case):
    """-> (bind_port, [ (kind, addrkey or None, datagram bytes or None) ])"""
    parts = case.split(' ; ')
    head = parts[0].split(' ')
    bind = int(head[8])
    evs = []
    for ev in parts[1:]:
        t = ev.split(' ')
        if t[0] == 'X':
            fam, ip, port = t[3].split(':')
            key = '%d:%s:%s' % (10 if fam == '6' else 2, ip, port)
            dg = bytes.fromhex(t[5]) if t[5] != '-' else b''
            evs.append(('X', key, dg))
        else:
            evs.append((t[0], None, None))
    return bind, evs


def split_sessions(digest):
    """state digest -> {slot: dict(seed, dns(bool), held=[(id, id2) for Q, R])}"""
    out = {}
    for tok in digest.split(' '):
        m = SESS_RE.match(tok)
        if not m:
            continue
        slot = int(m.group(1))
        d = dict(seed=m.group(7), dns=m.group(8) == '1', lazy=m.group(9) == '1', last=m.group(6), held=[])
        h = HELD_RE.search(tok)
        if h:
            d['held'] = [(int(h.group(1)), int(h.group(2))), (int(h.group(4)), int(h.group(5)))]
        out[slot] = d
    return out


def norm_name(dotted):
    """question names are compared as dotted text with empty labels dropped: the server keeps names as
    dotted strings, so a query whose label contains a '.' byte (or ends in one) comes back with other
    label boundaries -- the same query as far as this property is concerned (counted in the coverage)"""
    return b'.'.join(x for x in dotted.split(b'.') if x)


class Verdict(Exception):
    def __init__(self, key, what, event_index):
        Exception.__init__(self, what)
        self.key = key
        self.what = what
        self.event_index = event_index


def monitor(case, out, st):
    """applies both oracles to one history; raises Verdict on the first violation; st = counters"""
    bind, evs = parse_events(case)
    res = out.split(' ; ')
    if len(res) != len(evs):
        raise Verdict('harness-output', 'implementation printed %d event results for %d events' % (len(res), len(evs)),
                      min(len(res), len(evs)))
    pending = collections.Counter()      # received and not yet answered
    recv_event = {}
    prev = {}
    for k, ((kind, key, dg), r) in enumerate(zip(evs, res)):
        # --- what arrived
        if kind == 'X' and dg and dg[:3] != RAW_HDR:
            q = None
            try:
                m = wirelib.parse_msg(dg)
                if m['qr'] == 0:
                    q = (m['id'], wirelib.dotted(m['qname']), m['qtype'])
                    st['recv_strict'] += 1
            except wirelib.Malformed:
                q = lenient_query(dg)
                if q and q[3] == 0:
                    q = q[:3]
                    st['recv_lenient'] += 1
                else:
                    q = None
            if q:
                if norm_name(q[1]) != q[1]:
                    st['recv_names_with_inner_dots'] += 1
                inst = (key, q[0], norm_name(q[1]), q[2])
                pending[inst] += 1
                recv_event.setdefault(inst, []).append(k)
        elif kind == 'X' and dg[:3] == RAW_HDR:
            st['raw_frames'] += 1
        # --- what was sent
        try:
            sends, rest = r.split(' T', 1)
            digest = rest.split(' | ', 1)[1] if ' | ' in rest else ''
        except ValueError:
            raise Verdict('harness-output', 'unparsable event result %r' % r[:200], k)
        toks = sends.split(' ')
        n = int(toks[0])
        if n != len(toks) - 1:
            raise Verdict('harness-output', 'send count mismatch in %r' % sends[:200], k)
        answered_ids = set()
        for tok in toks[1:]:
            m = SEND_RE.match(tok)
            if not m:
                raise Verdict('harness-output', 'unparsable send %r' % tok[:200], k)
            to = '%s:%s:%s' % (m.group(1), m.group(2), m.group(3))
            data = bytes.fromhex(m.group(4)) if m.group(4) != '-' else b''
            if data[:3] == RAW_HDR:
                st['raw_sent'] += 1
                continue
            try:
                a = wirelib.parse_msg(data)
            except wirelib.Malformed as e:
                # e.g. a question name over 255 bytes echoed back: not this property's business as long
                # as header and question can be read
                lq = lenient_query(data)
                a = dict(id=lq[0], qname=[lq[1]], qtype=lq[2], qr=lq[3]) if lq else None
                st['answers_lenient'] += 1
            if a is None:
                raise Verdict('answer:malformed', 'event %d: emitted datagram to %s does not parse (%s): %s' % (k, to, e, data.hex()[:120]), k)
            if a['qr'] == 0:
                # a forwarded query (to 127.0.0.1:bind_port) is not an answer
                if bind and to == '2:7f000001:%d' % bind:
                    st['forwarded'] += 1
                    continue
                raise Verdict('answer:query-sent', 'event %d: the server sent a query to %s' % (k, to), k)
            inst = (to, a['id'], norm_name(wirelib.dotted(a['qname'])), a['qtype'])
            answered_ids.add(a['id'])
            if pending[inst] <= 0:
                seen = recv_event.get(inst)
                why = ('every received copy of it has already been answered (received at events %s)' % seen) if seen \
                    else 'no such query was ever received'
                raise Verdict('answer:unsolicited' if not seen else 'answer:surplus',
                              'event %d: answer to %s id %d name %r type %d but %s' % (k, to, a['id'], inst[2][:60], a['qtype'], why), k)
            pending[inst] -= 1
            st['answers'] += 1
            if recv_event[inst][0] != k:
                st['answers_deferred'] += 1
            if a['id'] == 0:
                st['answers_id0'] += 1
        # --- held queries of the real users[] array
        cur = split_sessions(digest)
        for slot, b in prev.items():
            a = cur.get(slot)
            if a is None or not b['dns'] or not a['dns'] or a['seed'] != b['seed']:
                continue
            now_ids = set(i for pair in a['held'] for i in pair[:1] if i)
            for (hid, hid2) in b['held']:
                if hid == 0:
                    continue
                st['held_checked'] += 1
                if hid in now_ids or hid in answered_ids:
                    continue
                raise Verdict('held-query-lost',
                              'event %d: session %d held a query with DNS id %d; after the event it is neither held nor was it answered' % (k, slot, hid), k)
        nheld = 0
        for slot, a in cur.items():
            if a['dns']:
                c = sum(1 for pair in a['held'] if pair[0])
                nheld = max(nheld, c)
                if a['lazy']:
                    st['lazy_session_events'] += 1
                if c == 2:
                    st['two_held_states'] += 1
                st['dups_remembered'] += sum(1 for pair in a['held'] if pair[0] and pair[1])
        prev = cur
    st['histories'] += 1
    st['events'] += len(evs)
    st['unanswered_at_end'] += sum(pending.values())


# ------------------------------------------------------------------------------------------

def load_corpus():
    cases = []
    for d in ('C14', 'SRV'):
        cp = os.path.join(vlib.VERIF, 'corpus', d)
        if os.path.isdir(cp):
            for fn in sorted(os.listdir(cp)):
                if not fn.endswith('.cases'):
                    continue
                for l in open(os.path.join(cp, fn)):
                    l = l.strip()
                    if l and not l.startswith('#'):
                        cases.append(l)
    return cases


def truncate(case, k):
    parts = case.split(' ; ')
    return ' ; '.join(parts[:k + 2])


def run_full(exe, cases, work, tag, shards=16, timeout=1500):
    """run case lines under VERIF_FULL=1 (full hex) in round-robin shards; -> (rc, lines, err)
    (vlib.parallel_run_cases sizes its shards for short cases; histories are long)"""
    import subprocess
    os.makedirs(work, exist_ok=True)
    n = len(cases)
    if n == 0:
        return 0, [], ''
    shards = max(1, min(shards, n))
    env = dict(os.environ)
    env['VERIF_FULL'] = '1'
    env['ASAN_OPTIONS'] = 'detect_leaks=0:abort_on_error=0:halt_on_error=1'
    env['UBSAN_OPTIONS'] = 'print_stacktrace=1:halt_on_error=1'
    procs = []
    for i in range(shards):
        idx = list(range(i, n, shards))
        cp = os.path.join(work, '%s.%d.cases' % (tag, i))
        with open(cp, 'w') as f:
            f.write('\n'.join(cases[j] for j in idx) + '\n')
        fo = open(cp + '.out', 'wb')
        fe = open(cp + '.err', 'wb')
        p = subprocess.Popen(['bash', '-c', 'ulimit -s unlimited 2>/dev/null; exec "$0" "$1"', exe, cp], stdout=fo, stderr=fe, env=env)
        procs.append((p, idx, cp, fo, fe))
    lines = ['<NO-OUTPUT>'] * n
    rc = 0
    err = ''
    deadline = time.time() + timeout
    for p, idx, cp, fo, fe in procs:
        try:
            p.wait(timeout=max(1, deadline - time.time()))
        except subprocess.TimeoutExpired:
            p.kill()
            p.wait()
            rc = 124
            err += 'TIMEOUT in shard %s\n' % cp
        fo.close()
        fe.close()
        ls = open(cp + '.out', 'rb').read().decode('latin-1').split('\n')
        if ls and ls[-1] == '':
            ls.pop()
        if p.returncode not in (0, None):
            if rc == 0:
                rc = p.returncode
            err += open(cp + '.err', 'rb').read().decode('latin-1')[-3000:]
        for j, l in zip(idx, ls):
            lines[j] = l
    return rc, lines, err


def first_event_diff(a, b):
    ea, eb = a.split(' ; '), b.split(' ; ')
    for i in range(min(len(ea), len(eb))):
        if ea[i] != eb[i]:
            return i, ea[i], eb[i]
    return min(len(ea), len(eb)), '<end>', '<end>'


def merge_stats(dst, src):
    for k, v in src.items():
        dst[k] = dst.get(k, 0) + v


def check(rep):
    t0 = time.time()
    ctx = vlib.prepare(rep, harnesses={'srv': srvlib.SRV}, sanitize=(rep.tier == 'thorough'), model='SRV')
    timing = collections.Counter(prepare=round(time.time() - t0, 1))
    quick = rep.tier == 'quick'
    corpus = load_corpus()
    # batches keep the full-hex outputs in memory bounded
    nbatch, n_tgt, n_gen, nev = (1, 450, 250, 120) if quick else (12, 600, 250, 200)
    # the extracted model needs ~4 ms per event: the model/implementation diff takes the corpus, every
    # third targeted and every fifth generic history (thorough: every 4th / 6th of 10 000)
    m_tgt, m_gen = (3, 5) if quick else (4, 6)
    rep.cov['rule'] = ('corpus first (corpus/C14, corpus/SRV); targeted histories (C14Gen: lazy / immediate / mixed sessions, '
                       'duplicates of held queries with new ids, other source ports/addresses, same id, changed case, other type; '
                       'ping bursts, tun packets for the session, sweeps, id-0 queries, raw-mode switch followed by DNS queries, '
                       're-version, 60 s jumps) and generic srvlib histories; one record type per history over all 7; '
                       'implementation run under VERIF_FULL=1, oracles: multiset monitor on strictly parsed datagrams + '
                       'held-query monitor on users[] digests; then model/implementation diff per history and event on the '
                       'corpus and every %d-th targeted / %d-th generic history. '
                       'distinct_nontrivial = answers that were emitted in a later event than their query arrived (held queries)' % (m_tgt, m_gen))
    if 'srv' in ctx.exe:
        # the sweeps and the order of handlers of the REAL select loop (not the harness' copy of the sweep)
        srvlib.loop_glue(rep, ctx, ctx.exe['srv'], 100 if quick else 1500, 'c14srvloop')
    st = collections.Counter()
    gstats, tstats = {}, {}
    dist = dict(corpus=len(corpus), targeted=0, generic=0, events_per_history=nev, batches=nbatch)
    validated = 0
    validated_events = 0
    san_cases = 0
    samples = []
    for bi in range(nbatch):
        if rep.violations or any(k == 'correspondence' for k, _ in ctx.broken):
            break
        tg = time.time()
        generic, gs = srvlib.gen_histories(rep.seed, n_gen, nev, tag='c14-srv-%d' % bi)
        targeted, ts = gen_targeted(rep.seed, n_tgt, nev, tag='c14-%d' % bi)
        merge_stats(gstats, gs)
        merge_stats(tstats, ts)
        head = corpus if bi == 0 else []
        cases = head + targeted + generic
        dist['targeted'] += len(targeted)
        dist['generic'] += len(generic)
        if bi == 0:
            samples = [c[:400] for c in (cases[:1] + targeted[:2] + generic[:1])]
        timing['generate'] += round(time.time() - tg, 1)
        impl = None
        if 'srv' in ctx.exe:
            tg = time.time()
            rc, impl, err = run_full(ctx.exe['srv'], cases, ctx.work, 'impl')
            timing['impl_run'] += round(time.time() - tg, 1)
            if rc != 0:
                ctx.broken.append(('impl-crash', 'implementation harness exited with %d: %s' % (rc, err[-300:])))
            tg = time.time()
            for c, o in zip(cases, impl):
                if o == '<NO-OUTPUT>':
                    continue
                try:
                    monitor(c, o, st)
                except Verdict as v:
                    small = truncate(c, v.event_index)
                    rep.add_violation(v.key, v.what, dict(kind='history', driver='srv', case=small, event=v.event_index,
                                                          expected='every answer matches a distinct unanswered received query; '
                                                                   'held queries are answered before they are overwritten'))
                    break
            timing['monitor'] += round(time.time() - tg, 1)
        if ctx.model and impl is not None and not rep.violations:
            tg = time.time()
            nh, nt = len(head), len(targeted)
            sel = [i for i in range(len(cases)) if i < nh or (i < nh + nt and (i - nh) % m_tgt == 0)
                   or (i >= nh + nt and (i - nh - nt) % m_gen == 0)]
            mcases = [cases[i] for i in sel]
            # the ".xy" hostname suffix of CNAME/MX/SRV answers rotates per answer within a process: both
            # sides must see the same sequence of histories per shard, so the implementation runs the subset again
            rc, impl2, err = run_full(ctx.exe['srv'], mcases, ctx.work, 'impl2')
            rc, mod, err = run_full(ctx.model, mcases, ctx.work, 'model')
            d = vlib.first_diff(mcases, impl2, mod)
            good = mcases if d is None else mcases[:d]
            validated += len(good)
            validated_events += sum(c.count(' ; ') for c in good)
            if d is not None:
                k, ei, em = first_event_diff(impl2[d], mod[d])
                ctx.broken.append(('correspondence', 'model and implementation disagree at event %d of a history: impl=%r model=%r ; case=%s' % (
                    k, ei[-400:], em[-400:], truncate(mcases[d], k)[:3000])))
            timing['model_diff'] += round(time.time() - tg, 1)
            if 'srv' in ctx.san and bi % 6 == 0:
                tg = time.time()
                sub = mcases[::3]
                rc, sl, err = run_full(ctx.san['srv'], sub, ctx.work, 'san')
                san_cases += len(sub)
                if rc != 0:
                    idx = next((i for i, l in enumerate(sl) if l == '<NO-OUTPUT>'), None)
                    rep.add_violation('sanitizer', 'ASan/UBSan report: ' + err[-400:],
                                      dict(kind='history', driver='srv.san', case=sub[idx] if idx is not None else None, observed=err[-2000:]))
                timing['sanitizer'] += round(time.time() - tg, 1)
    dist['generic_events'] = gstats
    dist['targeted_events'] = tstats
    rep.cov['input_distribution'] = dist
    rep.cov['monitor'] = dict(st)
    rep.cov['evaluations'] = st['events']
    rep.cov['distinct_nontrivial'] = st['answers_deferred']
    rep.cov['samples'] = samples
    rep.cov['traces_validated_against_impl'] = validated
    rep.cov['events_validated_against_impl'] = validated_events
    if san_cases:
        rep.cov['sanitizer_cases'] = san_cases
    rep.cov['timing_s'] = {k: round(v, 1) for k, v in timing.items()}
    if not rep.violations:
        ctx.report_broken()
    return rep


def replay(rp):
    rep = vlib.Report('C14', 'quick', rp.get('seed', 1))
    ctx = vlib.prepare(rep, harnesses={'srv': srvlib.SRV}, sanitize=False, prove_it=False, model='SRV')
    case = rp.get('case')
    if not case:
        print('replay names a broken obligation, not an input:', rp.get('broken'))
        return 1
    rc, impl, err = run_full(ctx.exe['srv'], [case], ctx.work, 'replay')
    print('case :', case[:600])
    k = rp.get('event')
    if impl:
        evs = impl[0].split(' ; ')
        print('impl :', (evs[k] if k is not None and k < len(evs) else impl[0])[-600:])
    if ctx.model:
        rc2, mod, err2 = run_full(ctx.model, [case], ctx.work, 'replay-model')
        if mod:
            evs = mod[0].split(' ; ')
            print('model:', (evs[k] if k is not None and k < len(evs) else mod[0])[-600:])
    why = None
    try:
        monitor(case, impl[0], collections.Counter())
    except Verdict as v:
        why = '%s: %s' % (v.key, v.what)
    print('oracle:', why or 'ok')
    return 1 if why else 0
