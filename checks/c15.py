"""C15 -- downstream fragments never exceed the negotiated fragment size; sizes below 2 are rejected;
fragments of a packet are numbered consecutively from 0, only the final one carries the last flag.

Proof: coq/Properties_C15.v over the dispatcher model coq/Server.v (all event lists, all F, all packet
sizes, all ack/loss histories).  Correspondence: the real iodined.c dispatcher (harness/h_srvhist.c)
and the extracted model run the same histories and must print identical datagrams, tun writes and
session digests after every event.  Implementation-level oracle (independent of the model), applied
to the IMPLEMENTATION's output:
  bound     every answer whose decoded payload has the data-header shape (bit 7 of byte 0) and that
            answers a query of session i carries at most F_i bytes after the 2 header bytes, F_i read
            from the digest of the state in which it was emitted; never more than 4094;
  reject    an N request with size 0 / 1 is never acknowledged and changes no digest; no session ever
            shows a fragment size below 2; an acknowledged N sets exactly that size;
  numbering (targeted histories, full payload bytes) per session the data fragments of one sequence
            number are numbered 0,1,2,.. (mod 16) without gaps, a re-emission under an unchanged size is
            byte-identical, no fragment follows one that carried the last flag, and the last emissions of
            the fragments concatenate to 0x5A ++ (a packet the history put on the tun device), with the
            last flag exactly on the final one."""
import os
import vlib, srvlib, srvmon, srvscen

PROP = 'C15'


def dgram_id(s):
    if s.startswith('L'):
        s = s.split(':')[2]
    return int(s[:4], 16) if len(s) >= 4 else None


PREMATURE = 'numbering:premature-ack'


def monitor(case, out, numbering):
    """returns (violation or None, stats, notes); violation = (key, why, event index).  A numbering gap
    that coincides with an ack naming the current, not yet emitted fragment is reported under the key
    of that (repaired, iodine 1b8dff8) defect, any other gap under numbering / numbering-start."""
    st = dict(events=0, data_answers=0, attributed=0, max_fill=0.0, at_bound=0, n_small=0, n_acc=0, badfrag=0,
              packets_tiled=0, frags_tracked=0, reemissions=0, wraps=0, abandoned=0, dataless=0)
    cfg, evs = srvmon.history_events(case)
    domain = bytes.fromhex(cfg[0])
    res = srvmon.split_events(out)
    if len(res) != len(evs) or any(r.bad for r in res):
        return ('output', 'implementation output does not parse (%d events, %d results)' % (len(evs), len(res)), 0), st, []
    notes = []
    ids = {}
    known = set()
    prev = {}
    flights = {}
    skipseq = {}
    seeds = {}
    negotiated = {}       # slot -> size of the last acknowledged N request of the session (from the traffic, not from the server's state)

    def finalize(slot, k):
        fl = flights.pop(slot, None)
        if fl is None:
            return None
        whole = b''.join(fl['pieces']) + fl['cur']
        if fl['last']:
            if whole not in known:
                return ('tiling', 'session %d: the fragments of sequence number %d (%d pieces, %d bytes), the last one flagged '
                        'final, do not concatenate to 0x5A ++ a packet written to the tun device' % (
                            slot, fl['seq'], len(fl['pieces']) + 1, len(whole)), k)
            st['packets_tiled'] += 1
        else:
            if whole in known:
                return ('last-flag', 'session %d: the fragments of sequence number %d concatenate to a whole packet but the '
                        'final one did not carry the last flag' % (slot, fl['seq']), k)
            st['abandoned'] += 1
        return None

    def premature(slot, seq):
        """this event's query acknowledges (seq, current fragment) of session slot although nothing of that
        fragment had been sent (sentlen 0 before the event)"""
        if q is None or q.kind not in ('ping', 'data') or q.uid != slot or q.ack is None or slot not in prev:
            return False
        ln0, off0, sent0, seq0, frag0 = prev[slot].outpkt()
        return ln0 > 0 and sent0 == 0 and seq0 == seq and q.ack == (seq0, frag0)

    for k, (ev, r) in enumerate(zip(evs, res)):
        st['events'] += 1
        t = ev.split()
        q = None
        if t[0] == 'X' and t[5] != '-':
            dg = bytes.fromhex(t[5])
            pq = srvmon.parse_query(dg)
            if pq:
                q = srvmon.QInfo(pq[0], pq[1], pq[2], domain)
                ids.setdefault(q.id, []).append(q)
        elif t[0] == 'T':
            known.add(b'\x5a' + bytes.fromhex(t[2]))
        # a session that was re-claimed (seed changed) starts afresh
        for slot, u in r.users.items():
            sd = u.f.get('S')
            if seeds.get(slot) != sd:
                seeds[slot] = sd
                flights.pop(slot, None)
                negotiated.pop(slot, None)
        # ---- reject ----
        for slot, u in r.users.items():
            if u.fragsize() < 2:
                return ('fragsize-below-2', 'session %d shows fragment size %d' % (slot, u.fragsize()), k), st, notes
        pending_neg = None
        if q is not None and q.kind == 'N' and q.fs is not None:
            ans = [srvmon.dec_bytes(s.dec) for s in r.sends if s.rv is not None]
            acked = any(b is not None and ln == 2 and b == bytes([q.fs >> 8, q.fs & 255]) for ln, b, f in ans)
            if q.fs < 2:
                st['n_small'] += 1
                if acked:
                    return ('N-below-2-accepted', 'an N request for fragment size %d was acknowledged' % q.fs, k), st
                if {s: u.txt for s, u in r.users.items()} != {s: u.txt for s, u in prev.items()}:
                    return ('N-below-2-state', 'an N request for fragment size %d changed the session state' % q.fs, k), st
                if any(b == b'BADFRAG' for ln, b, f in ans):
                    st['badfrag'] += 1
            elif acked and q.uid in r.users:
                st['n_acc'] += 1
                pending_neg = (q.uid, q.fs)
                if r.users[q.uid].fragsize() != q.fs:
                    return ('N-not-applied', 'N %d acknowledged but the session shows %d' % (q.fs, r.users[q.uid].fragsize()), k), st, notes
        # ---- bound, numbering ----
        seen_data = set()
        for s in r.sends:
            if s.rv is None or s.rv < 1:
                continue
            ln, body, first = srvmon.dec_bytes(s.dec)
            if not first or not (first[0] & 0x80):
                continue
            st['data_answers'] += 1
            if ln - 2 > 4094:
                return ('bound-4094', 'a data answer carries %d bytes after the header' % (ln - 2), k), st, notes
            qid = dgram_id(s.dgram)
            cands = ids.get(qid, [])
            qi = cands[-1] if cands else None
            if qi is None or qi.uid is None or qi.kind not in ('ping', 'data', 'N'):
                continue
            slot = qi.uid
            u0 = prev.get(slot) or r.users.get(slot)
            if u0 is None:
                continue
            st['attributed'] += 1
            F = u0.fragsize()
            if ln - 2 > F:
                return ('bound', 'answer to %s query id %d of session %d carries %d bytes of tunnel data after the 2-byte header; '
                        'the session\'s fragment size is %d' % (qi.kind, qid, slot, ln - 2, F), k), st, notes
            Fn = negotiated.get(slot)
            if Fn is not None and ln - 2 > Fn:
                return ('bound-negotiated', 'answer to %s query id %d of session %d carries %d bytes of tunnel data after the 2-byte header; the last '
                        'fragment size the session set (and the server acknowledged) is %d, and no N request has been made since' % (
                            qi.kind, qid, slot, ln - 2, Fn), k), st, notes
            if Fn is not None:
                st['checked_against_negotiated'] = st.get('checked_against_negotiated', 0) + 1
            if F > 0:
                st['max_fill'] = max(st['max_fill'], (ln - 2) / min(F, 4094))
                if ln - 2 == min(F, 4094):
                    st['at_bound'] += 1
            if not numbering or qi.kind == 'N' or ln < 2:
                continue
            seen_data.add(slot)
            if slot in prev and slot in r.users and prev[slot].txt == r.users[slot].txt:
                st['replays'] = st.get('replays', 0) + 1      # served from the answer cache: an old fragment, nothing emitted
                continue
            if ln == 2:
                st['dataless'] += 1
                continue
            if body is None:
                continue
            b1 = body[1]
            seq, frag, last, payload = b1 >> 5, (b1 >> 1) & 15, b1 & 1, body[2:]
            if skipseq.get(slot) == seq:
                continue
            skipseq.pop(slot, None)
            fl = flights.get(slot)
            if fl is not None and fl['seq'] != seq:
                v = finalize(slot, k)
                if v:
                    return v, st, notes
                fl = None
            gap = (frag != 0) if fl is None else (frag != fl['frag'] and frag != (fl['frag'] + 1) % 16)
            if premature(slot, seq):
                st['premature_acks'] = st.get('premature_acks', 0) + 1
                if gap:
                    return (PREMATURE, 'session %d: an ack for fragment %d of sequence number %d arrived before that fragment was '
                            'ever sent; the server counted it and the fragment went out with number %d' % (
                                slot, (frag - 1) % 16, seq, frag), k), st, notes
            if fl is None:
                if frag != 0:
                    return ('numbering-start', 'session %d: the first fragment seen of sequence number %d is numbered %d' % (
                        slot, seq, frag), k), st, notes
                flights[slot] = dict(seq=seq, frag=0, n=0, pieces=[], cur=payload, last=last, F=F)
                st['frags_tracked'] += 1
            elif frag == fl['frag']:
                st['reemissions'] += 1
                if fl['F'] == F and payload != fl['cur']:
                    return ('reemission', 'session %d: fragment %d of sequence number %d was re-emitted with different bytes '
                            'although the fragment size did not change' % (slot, frag, seq), k), st, notes
                fl['cur'], fl['last'], fl['F'] = payload, last, F
            elif frag == (fl['frag'] + 1) % 16:
                if fl['last']:
                    return ('last-flag', 'session %d: fragment %d of sequence number %d follows a fragment that carried the '
                            'last-fragment flag' % (slot, frag, seq), k), st, notes
                fl['pieces'].append(fl['cur'])
                fl['n'] += 1
                if fl['n'] >= 16:
                    st['wraps'] += 1
                fl['frag'], fl['cur'], fl['last'], fl['F'] = frag, payload, last, F
                st['frags_tracked'] += 1
            else:
                return ('numbering', 'session %d: fragment %d of sequence number %d follows fragment %d' % (
                    slot, frag, seq, fl['frag']), k), st, notes
        if numbering:
            # an emission the client decoder could not read (answer too large for the record type): the
            # monitor did not see that fragment; stop following this sequence number
            for slot, u in r.users.items():
                if slot in prev and slot not in seen_data and u.f.get('K') != prev[slot].f.get('K') and \
                        not (q is not None and q.kind == 'N'):
                    o = u.outpkt()
                    po = prev[slot].outpkt()
                    if po[0] > 0 or o[0] > 0:
                        st['invisible'] = st.get('invisible', 0) + 1
                        flights.pop(slot, None)
                        skipseq[slot] = po[3] if po[0] > 0 else o[3]
        if pending_neg is not None:
            negotiated[pending_neg[0]] = pending_neg[1]
        prev = r.users
    if numbering:
        for slot in list(flights):
            v = finalize(slot, len(evs) - 1)
            if v:
                return v, st, notes
    return None, st, notes


def add(tot, st):
    for k, v in st.items():
        if k == 'max_fill':
            tot[k] = max(tot.get(k, 0.0), v)
        else:
            tot[k] = tot.get(k, 0) + v


def check(rep):
    ctx = vlib.prepare(rep, harnesses={'srv': srvlib.SRV}, sanitize=(rep.tier == 'thorough'), model='SRV')
    quick = rep.tier == 'quick'
    corpus = srvmon.corpus_lines(['C15', 'C16', 'SRV'])
    nt, nr, nm = (48, 360, 110) if quick else (600, 4000, 1500)
    targeted, tstats, cst = srvscen.gen_targeted(rep.seed, nt, 120, 'transfers', 'c15-t')
    randoms, rstats = srvlib.gen_histories(rep.seed, nr, 150, tag='c15')
    full_cases = corpus + targeted
    rep.cov['rule'] = ('corpus first (corpus/C15 D9 history, corpus/C16, corpus/SRV); targeted histories: one session, fragment sizes '
                       'at the boundaries 2,3,100,4094,4095,65535 and random, packets of k*F-1, k*F, k*F+1 bytes (k up to 16), '
                       'packets needing more than 16 fragments, queued packets, correct acks following the emulated downstream '
                       'state, stale acks (re-emission), N changes in mid-transfer (incl. 0 and 1), re-deliveries, sweeps; '
                       'random HistGen histories (all record types, several sessions, hostile traffic). Implementation run on '
                       'all of them, oracle on its output (bound on every data-shaped answer; N<2 never acknowledged and '
                       'state-neutral; numbering/tiling on the targeted ones with full payload bytes); model/implementation '
                       'diff per history on corpus + targeted + a prefix of the random ones, first differing event reported')
    tot = {}
    viols = {}

    def record(v, c, o):
        if v and v[0] not in viols:
            viols[v[0]] = (v, c, o)

    impl_f, mod_f = srvmon.run_both(ctx, full_cases, 'full', full=True)
    if impl_f is not None:
        for c, o in zip(full_cases, impl_f):
            v, st, notes = monitor(c, o, numbering=True)
            add(tot, st)
            record(v, c, o)
            for nt_ in notes:
                record(nt_, c, o)
    impl_r, mod_r = srvmon.run_both(ctx, randoms[:nm], 'rnd', full=False)
    impl_r2 = None
    if 'srv' in ctx.exe and len(randoms) > nm:
        old = ctx.model
        ctx.model = None
        impl_r2, _ = srvmon.run_both(ctx, randoms[nm:], 'rnd2', full=False)
        ctx.model = old
    if impl_r is not None:
        for c, o in zip(randoms, impl_r + (impl_r2 or [])):
            v, st, notes = monitor(c, o, numbering=False)
            add(tot, st)
            record(v, c, o)
    for key in sorted(viols, key=lambda x: (x == PREMATURE, x)):
        (key, why, k), c, o = viols[key]
        _, evs = srvmon.history_events(c)
        rep.add_violation(key, why + ' (event %d of the history: %s)' % (k, evs[k][:120]),
                          dict(kind='input', driver='srv', case=c, event=k, observed=o.split(' ; ')[k][:1500], expected=why))
    validated = 0
    if impl_f is not None and mod_f is not None:
        n1 = srvmon.diff_histories(ctx, full_cases, impl_f, mod_f)
        validated += n1
        if n1 == len(full_cases) and impl_r is not None and mod_r is not None:
            validated += srvmon.diff_histories(ctx, randoms[:nm], impl_r, mod_r)
    rep.cov['traces_validated_against_impl'] = validated
    rep.cov['input_distribution'] = dict(corpus=len(corpus), targeted=len(targeted), random=len(randoms),
                                         targeted_events=tstats, targeted_scenarios=cst, random_events=rstats)
    rep.cov['monitor'] = tot
    rep.cov['evaluations'] = tot.get('events', 0)
    rep.cov['distinct_nontrivial'] = tot.get('attributed', 0)
    rep.cov['samples'] = [c[:300] for c in (corpus[:1] + targeted[:2] + randoms[:2])]
    if 'srv' in ctx.san and not rep.violations:
        sub = full_cases[::4] + randoms[:60]
        rc, sl, err = vlib.parallel_run_cases(ctx.san['srv'], sub, ctx.work, 'san')
        rep.cov['sanitizer_cases'] = len(sub)
        if rc != 0:
            idx = next((i for i, l in enumerate(sl) if l == '<NO-OUTPUT>'), None)
            rep.add_violation('sanitizer', 'ASan/UBSan report: ' + err[-400:],
                              dict(kind='input', driver='srv.san', case=sub[idx] if idx is not None else None, observed=err[-2000:]))
    if not rep.violations:
        ctx.report_broken()
    return rep


def replay(rp):
    rep = vlib.Report(PROP, 'quick', rp.get('seed', 1))
    ctx = vlib.prepare(rep, harnesses={'srv': srvlib.SRV}, sanitize=False, prove_it=False, model='SRV')
    case = rp.get('case')
    if not case:
        print('replay names a broken obligation, not an input:', rp.get('broken'))
        return 1
    impl, mod = srvmon.run_both(ctx, [case], 'replay', full=True)
    v, st, notes = monitor(case, impl[0], numbering=True) if impl else (('crash', 'no output', 0), {}, [])
    if not v and notes and rp.get('key') == PREMATURE:
        v = notes[0]
    _, evs = srvmon.history_events(case)
    k = rp.get('event', v[2] if v else 0)
    print('history: %d events; event %d: %s' % (len(evs), k, evs[k][:300]))
    print('impl :', impl[0].split(' ; ')[k][:600] if impl else '-')
    if mod:
        print('model:', mod[0].split(' ; ')[k][:600])
    print('oracle:', ('%s: %s (event %d)' % v) if v else 'ok')
    return 1 if v else 0
