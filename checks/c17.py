"""C17 -- tunnel domain validation and query matching follow label boundaries exactly.
Proof: coq/Properties_C17.v (Domain.v, DomainProofs.v).  Correspondence: the real
check_topdomain()/query_datalen() of src/common.c vs the extracted model.  Implementation
oracle (independent of the model, written from the property text): reference validator and
reference label-boundary matcher below, applied to the results of the C functions."""
import os, sys, itertools
import vlib
from vlib import hexs

ALPHA = b"aAb-.*0"
# plain and wildcard domains the exhaustive query strings are matched against (all accepted
# by the server-side validation), plus a few strings that are NOT accepted domains: for those
# only model == implementation is compared
DOMAINS_OK = [b"a.b", b"ab.a", b"A.b", b"*.a.b", b"*.b0.a", b"a-0.b", b"*.a", b"0.a.b", b"b.A-"]
DOMAINS_ODD = [b"a*.b", b"a.*", b"ab", b"a..b", b"**.a"]
LEGAL = b"abcdefghijklmnopqrstuvwxyzABCDEFGHIJKLMNOPQRSTUVWXYZ0123456789-."
LEGAL_SET = frozenset(LEGAL)
LABEL_CH = b"abcdefghijklmnopqrstuvwxyzABCDEFGHIJKLMNOPQRSTUVWXYZ0123456789-"


# ---------------------------------------------------------------------------------------------
# reference implementation of the property text (never looks at the C code or the model)

def ref_valid(s, w):
    """accepted exactly when: 3..128 chars, letters/digits/'-'/'.', >= 2 labels, every label
    1..63 chars; with w the first label may be a single '*'."""
    if not 3 <= len(s) <= 128:
        return False
    labels = s.split(b'.')
    if len(labels) < 2:
        return False
    if w and labels[0] == b'*':
        check = labels[1:]
    else:
        check = labels
    for l in check:
        for c in l:
            if c not in LEGAL_SET:
                return False
    return all(1 <= len(l) <= 63 for l in labels)


def ref_match(q, d):
    """data length when the name q belongs to the accepted domain d, else -1.
    q belongs to d when the labels of q end with the labels of d (ASCII case-insensitive),
    a leading '*' label of d standing for exactly one non-empty label without '*'."""
    ql = q.lower().split(b'.')      # bytes.lower() is ASCII-only
    dl = d.lower().split(b'.')
    if len(ql) < len(dl):
        return -1
    tail = ql[len(ql) - len(dl):]
    if dl[0] == b'*':
        if tail[1:] != dl[1:] or tail[0] == b'' or b'*' in tail[0]:
            return -1
    elif tail != dl:
        return -1
    matched = sum(len(l) for l in tail) + len(tail) - 1
    return len(q) - matched


def has_dotdot(q):
    return b'..' in q


# ---------------------------------------------------------------------------------------------
# case generation

def all_strings(maxlen, alpha=ALPHA):
    for n in range(0, maxlen + 1):
        for t in itertools.product(alpha, repeat=n):
            yield bytes(t)


def batched(items, n):
    for i in range(0, len(items), n):
        yield items[i:i + n]


def vline(w, strs):
    return 'V %d %s' % (w, ','.join(hexs(s) for s in strs))


def mline(doms, qs):
    return 'M %s %s' % (','.join(hexs(d) for d in doms), ','.join(hexs(q) for q in qs))


def rand_label(rng, n, alpha=LABEL_CH):
    return bytes(rng.choice(alpha) for _ in range(n))


def rand_domain(rng, wild):
    """a random accepted domain, lengths biased to the limits"""
    mode = rng.randrange(6)
    if mode == 0:
        total = rng.choice([126, 127, 128])
    elif mode == 1:
        total = rng.randrange(3, 12)
    else:
        total = rng.randrange(3, 129)
    labels = [b'*'] if wild else []
    used = 2 if wild else 0
    while True:
        left = total - used
        if left <= 0:
            break
        n = min(left, rng.choice([1, 2, 3, 5, 8, 20, 62, 63, 63]))
        if left - n == 1:       # would leave room for a dot but no label
            n = left if left <= 63 else n - 1
        labels.append(rand_label(rng, n))
        used += n + 1
    while len(labels) < 2:
        labels.append(rand_label(rng, 1))
    d = b'.'.join(labels)
    while len(d) > 128 or len(d) < 3:
        d = d[:-1] if len(d) > 128 else d + b'a'
    if d.endswith(b'.'):
        d = d[:-1] + b'a'
    return d


def flip_case(rng, s):
    return bytes((c ^ 0x20) if (65 <= c <= 90 or 97 <= c <= 122) and rng.randrange(3) == 0 else c for c in s)


def rand_prefix(rng, n):
    """the data part of a query name: labels of encoded data; sometimes raw high bytes, stars"""
    kind = rng.randrange(5)
    out = bytearray()
    while len(out) < n:
        if kind == 0:
            c = rng.randrange(1, 256)
        elif kind == 1:
            c = rng.choice(b"abcxyz019-*")
        else:
            c = rng.choice(LABEL_CH)
        if rng.randrange(12) == 0:
            c = 0x2e
        if c == 0x2e and (not out or out[-1] == 0x2e):
            continue
        out.append(c)
    return bytes(out[:n])


def gen_cases(seed, tier):
    rng = vlib.rng_for(seed, 'c17')
    cases = []
    st = dict(corpus=0, valid_exhaustive=0, valid_boundary=0, valid_charclass=0, valid_random=0,
              match_exhaustive_queries=0, match_exhaustive_pairs=0, match_dotdot_queries=0,
              match_random_pairs=0, match_boundary_pairs=0)
    cp = os.path.join(vlib.VERIF, 'corpus', 'C17')
    if os.path.isdir(cp):
        for fn in sorted(os.listdir(cp)):
            for l in open(os.path.join(cp, fn)):
                l = l.strip()
                if l and not l.startswith('#'):
                    cases.append(l)
                    st['corpus'] += 1

    # --- validation: exhaustive small strings, both flags
    vmax = 6 if tier == 'quick' else 7
    strs = list(all_strings(vmax))
    for w in (0, 1):
        for b in batched(strs, 256):
            cases.append(vline(w, b))
        st['valid_exhaustive'] += len(strs)

    # --- validation: length boundaries
    bnd = []
    for n in (1, 2, 62, 63, 64, 65, 127, 128, 129):
        lab = b'a' * n
        bnd += [lab + b'.b', b'b.' + lab, b'b.' + lab + b'.c', lab, lab + b'.', b'.' + lab,
                b'*.' + lab, b'*.' + lab + b'.c', b'*.b.' + lab, b'*' + lab + b'.c', lab + b'.*',
                lab + b'.' + lab, lab + b'..' + lab]
    for total in (2, 3, 4, 126, 127, 128, 129, 130, 200, 255, 256, 300):
        # domains of exactly `total` chars made of legal labels (each <= 63)
        for first in (1, 63, 30):
            labs = []
            left = total
            n = first
            while left > 0:
                n = min(n, left)
                if left - n == 1:
                    n = n - 1 if n > 1 else left
                labs.append(b'x' * n)
                left -= n + 1
                n = 63
            d = b'.'.join(labs)
            if len(d) == total:
                bnd += [d, b'*.' + d[2:] if len(d) > 2 else d, d[:-1] + b'.', d.replace(b'.', b'-')]
    bnd += [b'', b'a', b'.', b'*', b'a.', b'.a', b'ab', b'*.', b'.*', b'a.b', b'*.a', b'a.*', b'*a.', b'**.a',
            b'*.*.a', b'b*.a', b'*b.a', b'*..a', b'*.a.', b'*.a.b', b'a.b.c', b'-.-', b'0.0', b'a-.b', b'-a.b']
    for w in (0, 1):
        for b in batched(bnd, 64):
            cases.append(vline(w, b))
        st['valid_boundary'] += len(bnd)

    # --- validation: every byte value 1..255 at the first / a middle / the last position
    cc = []
    for c in range(1, 256):
        ch = bytes([c])
        cc += [ch + b'b.c', b'a' + ch + b'.c', b'a.b' + ch, b'*.' + ch, ch + b'.a', b'a.' + ch + b'.c']
    for w in (0, 1):
        for b in batched(cc, 256):
            cases.append(vline(w, b))
        st['valid_charclass'] += len(cc)

    # --- validation: random domains (valid by construction) and one-edit mutations of them
    nrv = 3000 if tier == 'quick' else 40000
    rv = []
    for _ in range(nrv):
        d = rand_domain(rng, rng.randrange(3) == 0)
        m = rng.randrange(8)
        if m == 0 and d:
            i = rng.randrange(len(d))
            d = d[:i] + bytes([rng.choice(b"*.-_ @[`{/:aZ9") if rng.randrange(2) else rng.randrange(1, 256)]) + d[i + 1:]
        elif m == 1:
            i = rng.randrange(len(d) + 1)
            d = d[:i] + bytes([rng.choice(b".*a-")]) + d[i:]
        elif m == 2 and len(d) > 1:
            i = rng.randrange(len(d))
            d = d[:i] + d[i + 1:]
        elif m == 3:
            d = d + b'a' * rng.randrange(0, 66)
        rv.append(d)
    for w in (0, 1):
        for b in batched(rv, 64):
            cases.append(vline(w, b))
        st['valid_random'] += len(rv)

    # --- matching: exhaustive query names against the domain set
    qmax = 7 if tier == 'quick' else 8
    doms = DOMAINS_OK + DOMAINS_ODD
    qs = [q for q in all_strings(qmax) if not has_dotdot(q)]
    for b in batched(qs, 128):
        cases.append(mline(doms, b))
    st['match_exhaustive_queries'] = len(qs)
    st['match_exhaustive_pairs'] = len(qs) * len(doms)
    # names with "..": outside the property's quantifier, model == implementation only
    qdd = [q for q in all_strings(5 if tier == 'quick' else 6) if has_dotdot(q)]
    for b in batched(qdd, 128):
        cases.append(mline(doms, b))
    st['match_dotdot_queries'] = len(qdd)

    # --- matching: long random names built from the domain, and near misses
    nrm = 4000 if tier == 'quick' else 60000
    for _ in range(nrm):
        wild = rng.randrange(2) == 0
        d = rand_domain(rng, wild)
        room = 255 - len(d) - 1
        base = d
        if wild:
            base = rand_label(rng, rng.choice([1, 2, 5, 30, 63])) + d[1:]
            room = 255 - len(base) - 1
        qs = []
        for _ in range(6):
            mode = rng.randrange(12)
            m = flip_case(rng, base)
            if mode == 0:
                plen = max(0, room - rng.randrange(0, 3))
            elif mode == 1:
                plen = 0
            else:
                plen = rng.randrange(0, max(1, room))
            pre = rand_prefix(rng, plen)
            if mode == 1:
                q = m                                     # the domain itself
            elif mode == 2:
                q = pre + m                               # boundary moved: no dot before the domain
            elif mode == 3 and len(m) > 1:
                i = rng.randrange(len(m))                 # one char changed
                q = pre + b'.' + m[:i] + bytes([rng.choice(b"abz019-.*A") if rng.randrange(3) else (m[i] ^ 0x40) or 1]) + m[i + 1:]
            elif mode == 4:
                i = rng.randrange(len(m) + 1)             # extra star somewhere in the matched part
                q = pre + b'.' + m[:i] + b'*' + m[i:]
            elif mode == 5:
                q = pre + b'.' + m[1:]                    # first char of the domain dropped
            elif mode == 6:
                q = pre + b'.' + m + rng.choice([b'.', b'a', b'.a'])   # something after the domain
            elif mode == 7:
                q = b'.' + m                              # leading dot
            elif mode == 8 and wild:
                q = pre + b'.' + rand_label(rng, 3) + b'.' + m   # wildcard must take one label only
            else:
                q = pre + (b'.' if pre and not pre.endswith(b'.') else b'') + m
            q = q[:255]
            if has_dotdot(q):
                q = q.replace(b'..', b'.a')
            if has_dotdot(q):
                continue
            qs.append(q)
        if qs:
            others = [rand_domain(rng, rng.randrange(2) == 0), d[:-1] if len(d) > 3 else d]
            cases.append(mline([d] + others, qs))
            st['match_random_pairs'] += len(qs) * (1 + len(others))

    # --- matching: length boundaries (2/3-char domains, 128-char domain vs 255-char name, 63-char wildcard label)
    d128 = b'.'.join([b'x' * 63, b'y' * 62, b'z'])
    assert len(d128) == 128
    w128 = b'*.' + d128[2:]
    bd = [b'a.b', b'*.a', b'ab', b'a.', d128, w128, d128[1:], b'*.b']
    bq = [b'a.b', b'.a.b', b'xa.b', b'x.a.b', b'A.B', b'a.a', b'*.a', b'x.*.a', b'b', b'.b', b'a', b'', b'ab', b'a.',
          d128, b'q.' + d128, b'q' + d128, (b'd' * 63 + b'.') + d128, b'k' * 63 + d128[1:], b'k' * 64 + d128[1:],
          b'p.' + b'k' * 63 + d128[1:], b'*' + d128[1:], b'k*' + d128[1:], (b'e' * 60 + b'.') * 2 + d128[:4].upper() + d128[4:],
          d128[1:], d128[:-1], d128 + b'a', b'x' * 255, (b'x' * 63 + b'.') * 3 + b'x' * 63]
    # bytes >= 0x80 on both sides (not an accepted domain: model == implementation only); checks the
    # "C"-locale reading of tolower(): 0xC9/0xE9 (Latin-1 E-acute) are different characters
    bd += [b'\xe9.a', b'\xff.a', b'a.\xc9']
    bq += [b'x.\xe9.a', b'x.\xc9.a', b'\xff.a', b'\xdf.a', b'\xe9.a', b'a.\xe9', b'a.\xc9', b'q.a.\xc9']
    bq = [q[:255] for q in bq]
    cases.append(mline(bd, bq))
    st['match_boundary_pairs'] = len(bd) * len(bq)
    return cases, st


# ---------------------------------------------------------------------------------------------
# oracle

def unhex_item(h):
    return b'' if h == '-' else bytes.fromhex(h)


def oracle(case, out):
    """Implementation-level oracle for one case line.  Returns None, or
    (key, description, single-input case line, observed, expected)."""
    t = case.split(' ')
    if out in ('<NO-OUTPUT>', 'UNKNOWN-CASE', 'TOO-MANY-DOMAINS'):
        return ('harness', 'no result from the implementation harness: ' + out, case, out, 'a result line')
    if t[0] == 'V':
        w = int(t[1])
        strs = [unhex_item(h) for h in t[2].split(',')]
        if len(out) != len(strs):
            return ('harness', 'result count mismatch', case, out, '%d results' % len(strs))
        for s, r in zip(strs, out):
            exp = '0' if ref_valid(s, bool(w)) else '1'
            if r != exp:
                one = vline(w, [s])
                if r == 'E':
                    return ('check_topdomain:inconsistent', 'check_topdomain(%r, %d) differs between errormsg=NULL and &msg, '
                            'or msg not set exactly on rejection' % (s, w), one, r, exp)
                if r == '0':
                    return ('check_topdomain:accepts-invalid', 'check_topdomain(%r, allow_wildcard=%d) accepts a string the '
                            'property text rejects' % (s, w), one, 'accepted', 'rejected')
                return ('check_topdomain:rejects-valid', 'check_topdomain(%r, allow_wildcard=%d) rejects a domain the '
                        'property text accepts' % (s, w), one, 'rejected', 'accepted')
        return None
    if t[0] == 'M':
        doms = [unhex_item(h) for h in t[1].split(',')]
        qs = [unhex_item(h) for h in t[2].split(',')]
        res = out.split(' ')
        if len(res) != len(qs):
            return ('harness', 'result count mismatch', case, out[:200], '%d results' % len(qs))
        okd = [(i, d) for i, d in enumerate(doms) if ref_valid(d, True)]
        for q, r in zip(qs, res):
            if has_dotdot(q):
                continue
            rr = r.split(',')
            for i, d in okd:
                exp = ref_match(q, d)
                got = int(rr[i])
                if got != exp:
                    one = mline([d], [q])
                    if exp < 0:
                        return ('query_datalen:match-outside-domain', 'query_datalen(%r, %r) = %d: a name outside the domain '
                                '(no match at a label boundary) is treated as tunnel traffic' % (q, d, got), one, got, exp)
                    if got < 0:
                        return ('query_datalen:miss-inside-domain', 'query_datalen(%r, %r) = -1: a name inside the domain is '
                                'not treated as tunnel traffic (expected data length %d)' % (q, d, exp), one, got, exp)
                    return ('query_datalen:wrong-datalen', 'query_datalen(%r, %r) = %d, the part before the matched domain '
                            'has length %d' % (q, d, got, exp), one, got, exp)
        return None
    return ('harness', 'unknown case', case, out, '')


_CASES = None
_IMPL = None


def _scan_range(ab):
    """worker: oracle + measured coverage over case lines [a, b); returns
    (index of first failing line or None, oracle result, V-strings seen, V accepted, M pairs scanned, M matches)"""
    a, b = ab
    vseen = {}
    pairs = 0
    matches = 0
    first = None
    for i in range(a, b):
        c, o = _CASES[i], _IMPL[i]
        if first is None:
            bad = oracle(c, o)
            if bad:
                first = (i, bad)
        t = c.split(' ')
        if t[0] == 'V':
            hs = t[2].split(',')
            if len(o) != len(hs):
                continue
            for h, r in zip(hs, o):
                if len(h) >= 6:
                    vseen[(t[1], h)] = r
        elif t[0] == 'M':
            dl = [0 if h == '-' else len(h) // 2 for h in t[1].split(',')]
            qh = t[2].split(',')
            res = o.split(' ')
            if len(res) != len(qh):
                continue
            for h, r in zip(qh, res):
                ql = 0 if h == '-' else len(h) // 2
                pairs += sum(1 for n in dl if 3 <= n <= ql)
                matches += len(dl) - r.count('-1')
    return first, vseen, pairs, matches


def scan_results(cases, impl, workers=16):
    """Apply the oracle to every implementation result and measure coverage, in parallel
    (fork: the workers read the parent's lists).  Returns (first failing (index, oracle
    result) or None, distinct validated strings of length >= 3, of which accepted, name/domain
    pairs for which the scan runs, matching pairs)."""
    global _CASES, _IMPL
    import multiprocessing
    _CASES, _IMPL = cases, impl
    n = min(len(cases), len(impl))
    step = max(1, (n + workers * 4 - 1) // (workers * 4))
    ranges = [(a, min(n, a + step)) for a in range(0, n, step)]
    if n < 2000:
        parts = [_scan_range(r) for r in ranges]
    else:
        with multiprocessing.get_context('fork').Pool(workers) as pool:
            parts = pool.map(_scan_range, ranges)
    first = None
    vseen = {}
    pairs = matches = 0
    for f, vs, p, m in parts:
        if f is not None and (first is None or f[0] < first[0]):
            first = f
        vseen.update(vs)
        pairs += p
        matches += m
    accepted = sum(1 for r in vseen.values() if r == '0')
    return first, len(vseen), accepted, pairs, matches


def shrink_case(case):
    return case if len(case) < 300 else case[:300] + '...(truncated)'


TRUSTED_NOTE = ('C17: tolower()/isdigit() are modelled as the ASCII-only "C"-locale functions (iodine never calls '
                'setlocale; bytes >= 0x80 reach them as negative chars, glibc returns them unchanged / not a digit); '
                'the dispatch in iodined.c (domain_len >= 0 -> tunnel handlers, else forward_query/drop) is read, not modelled')


def check(rep):
    ctx = vlib.prepare(rep, harnesses=('pure',), sanitize=(rep.tier == 'thorough'))
    rep.cov['trusted_base'].append(TRUSTED_NOTE)
    cases, stats = gen_cases(rep.seed, rep.tier)
    rep.cov['rule'] = ('validation: every string of length <= %d over {a,A,b,-,.,*,0} with both wildcard flags, label lengths '
                       '1/2/62..65/127..129 in every position, total lengths 2..4/126..130/200/255/256/300, every byte 1..255 in '
                       'first/middle/last position, random accepted domains and one-edit mutations; matching: every name of length '
                       '<= %d over that alphabet without ".." against %d accepted plain/wildcard domains (+%d non-accepted strings and '
                       'the ".." names: model==implementation only), random names up to 255 chars built as prefix.domain with case '
                       'flips plus near misses (no dot, one char changed, extra star, char dropped, trailing text, two labels for the '
                       'wildcard), 128-char domains vs 255-char names. evaluations = single function results; distinct_nontrivial = '
                       'distinct validated strings of length >= 3 + (name, domain) pairs with 3 <= |domain| <= |name| (the scan runs)'
                       % (6 if rep.tier == 'quick' else 7, 7 if rep.tier == 'quick' else 8, len(DOMAINS_OK), len(DOMAINS_ODD)))
    rep.cov['input_distribution'] = stats
    nvalid = stats['valid_exhaustive'] + stats['valid_boundary'] + stats['valid_charclass'] + stats['valid_random']
    rep.cov['case_lines'] = len(cases)
    rep.cov['samples'] = [shrink_case(c) for c in (cases[1:2] + cases[600:601] + cases[-2000:-1999] + cases[-1:])]
    rep.cov['exhaustive'] = False
    rep.cov['exhaustive_note'] = 'exhaustive over the stated alphabet and lengths only'
    impl = None
    if 'pure' in ctx.exe:
        rc, impl, err = vlib.parallel_run_cases(ctx.exe['pure'], cases, ctx.work, 'impl')
        if rc != 0:
            ctx.broken.append(('impl-crash', 'implementation harness exited with %d: %s' % (rc, err[-300:])))
        first, nv, acc, pairs, matches = scan_results(cases, impl)
        if first:
            key, why, one, got, exp = first[1]
            rep.add_violation(key, why, dict(kind='input', driver='pure', case=one, observed=str(got), expected=str(exp)))
        rep.cov['evaluations'] = nvalid + sum(stats[k] for k in ('match_exhaustive_pairs', 'match_random_pairs', 'match_boundary_pairs')) \
            + stats['match_dotdot_queries'] * (len(DOMAINS_OK) + len(DOMAINS_ODD))
        rep.cov['distinct_nontrivial'] = nv + pairs
        rep.cov['accepted_domains_seen'] = acc
        rep.cov['matching_pairs_seen'] = matches
        if 'pure' in ctx.san:
            sub = cases[:400] + cases[-3000:]
            rc, sl, err = vlib.parallel_run_cases(ctx.san['pure'], sub, ctx.work, 'san')
            rep.cov['sanitizer_case_lines'] = len(sub)
            if rc != 0:
                idx = next((i for i, l in enumerate(sl) if l == '<NO-OUTPUT>'), None)
                rep.add_violation('sanitizer', 'ASan/UBSan report in check_topdomain/query_datalen: ' + err[-400:],
                                  dict(kind='input', driver='pure.san', case=sub[idx] if idx is not None else None,
                                       observed=err[-2000:]))
    if ctx.model and impl is not None:
        rc, mod, err = vlib.parallel_run_cases(ctx.model, cases, ctx.work, 'model')
        d = vlib.first_diff(cases, impl, mod)
        rep.cov['traces_validated_against_impl'] = len(cases) if d is None else d
        if d is not None:
            ctx.broken.append(('correspondence', 'model and implementation disagree on case %r: impl=%r model=%r' % (
                shrink_case(cases[d]), impl[d][:200], mod[d][:200])))
    if not rep.violations:
        ctx.report_broken()
    return rep


def replay(rp):
    rep = vlib.Report('C17', 'quick', rp.get('seed', 1))
    ctx = vlib.prepare(rep, harnesses=('pure',), sanitize=False, prove_it=False)
    case = rp.get('case')
    if not case:
        print('replay names a broken obligation, not an input:', rp.get('broken'))
        return 1
    cp = os.path.join(ctx.work, 'replay.cases')
    open(cp, 'w').write(case + '\n')
    rc, impl, err = vlib.run_cases(ctx.exe['pure'], cp)
    rc2, mod, err2 = vlib.run_cases(ctx.model, cp) if ctx.model else (0, ['-'], '')
    print('case :', shrink_case(case))
    print('impl :', impl[0][:300] if impl else err)
    print('model:', mod[0][:300] if mod else err2)
    bad = oracle(case, impl[0]) if impl else ('crash', 'crash', case, '', '')
    print('oracle:', bad[1] if bad else 'ok')
    return 1 if bad else 0
