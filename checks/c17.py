"""C17 -- tunnel domain validation and query matching follow label boundaries exactly.
Proof: coq/Properties_C17.v (Domain.v, DomainProofs.v).  Correspondence: the real
check_topdomain()/query_datalen() of src/common.c vs the extracted model.  Implementation
oracle (independent of the model, written from the property text): reference validator and
reference label-boundary matcher below, applied to the results of the C functions.
Dispatch stage: the use of the result in tunnel_dns() of src/iodined.c (inside the domain ->
tunnel handlers, outside -> forwarded with -b / ignored), real dispatcher through the
server-history harness vs the extracted server model, plus an oracle from the property text."""
import os, sys, itertools, re, time
import vlib, srvlib, wirelib
from vlib import hexs

ALPHA = b"aAb-.*0"
# plain and wildcard domains the exhaustive query strings are matched against (all accepted
# by the server-side validation), plus a few strings that are NOT accepted domains: for those
# only model == implementation is compared
DOMAINS_OK = [b"a.b", b"ab.a", b"A.b", b"*.a.b", b"*.b0.a", b"a-0.b", b"*.a", b"0.a.b", b"b.A-"]
DOMAINS_ODD = [b"a*.b", b"a.*", b"ab", b"a..b", b"**.a"]
LEGAL = b"abcdefghijklmnopqrstuvwxyzABCDEFGHIJKLMNOPQRSTUVWXYZ0123456789-."
LEGAL_SET = frozenset(LEGAL)
LABEL_CH = b"abcdefghijklmnopqrstuvwxyzABCDEFGHIJKLMNOPQRSTUVWXYZ0123456789-"


# ---------------------------------------------------------------------------------------------
# reference implementation of the property text (never looks at the C code or the model)

def ref_valid(s, w):
    """accepted exactly when: 3..128 chars, letters/digits/'-'/'.', >= 2 labels, every label
    1..63 chars; with w the first label may be a single '*'."""
    if not 3 <= len(s) <= 128:
        return False
    labels = s.split(b'.')
    if len(labels) < 2:
        return False
    if w and labels[0] == b'*':
        check = labels[1:]
    else:
        check = labels
    for l in check:
        for c in l:
            if c not in LEGAL_SET:
                return False
    return all(1 <= len(l) <= 63 for l in labels)


def ref_match(q, d):
    """data length when the name q belongs to the accepted domain d, else -1.
    q belongs to d when the labels of q end with the labels of d (ASCII case-insensitive),
    a leading '*' label of d standing for exactly one non-empty label without '*'."""
    ql = q.lower().split(b'.')      # bytes.lower() is ASCII-only
    dl = d.lower().split(b'.')
    if len(ql) < len(dl):
        return -1
    tail = ql[len(ql) - len(dl):]
    if dl[0] == b'*':
        if tail[1:] != dl[1:] or tail[0] == b'' or b'*' in tail[0]:
            return -1
    elif tail != dl:
        return -1
    matched = sum(len(l) for l in tail) + len(tail) - 1
    return len(q) - matched


def has_dotdot(q):
    return b'..' in q


# ---------------------------------------------------------------------------------------------
# case generation

def all_strings(maxlen, alpha=ALPHA):
    for n in range(0, maxlen + 1):
        for t in itertools.product(alpha, repeat=n):
            yield bytes(t)


def batched(items, n):
    for i in range(0, len(items), n):
        yield items[i:i + n]


def vline(w, strs):
    return 'V %d %s' % (w, ','.join(hexs(s) for s in strs))


def mline(doms, qs):
    return 'M %s %s' % (','.join(hexs(d) for d in doms), ','.join(hexs(q) for q in qs))


def rand_label(rng, n, alpha=LABEL_CH):
    return bytes(rng.choice(alpha) for _ in range(n))


def rand_domain(rng, wild):
    """a random accepted domain, lengths biased to the limits"""
    mode = rng.randrange(6)
    if mode == 0:
        total = rng.choice([126, 127, 128])
    elif mode == 1:
        total = rng.randrange(3, 12)
    else:
        total = rng.randrange(3, 129)
    labels = [b'*'] if wild else []
    used = 2 if wild else 0
    while True:
        left = total - used
        if left <= 0:
            break
        n = min(left, rng.choice([1, 2, 3, 5, 8, 20, 62, 63, 63]))
        if left - n == 1:       # would leave room for a dot but no label
            n = left if left <= 63 else n - 1
        labels.append(rand_label(rng, n))
        used += n + 1
    while len(labels) < 2:
        labels.append(rand_label(rng, 1))
    d = b'.'.join(labels)
    while len(d) > 128 or len(d) < 3:
        d = d[:-1] if len(d) > 128 else d + b'a'
    if d.endswith(b'.'):
        d = d[:-1] + b'a'
    return d


def flip_case(rng, s):
    return bytes((c ^ 0x20) if (65 <= c <= 90 or 97 <= c <= 122) and rng.randrange(3) == 0 else c for c in s)


def rand_prefix(rng, n):
    """the data part of a query name: labels of encoded data; sometimes raw high bytes, stars"""
    kind = rng.randrange(5)
    out = bytearray()
    while len(out) < n:
        if kind == 0:
            c = rng.randrange(1, 256)
        elif kind == 1:
            c = rng.choice(b"abcxyz019-*")
        else:
            c = rng.choice(LABEL_CH)
        if rng.randrange(12) == 0:
            c = 0x2e
        if c == 0x2e and (not out or out[-1] == 0x2e):
            continue
        out.append(c)
    return bytes(out[:n])


def gen_cases(seed, tier):
    rng = vlib.rng_for(seed, 'c17')
    cases = []
    st = dict(corpus=0, valid_exhaustive=0, valid_boundary=0, valid_charclass=0, valid_random=0,
              match_exhaustive_queries=0, match_exhaustive_pairs=0, match_dotdot_queries=0,
              match_random_pairs=0, match_boundary_pairs=0)
    cp = os.path.join(vlib.VERIF, 'corpus', 'C17')
    if os.path.isdir(cp):
        for fn in sorted(os.listdir(cp)):
            for l in open(os.path.join(cp, fn)):
                l = l.strip()
                if l and not l.startswith('#'):
                    cases.append(l)
                    st['corpus'] += 1

    # --- validation: exhaustive small strings, both flags
    vmax = 6 if tier == 'quick' else 7
    strs = list(all_strings(vmax))
    for w in (0, 1):
        for b in batched(strs, 256):
            cases.append(vline(w, b))
        st['valid_exhaustive'] += len(strs)

    # --- validation: length boundaries
    bnd = []
    for n in (1, 2, 62, 63, 64, 65, 127, 128, 129):
        lab = b'a' * n
        bnd += [lab + b'.b', b'b.' + lab, b'b.' + lab + b'.c', lab, lab + b'.', b'.' + lab,
                b'*.' + lab, b'*.' + lab + b'.c', b'*.b.' + lab, b'*' + lab + b'.c', lab + b'.*',
                lab + b'.' + lab, lab + b'..' + lab]
    for total in (2, 3, 4, 126, 127, 128, 129, 130, 200, 255, 256, 300):
        # domains of exactly `total` chars made of legal labels (each <= 63)
        for first in (1, 63, 30):
            labs = []
            left = total
            n = first
            while left > 0:
                n = min(n, left)
                if left - n == 1:
                    n = n - 1 if n > 1 else left
                labs.append(b'x' * n)
                left -= n + 1
                n = 63
            d = b'.'.join(labs)
            if len(d) == total:
                bnd += [d, b'*.' + d[2:] if len(d) > 2 else d, d[:-1] + b'.', d.replace(b'.', b'-')]
    bnd += [b'', b'a', b'.', b'*', b'a.', b'.a', b'ab', b'*.', b'.*', b'a.b', b'*.a', b'a.*', b'*a.', b'**.a',
            b'*.*.a', b'b*.a', b'*b.a', b'*..a', b'*.a.', b'*.a.b', b'a.b.c', b'-.-', b'0.0', b'a-.b', b'-a.b']
    # domains made of numeric labels only (they look like addresses; the rule knows letters, digits, '-' and '.' only)
    nl = [b'0', b'1', b'9', b'10', b'127', b'255', b'256', b'01']
    for k in (2, 3, 4, 5):
        for t in (itertools.product(nl, repeat=k) if k <= 3 else ([rng.choice(nl) for _ in range(k)] for _ in range(120))):
            d = b'.'.join(t)
            bnd.append(d)
            if rng.randrange(4) == 0:
                bnd.append(b'*.' + d)
    bnd += [b'0.0.0.0', b'10.0.0.1', b'192.168.1.1', b'255.255.255.255', b'1.2.3.4.5', b'127.1', b'*.10.0.0.1', b'1.2.3.4a', b'a.1.2.3.4']
    for w in (0, 1):
        for b in batched(bnd, 64):
            cases.append(vline(w, b))
        st['valid_boundary'] += len(bnd)

    # --- validation: every byte value 1..255 at the first / a middle / the last position
    cc = []
    for c in range(1, 256):
        ch = bytes([c])
        cc += [ch + b'b.c', b'a' + ch + b'.c', b'a.b' + ch, b'*.' + ch, ch + b'.a', b'a.' + ch + b'.c']
    for w in (0, 1):
        for b in batched(cc, 256):
            cases.append(vline(w, b))
        st['valid_charclass'] += len(cc)

    # --- validation: random domains (valid by construction) and one-edit mutations of them
    nrv = 3000 if tier == 'quick' else 40000
    rv = []
    for _ in range(nrv):
        d = rand_domain(rng, rng.randrange(3) == 0)
        m = rng.randrange(8)
        if m == 0 and d:
            i = rng.randrange(len(d))
            d = d[:i] + bytes([rng.choice(b"*.-_ @[`{/:aZ9") if rng.randrange(2) else rng.randrange(1, 256)]) + d[i + 1:]
        elif m == 1:
            i = rng.randrange(len(d) + 1)
            d = d[:i] + bytes([rng.choice(b".*a-")]) + d[i:]
        elif m == 2 and len(d) > 1:
            i = rng.randrange(len(d))
            d = d[:i] + d[i + 1:]
        elif m == 3:
            d = d + b'a' * rng.randrange(0, 66)
        rv.append(d)
    for w in (0, 1):
        for b in batched(rv, 64):
            cases.append(vline(w, b))
        st['valid_random'] += len(rv)

    # --- matching: exhaustive query names against the domain set
    qmax = 7 if tier == 'quick' else 8
    doms = DOMAINS_OK + DOMAINS_ODD
    qs = [q for q in all_strings(qmax) if not has_dotdot(q)]
    for b in batched(qs, 128):
        cases.append(mline(doms, b))
    st['match_exhaustive_queries'] = len(qs)
    st['match_exhaustive_pairs'] = len(qs) * len(doms)
    # names with "..": outside the property's quantifier, model == implementation only
    qdd = [q for q in all_strings(5 if tier == 'quick' else 6) if has_dotdot(q)]
    for b in batched(qdd, 128):
        cases.append(mline(doms, b))
    st['match_dotdot_queries'] = len(qdd)

    # --- matching: long random names built from the domain, and near misses
    nrm = 4000 if tier == 'quick' else 60000
    for _ in range(nrm):
        wild = rng.randrange(2) == 0
        d = rand_domain(rng, wild)
        room = 255 - len(d) - 1
        base = d
        if wild:
            base = rand_label(rng, rng.choice([1, 2, 5, 30, 63])) + d[1:]
            room = 255 - len(base) - 1
        qs = []
        for _ in range(6):
            mode = rng.randrange(12)
            m = flip_case(rng, base)
            if mode == 0:
                plen = max(0, room - rng.randrange(0, 3))
            elif mode == 1:
                plen = 0
            else:
                plen = rng.randrange(0, max(1, room))
            pre = rand_prefix(rng, plen)
            if mode == 1:
                q = m                                     # the domain itself
            elif mode == 2:
                q = pre + m                               # boundary moved: no dot before the domain
            elif mode == 3 and len(m) > 1:
                i = rng.randrange(len(m))                 # one char changed
                q = pre + b'.' + m[:i] + bytes([rng.choice(b"abz019-.*A") if rng.randrange(3) else (m[i] ^ 0x40) or 1]) + m[i + 1:]
            elif mode == 4:
                i = rng.randrange(len(m) + 1)             # extra star somewhere in the matched part
                q = pre + b'.' + m[:i] + b'*' + m[i:]
            elif mode == 5:
                q = pre + b'.' + m[1:]                    # first char of the domain dropped
            elif mode == 6:
                q = pre + b'.' + m + rng.choice([b'.', b'a', b'.a'])   # something after the domain
            elif mode == 7:
                q = b'.' + m                              # leading dot
            elif mode == 8 and wild:
                q = pre + b'.' + rand_label(rng, 3) + b'.' + m   # wildcard must take one label only
            else:
                q = pre + (b'.' if pre and not pre.endswith(b'.') else b'') + m
            q = q[:255]
            if has_dotdot(q):
                q = q.replace(b'..', b'.a')
            if has_dotdot(q):
                continue
            qs.append(q)
        if qs:
            others = [rand_domain(rng, rng.randrange(2) == 0), d[:-1] if len(d) > 3 else d]
            cases.append(mline([d] + others, qs))
            st['match_random_pairs'] += len(qs) * (1 + len(others))

    # --- matching: length boundaries (2/3-char domains, 128-char domain vs 255-char name, 63-char wildcard label)
    d128 = b'.'.join([b'x' * 63, b'y' * 62, b'z'])
    assert len(d128) == 128
    w128 = b'*.' + d128[2:]
    bd = [b'a.b', b'*.a', b'ab', b'a.', d128, w128, d128[1:], b'*.b']
    bq = [b'a.b', b'.a.b', b'xa.b', b'x.a.b', b'A.B', b'a.a', b'*.a', b'x.*.a', b'b', b'.b', b'a', b'', b'ab', b'a.',
          d128, b'q.' + d128, b'q' + d128, (b'd' * 63 + b'.') + d128, b'k' * 63 + d128[1:], b'k' * 64 + d128[1:],
          b'p.' + b'k' * 63 + d128[1:], b'*' + d128[1:], b'k*' + d128[1:], (b'e' * 60 + b'.') * 2 + d128[:4].upper() + d128[4:],
          d128[1:], d128[:-1], d128 + b'a', b'x' * 255, (b'x' * 63 + b'.') * 3 + b'x' * 63]
    # bytes >= 0x80 on both sides (not an accepted domain: model == implementation only); checks the
    # "C"-locale reading of tolower(): 0xC9/0xE9 (Latin-1 E-acute) are different characters
    bd += [b'\xe9.a', b'\xff.a', b'a.\xc9']
    bq += [b'x.\xe9.a', b'x.\xc9.a', b'\xff.a', b'\xdf.a', b'\xe9.a', b'a.\xe9', b'a.\xc9', b'q.a.\xc9']
    bq = [q[:255] for q in bq]
    cases.append(mline(bd, bq))
    st['match_boundary_pairs'] = len(bd) * len(bq)
    return cases, st


# ---------------------------------------------------------------------------------------------
# oracle

def unhex_item(h):
    return b'' if h == '-' else bytes.fromhex(h)


def oracle(case, out):
    """Implementation-level oracle for one case line.  Returns None, or
    (key, description, single-input case line, observed, expected)."""
    t = case.split(' ')
    if out in ('<NO-OUTPUT>', 'UNKNOWN-CASE', 'TOO-MANY-DOMAINS'):
        return ('harness', 'no result from the implementation harness: ' + out, case, out, 'a result line')
    if t[0] == 'V':
        w = int(t[1])
        strs = [unhex_item(h) for h in t[2].split(',')]
        if len(out) != len(strs):
            return ('harness', 'result count mismatch', case, out, '%d results' % len(strs))
        for s, r in zip(strs, out):
            exp = '0' if ref_valid(s, bool(w)) else '1'
            if r != exp:
                one = vline(w, [s])
                if r == 'E':
                    return ('check_topdomain:inconsistent', 'check_topdomain(%r, %d) differs between errormsg=NULL and &msg, '
                            'or msg not set exactly on rejection' % (s, w), one, r, exp)
                if r == '0':
                    return ('check_topdomain:accepts-invalid', 'check_topdomain(%r, allow_wildcard=%d) accepts a string the '
                            'property text rejects' % (s, w), one, 'accepted', 'rejected')
                return ('check_topdomain:rejects-valid', 'check_topdomain(%r, allow_wildcard=%d) rejects a domain the '
                        'property text accepts' % (s, w), one, 'rejected', 'accepted')
        return None
    if t[0] == 'M':
        doms = [unhex_item(h) for h in t[1].split(',')]
        qs = [unhex_item(h) for h in t[2].split(',')]
        res = out.split(' ')
        if len(res) != len(qs):
            return ('harness', 'result count mismatch', case, out[:200], '%d results' % len(qs))
        okd = [(i, d) for i, d in enumerate(doms) if ref_valid(d, True)]
        for q, r in zip(qs, res):
            if has_dotdot(q):
                continue
            rr = r.split(',')
            for i, d in okd:
                exp = ref_match(q, d)
                got = int(rr[i])
                if got != exp:
                    one = mline([d], [q])
                    if exp < 0:
                        return ('query_datalen:match-outside-domain', 'query_datalen(%r, %r) = %d: a name outside the domain '
                                '(no match at a label boundary) is treated as tunnel traffic' % (q, d, got), one, got, exp)
                    if got < 0:
                        return ('query_datalen:miss-inside-domain', 'query_datalen(%r, %r) = -1: a name inside the domain is '
                                'not treated as tunnel traffic (expected data length %d)' % (q, d, exp), one, got, exp)
                    return ('query_datalen:wrong-datalen', 'query_datalen(%r, %r) = %d, the part before the matched domain '
                            'has length %d' % (q, d, got, exp), one, got, exp)
        return None
    return ('harness', 'unknown case', case, out, '')


_CASES = None
_IMPL = None


def _scan_range(ab):
    """worker: oracle + measured coverage over case lines [a, b); returns
    (index of first failing line or None, oracle result, V-strings seen, V accepted, M pairs scanned, M matches)"""
    a, b = ab
    vseen = {}
    pairs = 0
    matches = 0
    first = None
    for i in range(a, b):
        c, o = _CASES[i], _IMPL[i]
        if first is None:
            bad = oracle(c, o)
            if bad:
                first = (i, bad)
        t = c.split(' ')
        if t[0] == 'V':
            hs = t[2].split(',')
            if len(o) != len(hs):
                continue
            for h, r in zip(hs, o):
                if len(h) >= 6:
                    vseen[(t[1], h)] = r
        elif t[0] == 'M':
            dl = [0 if h == '-' else len(h) // 2 for h in t[1].split(',')]
            qh = t[2].split(',')
            res = o.split(' ')
            if len(res) != len(qh):
                continue
            for h, r in zip(qh, res):
                ql = 0 if h == '-' else len(h) // 2
                pairs += sum(1 for n in dl if 3 <= n <= ql)
                matches += len(dl) - r.count('-1')
    return first, vseen, pairs, matches


def scan_results(cases, impl, workers=16):
    """Apply the oracle to every implementation result and measure coverage, in parallel
    (fork: the workers read the parent's lists).  Returns (first failing (index, oracle
    result) or None, distinct validated strings of length >= 3, of which accepted, name/domain
    pairs for which the scan runs, matching pairs)."""
    global _CASES, _IMPL
    import multiprocessing
    _CASES, _IMPL = cases, impl
    n = min(len(cases), len(impl))
    step = max(1, (n + workers * 4 - 1) // (workers * 4))
    ranges = [(a, min(n, a + step)) for a in range(0, n, step)]
    if n < 2000:
        parts = [_scan_range(r) for r in ranges]
    else:
        with multiprocessing.get_context('fork').Pool(workers) as pool:
            parts = pool.map(_scan_range, ranges)
    first = None
    vseen = {}
    pairs = matches = 0
    for f, vs, p, m in parts:
        if f is not None and (first is None or f[0] < first[0]):
            first = f
        vseen.update(vs)
        pairs += p
        matches += m
    accepted = sum(1 for r in vseen.values() if r == '0')
    return first, len(vseen), accepted, pairs, matches


def shrink_case(case):
    return case if len(case) < 300 else case[:300] + '...(truncated)'


# ---------------------------------------------------------------------------------------------
# dispatch stage: the use of query_datalen()'s result in tunnel_dns() of iodined.c.
# Targeted histories (one server configuration + a sequence of query datagrams) go through the real
# tunnel_dns (harness/h_srvhist.c, built from srvlib.SRV) and through the extracted server model
# (Server.recv_datagram, model driver 'SRV').  Verdict 1: the oracle below, from the property text
# and ref_match only, on what the implementation sent.  Verdict 2: model == implementation per event.

T_A, T_NS, T_CNAME, T_NULL, T_MX, T_TXT, T_AAAA, T_SRV = 1, 2, 5, 10, 15, 16, 28, 33
D_FROM = (4, bytes([192, 0, 2, 77]), 4242)
D_FROM_KEY = '2:c000024d:4242'
D_DEST = bytes([10, 1, 2, 3])
SEND_RE = re.compile(r'^(\d+):([0-9a-f]*):(\d+)=([0-9a-f]+|-)(\{[^}]*\})?$')

d128 = b'.'.join([b'x' * 63, b'y' * 62, b'z'])
DISPATCH_DOMAINS = [b't.example.com', b'T.Example.COM', b'a.bc', b'x-1.y.z0', d128,
                    b'*.tun.org', b'*.A.b', b'*.ab.Cd.ef', b'*.' + d128[2:]]


def dispatch_qtypes(consts):
    priv = 65399
    if isinstance(consts, dict) and isinstance(consts.get('T_PRIVATE'), int):
        priv = consts['T_PRIVATE']
    return [('NS', T_NS), ('A', T_A), ('NULL', T_NULL), ('TXT', T_TXT), ('CNAME', T_CNAME), ('MX', T_MX),
            ('SRV', T_SRV), ('PRIVATE', priv), ('AAAA', T_AAAA)]


def change_char(rng, s, lo, hi):
    """s with one non-dot character at an index in [lo, hi) replaced by a different letter (not its case twin)"""
    idx = [i for i in range(lo, hi) if s[i] != 0x2e]
    i = rng.choice(idx)
    c = rng.choice([x for x in b'abcdefghijklmnopqrstuvwxyz0123456789' if x != (s[i] | 0x20) and x != s[i]])
    return s[:i] + bytes([c]) + s[i + 1:]


def dispatch_names(rng, d):
    """[(class, query name)] for the accepted domain d: (a) the domain itself in several letter cases,
    (b) the wildcard label as only extra label, (c) data labels in front, (d) near misses"""
    wild = d.startswith(b'*.')
    rest = d[2:] if wild else d
    out = []
    if wild:
        labs = [b'w', b'ab', b'Q7-x', rand_label(rng, rng.choice([1, 3, 20, 63]))]
        for lab in labs:
            s = lab + b'.' + rest
            for v in (s, s.lower(), s.upper(), flip_case(rng, s)):
                out.append(('wildcard-label', v))
        base = b'ab.' + rest
        out.append(('miss-no-wildcard-label', rest))
        out.append(('miss-star-in-label', b'a*.' + rest))
        out.append(('miss-star-in-label', b'*.' + rest))
        out.append(('miss-no-boundary', b'ab' + rest))                   # dot after the wildcard label dropped
        out.append(('miss-char', b'ab.' + change_char(rng, rest, 0, len(rest))))
        out.append(('wildcard-label', b'zab' + base))                    # the label just grows: still zero data
    else:
        for v in (d, d.lower(), d.upper(), flip_case(rng, d), flip_case(rng, d)):
            out.append(('equal', v))
        base = d
        out.append(('miss-no-boundary', b'x' + d))
        out.append(('miss-no-boundary', b'zab' + d))
        out.append(('miss-char', change_char(rng, d, 0, len(d))))
        out.append(('miss-char', b'zab.' + change_char(rng, d, 0, len(d))))
        out.append(('miss-first-char-dropped', d[1:] if d[1:2] != b'.' else b'q' + d[1:]))
    for pre in (b'zab', b'zAbC.qq', b'Z', b'ns', b'NS', b'www', b'wWw', b'x', b'yta',
                b'z' + rand_label(rng, rng.choice([4, 9, 30]), srvlib.CB32)):
        out.append(('data', pre + b'.' + flip_case(rng, base)))
    out.append(('miss-trailing', base + b'x'))
    out.append(('miss-trailing', base + b'.x'))
    out.append(('miss-trailing', base[:-1]))
    out.append(('miss-other-domain', b'www.example.org'))
    out.append(('miss-other-domain', b'zab.' + rest[:-1] + (b'q' if rest[-1:] != b'q' else b'r')))
    res = []
    for cls, n in out:
        labels = n.split(b'.')
        if len(n) <= 253 and all(1 <= len(l) <= 63 for l in labels):
            res.append((cls, n))
    return res


def gen_dispatch(seed, tier, consts):
    """-> (history lines, meta) ; meta[i] = (domain, bind port, [(class, name, qtype)])"""
    rng = vlib.rng_for(seed, 'c17-dispatch')
    hist, meta = [], []
    qid = rng.randrange(1, 60000)
    rounds = 1 if tier == 'quick' else 6
    for rnd_i in range(rounds):
        for d in DISPATCH_DOMAINS:
            assert ref_valid(d, True)
            for bind in (0, rng.choice([53, 5353, 10053])):
                for tname, qt in dispatch_qtypes(consts):
                    names = dispatch_names(rng, d)
                    now = 1000000 + rng.randrange(1000)
                    nsip = bytes([198, 51, 100, 7]).hex() if rng.randrange(4) == 0 else '-'
                    cfg = '%s - 1 10.0.0.1 27 1130 %s %d' % (d.hex(), nsip, bind)
                    evs, m = [], []
                    for cls, name in names:
                        qid = (qid + 7727) % 65535 + 1
                        dg = srvlib.dns_query(qid, qt, name, edns0=rng.randrange(3) > 0)
                        evs.append('X %d %d %d:%s:%d %s %s' % (now, rng.randrange(1 << 31), D_FROM[0], D_FROM[1].hex(), D_FROM[2],
                                                              D_DEST.hex(), dg.hex()))
                        m.append((cls, name, qt))
                    hist.append('H ' + cfg + ' ; ' + ' ; '.join(evs))
                    meta.append((d, bind, m))
    return hist, meta


def parse_sends(r):
    """one event result of h_srvhist.c -> [(destination key, datagram bytes)] ; None when unparsable"""
    try:
        sends = r.split(' T', 1)[0]
        toks = sends.split(' ')
        if int(toks[0]) != len(toks) - 1:
            return None
        out = []
        for tok in toks[1:]:
            mm = SEND_RE.match(tok)
            if not mm:
                return None
            out.append(('%s:%s:%s' % (mm.group(1), mm.group(2), mm.group(3)), bytes.fromhex(mm.group(4)) if mm.group(4) != '-' else b''))
        return out
    except (ValueError, IndexError):
        return None


def dispatch_event_oracle(domain, bind, event, result):
    """Property text applied to one query datagram and what the real tunnel_dns sent for it.
    Returns None or (key, description)."""
    t = event.split(' ')
    dg = bytes.fromhex(t[5])
    try:
        qm = wirelib.parse_msg(dg)
    except wirelib.Malformed as e:
        return ('dispatch:harness', 'generated query does not parse: %s' % e)
    name = wirelib.dotted(qm['qname'])
    qt, qid = qm['qtype'], qm['id']
    sends = parse_sends(result)
    if sends is None:
        return ('dispatch:harness', 'unparsable event result %r' % result[:200])
    answers, forwards = [], []
    for to, data in sends:
        try:
            a = wirelib.parse_msg(data)
        except wirelib.Malformed as e:
            return ('dispatch:malformed-output', 'datagram sent to %s for the query %r type %d does not parse (%s)' % (to, name, qt, e))
        (answers if a['qr'] else forwards).append((to, a))
    n = ref_match(name, domain)
    what = 'query %r type %d, domain %r, forwarding port %d' % (name, qt, domain, bind)
    if n >= 0:
        # inside the domain: tunnel traffic, whatever the data length
        if forwards:
            return ('dispatch:in-domain-forwarded', '%s: the name belongs to the domain (data length %d) but the query was forwarded to %s'
                    % (what, n, forwards[0][0]))
        for to, a in answers:
            if to != D_FROM_KEY or a['id'] != qid or wirelib.dotted(a['qname']).lower() != name.lower() or a['qtype'] != qt:
                return ('dispatch:answer-misdirected', '%s: answer sent to %s with id %d for %r' % (what, to, a['id'], wirelib.dotted(a['qname'])))
        first = name.split(b'.')[0].lower()
        aux_a = qt == T_A and ((first == b'ns' and n == 3) or (first == b'www' and n == 4))
        if qt == T_NS and n != 1:
            if len(answers) != 1 or not any(rr['type'] == T_NS for rr in answers[0][1]['answers']):
                return ('dispatch:in-domain-ns-unanswered', '%s: the name belongs to the domain (data length %d) but the NS query got %d answers'
                        % (what, n, len(answers)))
        elif aux_a:
            if len(answers) != 1 or not any(rr['type'] == T_A for rr in answers[0][1]['answers']):
                return ('dispatch:in-domain-a-unanswered', '%s: ns./www. address query inside the domain got %d answers' % (what, len(answers)))
        elif qt in TUNNEL_TYPES and n >= 2 and name[:1] in (b'z', b'Z'):
            # the stateless "Z" (case check) request: every tunnel record type is answered
            if len(answers) != 1:
                return ('dispatch:in-domain-tunnel-unanswered', '%s: case-check request inside the domain (data length %d) got %d answers'
                        % (what, n, len(answers)))
        elif qt not in TUNNEL_TYPES and qt != T_NS and answers:
            return ('dispatch:in-domain-other-type-answered', '%s: got %d answers' % (what, len(answers)))
        return None
    # outside the domain: never tunnel traffic
    if answers:
        return ('dispatch:foreign-answered', '%s: the name does not belong to the domain but the tunnel code answered it (to %s)'
                % (what, answers[0][0]))
    if bind:
        ok = len(forwards) == 1 and forwards[0][0] == '2:7f000001:%d' % bind and \
            wirelib.dotted(forwards[0][1]['qname']) == name and forwards[0][1]['qtype'] == qt
        if not ok:
            return ('dispatch:foreign-not-forwarded', '%s: the name does not belong to the domain and forwarding is configured, but %s'
                    % (what, 'nothing was sent' if not forwards else 'the server sent %d queries, first to %s for %r type %d' % (
                        len(forwards), forwards[0][0], wirelib.dotted(forwards[0][1]['qname']), forwards[0][1]['qtype'])))
    elif forwards:
        return ('dispatch:foreign-sent', '%s: no forwarding configured, but a query was sent to %s' % (what, forwards[0][0]))
    return None


TUNNEL_TYPES = set()     # filled by check()/replay() from the source constant T_PRIVATE


def set_tunnel_types(consts):
    TUNNEL_TYPES.clear()
    TUNNEL_TYPES.update(v for k, v in dispatch_qtypes(consts) if k not in ('NS', 'AAAA'))


def dispatch_history_all(case, out):
    """every event of the history the oracle objects to: (event index, key, description)"""
    parts = case.split(' ; ')
    head = parts[0].split(' ')
    domain, bind = bytes.fromhex(head[1]), int(head[8])
    res = out.split(' ; ')
    if out == '<NO-OUTPUT>' or len(res) != len(parts) - 1:
        yield (0, 'dispatch:harness', 'implementation printed %d event results for %d events' % (len(res), len(parts) - 1))
        return
    for k, (ev, r) in enumerate(zip(parts[1:], res)):
        bad = dispatch_event_oracle(domain, bind, ev, r)
        if bad:
            yield (k, bad[0], bad[1])


def dispatch_history_oracle(case, out):
    """-> None or the first (event index, key, description)"""
    return next(dispatch_history_all(case, out), None)


class FullHex:
    """run the harness / model driver with VERIF_FULL=1 (datagrams printed in full)"""
    def __enter__(self):
        self.old = os.environ.get('VERIF_FULL')
        os.environ['VERIF_FULL'] = '1'

    def __exit__(self, *a):
        if self.old is None:
            os.environ.pop('VERIF_FULL', None)
        else:
            os.environ['VERIF_FULL'] = self.old


def run_hist(exe, cases, work, tag):
    with FullHex():
        return vlib.parallel_run_cases(exe, cases, work, tag)


def single_event(case, k):
    parts = case.split(' ; ')
    return parts[0] + ' ; ' + parts[k + 1]


def dispatch_stage(rep, ctx, srv_model):
    """the dispatch stage of check(); records coverage under rep.cov['dispatch']"""
    t0 = time.time()
    set_tunnel_types(ctx.consts)
    hist, meta = gen_dispatch(rep.seed, rep.tier, ctx.consts)
    cov = dict(histories=len(hist), events=sum(len(m[2]) for m in meta), domains=len(DISPATCH_DOMAINS),
               record_types=[k for k, _ in dispatch_qtypes(ctx.consts)])
    cls = {}
    inside = zero = zero_ns = outside_fw = outside_nofw = 0
    for d, bind, m in meta:
        for c, name, qt in m:
            cls[c] = cls.get(c, 0) + 1
            n = ref_match(name, d)
            if n >= 0:
                inside += 1
                zero += n == 0
                zero_ns += n == 0 and qt == T_NS
            elif bind:
                outside_fw += 1
            else:
                outside_nofw += 1
    cov.update(name_classes=cls, in_domain_events=inside, zero_data_events=zero, zero_data_ns_events=zero_ns,
               foreign_events_forwarding=outside_fw, foreign_events_no_forwarding=outside_nofw,
               sample=hist[0][:300])
    rep.cov['dispatch'] = cov
    if 'srv' not in ctx.exe:
        return
    rc, impl, err = run_hist(ctx.exe['srv'], hist, ctx.work, 'disp-impl')
    if rc != 0:
        ctx.broken.append(('impl-crash', 'server-history harness exited with %d: %s' % (rc, err[-300:])))
    seen = dict(events_answered=0, events_forwarded=0, events_silent=0)
    for o in impl:
        for r in o.split(' ; '):
            s = parse_sends(r)
            if s is None:
                continue
            fw = sum(1 for to, data in s if len(data) > 2 and not data[2] & 0x80)
            seen['events_forwarded'] += fw > 0
            seen['events_answered'] += len(s) > fw
            seen['events_silent'] += len(s) == 0
    cov['implementation_output'] = seen
    reported = set()
    for c, o in zip(hist, impl):
        for k, key, why in dispatch_history_all(c, o):
            if key in reported:
                continue            # one concrete input per kind of verdict
            reported.add(key)
            # a one-event history when that reproduces the verdict (the queries used do not depend on session state)
            small = single_event(c, k)
            rc1, o1, _ = run_hist(ctx.exe['srv'], [small], ctx.work, 'disp-min')
            b1 = dispatch_history_oracle(small, o1[0]) if o1 else None
            if b1 and b1[1] == key:
                case, ev, obs = small, 0, o1[0]
            else:
                case, ev, obs = ' ; '.join(c.split(' ; ')[:k + 2]), k, (o.split(' ; ') + [''] * (k + 1))[k]
            rep.add_violation(key, why, dict(kind='history', driver='srv', case=case, event=ev, observed=obs[:600],
                                             expected='names inside the domain are tunnel traffic (never forwarded, NS answered); '
                                                      'names outside it are never answered (forwarded when -b is set)'))
    cov['oracle_verdicts'] = sorted(reported)
    rep.cov['evaluations'] = rep.cov.get('evaluations', 0) + cov['events']
    if 'srv' in ctx.san:
        rc, sl, err = run_hist(ctx.san['srv'], hist, ctx.work, 'disp-san')
        cov['sanitizer_histories'] = len(hist)
        if rc != 0:
            idx = next((i for i, l in enumerate(sl) if l == '<NO-OUTPUT>'), None)
            rep.add_violation('sanitizer', 'ASan/UBSan report in the dispatcher: ' + err[-400:],
                              dict(kind='history', driver='srv', case=hist[idx] if idx is not None else None, observed=err[-2000:]))
    if srv_model and not rep.violations:
        rc, mod, err = run_hist(srv_model, hist, ctx.work, 'disp-model')
        d = vlib.first_diff(hist, impl, mod)
        good = hist if d is None else hist[:d]
        cov['events_validated_against_impl'] = sum(c.count(' ; ') for c in good)
        if d is not None:
            ea, eb = impl[d].split(' ; '), mod[d].split(' ; ')
            k = next((i for i in range(min(len(ea), len(eb))) if ea[i] != eb[i]), min(len(ea), len(eb)))
            ctx.broken.append(('correspondence', 'dispatch: server model and tunnel_dns disagree at event %d: impl=%r model=%r ; case=%s' % (
                k, (ea[k] if k < len(ea) else '<end>')[:300], (eb[k] if k < len(eb) else '<end>')[:300],
                single_event(hist[d], k)[:1500] if k < hist[d].count(' ; ') else hist[d][:300])))
    cov['wall_s'] = round(time.time() - t0, 1)


TRUSTED_NOTE = ('C17: tolower()/isdigit() are modelled as the ASCII-only "C"-locale functions (iodine never calls '
                'setlocale; bytes >= 0x80 reach them as negative chars, glibc returns them unchanged / not a digit); '
                'the dispatch in iodined.c (domain_len >= 0 -> tunnel handlers, else forward_query/drop) is modelled by '
                'Server.tunnel_dns and compared with the real tunnel_dns on targeted histories only (harness/h_srvhist.c: '
                'sockets, tun, zlib and login_calculate replaced, see C14)')


import mainlib
from mainlib import CLIMAIN, SRVMAIN, aline


def startup_stage(rep, ctx, cases):
    """the call sites of check_topdomain(): the real main() of iodine.c and of iodined.c on a scripted command line
    (harness/h_mainargs.inc) accept a tunnel domain exactly when the property text does -- the client without, the
    server with the wildcard label -- and exactly when the model's check_topdomain does with that flag"""
    if 'climain' not in ctx.exe or 'srvmain' not in ctx.exe:
        return
    doms = []
    seen = set()
    vl = [c for c in cases if c.startswith('V ')]
    lim = 8000 if rep.tier == 'quick' else 60000
    # a slice of the exhaustive short-string block, then every boundary / character-class / random / mutated string (longer than 8)
    for j, c in enumerate(vl):
        for h in c.split(' ')[2].split(','):
            d = unhex_item(h)
            if (j < 4 or len(d) > 8) and d not in seen and b'\0' not in d and len(d) < 900:
                seen.add(d)
                doms.append(d)
    doms = doms[:lim]
    for d in (b'*.a.b', b'*.foo.com', b'*.t.example.com', b'a.b', b'*.' + b'x' * 63 + b'.y', b'*'):
        if d not in seen:
            doms.append(d)
    cli = [aline([b'-f', b'-P', b'pw', b'--', b'127.0.0.1', d]) for d in doms]
    srv = [aline([b'-f', b'-P', b'pw', b'--', b'10.0.0.1/27', d]) for d in doms]
    cov = dict(domains=len(doms))
    rc1, oc, e1 = vlib.parallel_run_cases(ctx.exe['climain'], cli, ctx.work, 'climain')
    rc2, osv, e2 = vlib.parallel_run_cases(ctx.exe['srvmain'], srv, ctx.work, 'srvmain')
    if rc1 != 0 or rc2 != 0:
        ctx.broken.append(('impl-crash', 'main() harness exited with %d / %d: %s' % (rc1, rc2, (e1 + e2)[-300:])))
    mod = {}
    if ctx.model:
        for w in (0, 1):
            lines = [vline(w, b) for b in batched(doms, 64)]
            rc, mo, err = vlib.parallel_run_cases(ctx.model, lines, ctx.work, 'model-main%d' % w)
            flat = ''.join(mo)
            if len(flat) == len(doms):
                mod[w] = flat
            else:
                ctx.broken.append(('correspondence', 'model gave %d verdicts for %d domains (startup stage)' % (len(flat), len(doms))))
    acc = [0, 0]
    for w, outs, which, lines in ((0, oc, 'iodine', cli), (1, osv, 'iodined', srv)):
        for i, (d, o) in enumerate(zip(doms, outs)):
            got = o.startswith('ACCEPT')
            exp = ref_valid(d, bool(w))
            acc[w] += got
            if got and exp:
                f = mainlib.fields(o) or {}
                if f.get('topdomain') != hexs(d):
                    rep.add_violation('startup:%s-domain-altered' % which, 'main() of %s accepts the tunnel domain %r but goes on with %r' % (
                        which, d, bytes.fromhex(f['topdomain']) if f.get('topdomain') not in (None, 'UNSET', '-') else f.get('topdomain')),
                        dict(kind='input', driver=which + '-main', case=lines[i], observed=o, expected='topdomain=' + hexs(d)))
                    break
            if got != exp:
                key = 'startup:%s-%s' % (which, 'accepts-invalid' if got else 'rejects-valid')
                rep.add_violation(key, 'the real main() of %s %s the tunnel domain %r; the property text (%s) %s it' % (
                    which, 'accepts' if got else 'rejects', d, 'server: a leading wildcard label is allowed' if w else
                    'client: no wildcard', 'rejects' if got else 'accepts'),
                    dict(kind='input', driver=which + '-main', case=lines[i], observed=o, expected='ACCEPT' if exp else 'REJECT'))
                break
            if w in mod and (mod[w][i] == '0') != got:
                ctx.broken.append(('correspondence', 'startup stage: main() of %s %s %r, the model check_topdomain(.., %d) says %s' % (
                    which, 'accepts' if got else 'rejects', d, w, mod[w][i])))
                break
    cov['client_accepted'], cov['server_accepted'] = acc
    cov['wildcard_domains'] = sum(1 for d in doms if d.startswith(b'*'))
    rep.cov['startup'] = cov
    rep.cov['evaluations'] = rep.cov.get('evaluations', 0) + 2 * len(doms)
    rep.cov['rule'] += ('. Startup stage: %d tunnel domains as the last command-line argument of the real main() of iodine.c and of '
                        'iodined.c (harness/h_mainargs.inc, run up to open_tun): accepted iff the property text accepts it without / '
                        'with the wildcard label, and iff the model check_topdomain does' % len(doms))


def prepare_both(rep, sanitize, prove_it=True):
    """pure harness + C17 model (check_topdomain / query_datalen), server-history harness + SRV model (dispatch)"""
    ctx = vlib.prepare(rep, harnesses={'pure': vlib.pure_harness('C17'), 'srv': srvlib.SRV, 'climain': CLIMAIN, 'srvmain': SRVMAIN},
                       sanitize=sanitize, prove_it=prove_it)
    srv_model = None
    if ctx.consts is not None:
        mok, exe, lg = vlib.build_model_driver('SRV')
        if mok:
            srv_model = exe
        else:
            ctx.broken.append(('extraction', 'server model extraction / driver build failed: ' + lg[-400:]))
    return ctx, srv_model


def check(rep):
    ctx, srv_model = prepare_both(rep, sanitize=(rep.tier == 'thorough'))
    rep.cov['trusted_base'].append(TRUSTED_NOTE)
    cases, stats = gen_cases(rep.seed, rep.tier)
    rep.cov['rule'] = ('validation: every string of length <= %d over {a,A,b,-,.,*,0} with both wildcard flags, label lengths '
                       '1/2/62..65/127..129 in every position, total lengths 2..4/126..130/200/255/256/300, every byte 1..255 in '
                       'first/middle/last position, random accepted domains and one-edit mutations; matching: every name of length '
                       '<= %d over that alphabet without ".." against %d accepted plain/wildcard domains (+%d non-accepted strings and '
                       'the ".." names: model==implementation only), random names up to 255 chars built as prefix.domain with case '
                       'flips plus near misses (no dot, one char changed, extra star, char dropped, trailing text, two labels for the '
                       'wildcard), 128-char domains vs 255-char names. evaluations = single function results; distinct_nontrivial = '
                       'distinct validated strings of length >= 3 + (name, domain) pairs with 3 <= |domain| <= |name| (the scan runs)'
                       % (6 if rep.tier == 'quick' else 7, 7 if rep.tier == 'quick' else 8, len(DOMAINS_OK), len(DOMAINS_ODD)))
    rep.cov['input_distribution'] = stats
    nvalid = stats['valid_exhaustive'] + stats['valid_boundary'] + stats['valid_charclass'] + stats['valid_random']
    rep.cov['case_lines'] = len(cases)
    rep.cov['samples'] = [shrink_case(c) for c in (cases[1:2] + cases[600:601] + cases[-2000:-1999] + cases[-1:])]
    rep.cov['exhaustive'] = False
    rep.cov['exhaustive_note'] = 'exhaustive over the stated alphabet and lengths only'
    impl = None
    if 'pure' in ctx.exe:
        rc, impl, err = vlib.parallel_run_cases(ctx.exe['pure'], cases, ctx.work, 'impl')
        if rc != 0:
            ctx.broken.append(('impl-crash', 'implementation harness exited with %d: %s' % (rc, err[-300:])))
        first, nv, acc, pairs, matches = scan_results(cases, impl)
        if first:
            key, why, one, got, exp = first[1]
            rep.add_violation(key, why, dict(kind='input', driver='pure', case=one, observed=str(got), expected=str(exp)))
        rep.cov['evaluations'] = nvalid + sum(stats[k] for k in ('match_exhaustive_pairs', 'match_random_pairs', 'match_boundary_pairs')) \
            + stats['match_dotdot_queries'] * (len(DOMAINS_OK) + len(DOMAINS_ODD))
        rep.cov['distinct_nontrivial'] = nv + pairs
        rep.cov['accepted_domains_seen'] = acc
        rep.cov['matching_pairs_seen'] = matches
        if 'pure' in ctx.san:
            sub = cases[:400] + cases[-3000:]
            rc, sl, err = vlib.parallel_run_cases(ctx.san['pure'], sub, ctx.work, 'san')
            rep.cov['sanitizer_case_lines'] = len(sub)
            if rc != 0:
                idx = next((i for i, l in enumerate(sl) if l == '<NO-OUTPUT>'), None)
                rep.add_violation('sanitizer', 'ASan/UBSan report in check_topdomain/query_datalen: ' + err[-400:],
                                  dict(kind='input', driver='pure.san', case=sub[idx] if idx is not None else None,
                                       observed=err[-2000:]))
    if ctx.model and impl is not None:
        rc, mod, err = vlib.parallel_run_cases(ctx.model, cases, ctx.work, 'model')
        d = vlib.first_diff(cases, impl, mod)
        rep.cov['traces_validated_against_impl'] = len(cases) if d is None else d
        if d is not None:
            ctx.broken.append(('correspondence', 'model and implementation disagree on case %r: impl=%r model=%r' % (
                shrink_case(cases[d]), impl[d][:200], mod[d][:200])))
    rep.cov['rule'] += ('. Dispatch stage: for each of %d accepted domains (plain, upper-case, 128 chars, leading wildcard), forwarding '
                        'port set / not set and 9 record types (NS, A, NULL, TXT, CNAME, MX, SRV, PRIVATE, AAAA) one history of query '
                        'datagrams through the real tunnel_dns and the server model: the domain itself in several letter cases, the '
                        'wildcard label as only extra label, data labels (case check "z", ns., www., others), near misses (one char '
                        'changed, no label boundary, first char dropped, trailing text, star in the wildcard label, other domain); '
                        'oracle from ref_match: inside => never forwarded, NS / ns. / www. / case-check answered; outside => never '
                        'answered, forwarded iff a port is configured; then model == implementation per event' % len(DISPATCH_DOMAINS))
    dispatch_stage(rep, ctx, srv_model)
    startup_stage(rep, ctx, cases)
    if not rep.violations:
        ctx.report_broken()
    return rep


def replay_dispatch(rp, case):
    """a history through the real tunnel_dns (and the server model); verdict of the dispatch oracle"""
    rep = vlib.Report('C17', 'quick', rp.get('seed', 1))
    ctx, srv_model = prepare_both(rep, sanitize=False, prove_it=False)
    set_tunnel_types(ctx.consts)
    if 'srv' not in ctx.exe:
        print('server-history harness does not build:', [t for k, t in ctx.broken if k == 'build:srv'])
        return 1
    rc, impl, err = run_hist(ctx.exe['srv'], [case], ctx.work, 'replay')
    k = rp.get('event') or 0
    parts = case.split(' ; ')
    head = parts[0].split(' ')
    print('domain:', bytes.fromhex(head[1]), ' forwarding port:', head[8])
    try:
        qm = wirelib.parse_msg(bytes.fromhex(parts[k + 1].split(' ')[5]))
        nm = wirelib.dotted(qm['qname'])
        print('query :', nm, 'type', qm['qtype'], 'id', qm['id'], ' reference data length:', ref_match(nm, bytes.fromhex(head[1])))
    except (wirelib.Malformed, IndexError, ValueError):
        pass
    print('case  :', case[:600])
    evs = impl[0].split(' ; ') if impl else []
    print('impl  :', (evs[k] if k < len(evs) else (impl[0] if impl else err))[:600])
    if srv_model:
        rc2, mod, err2 = run_hist(srv_model, [case], ctx.work, 'replay-model')
        mevs = mod[0].split(' ; ') if mod else []
        print('model :', (mevs[k] if k < len(mevs) else (mod[0] if mod else err2))[:600])
    bad = dispatch_history_oracle(case, impl[0]) if impl else (0, 'crash', 'no output')
    print('oracle:', ('%s: %s' % (bad[1], bad[2])) if bad else 'ok')
    return 1 if bad else 0


def replay(rp):
    case = rp.get('case')
    if not case:
        print('replay names a broken obligation, not an input:', rp.get('broken'))
        return 1
    if rp.get('driver') == 'srv' or case.startswith('H '):
        return replay_dispatch(rp, case)
    rep = vlib.Report('C17', 'quick', rp.get('seed', 1))
    ctx = vlib.prepare(rep, harnesses=('pure',), sanitize=False, prove_it=False)
    cp = os.path.join(ctx.work, 'replay.cases')
    open(cp, 'w').write(case + '\n')
    rc, impl, err = vlib.run_cases(ctx.exe['pure'], cp)
    rc2, mod, err2 = vlib.run_cases(ctx.model, cp) if ctx.model else (0, ['-'], '')
    print('case :', shrink_case(case))
    print('impl :', impl[0][:300] if impl else err)
    print('model:', mod[0][:300] if mod else err2)
    bad = oracle(case, impl[0]) if impl else ('crash', 'crash', case, '', '')
    print('oracle:', bad[1] if bad else 'ok')
    return 1 if bad else 0
