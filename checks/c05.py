"""C05 -- the server survives arbitrary datagrams (memory safety, termination, keeps serving).

Proof: coq/Properties_C05.v (index / length safety and termination of the modelled parsers and
state updates, other sessions untouched).  What the theorem cannot carry -- undefined behaviour of
the compiled program -- is searched for here:

  * hostile histories (checks/c05gen.py: every class of malformed datagram / tun packet of the
    property's quantifier, interleaved with 1-3 healthy sessions in every handshake / transfer
    state) are run through the real iodined.c dispatcher (harness/h_srvhist.c)
      - plain build,
      - -O1 -fsanitize=address,undefined -fno-sanitize-recover=all build: ANY report, crash,
        non-zero exit or time-out is a violation,
      - and the extracted Coq model (coq/Server.v via ocaml/drv_srv.ml); both builds must print
        exactly what the model prints (datagrams sent, tun writes, digest of every session) after
        every event;
  * liveness oracle on the implementation's own output, independent of the model: after every
    3rd-5th hostile event an established session pings twice; at least one proper ping answer
    (data header, >= 2 bytes) must go to its address (raw sessions: a raw ping reply);
  * diagnostics oracle: the number of "Unhandled raw command" warnings equals the number of
    well-formed raw frames with an unknown command nibble in the input (a frame shorter than the
    raw header must not be dispatched on bytes it does not contain).

A failing history is cut to the shortest failing prefix and then thinned out; the replay file holds
the minimised history line."""
import os, re, json, time, threading
from concurrent.futures import ThreadPoolExecutor
import vlib
import srvlib
import c05gen

NSHARD = 16
RAWHDR = '10d19e'


# ---- running -----------------------------------------------------------------------------------------------------
def split_hist(line):
    parts = line.split(' ; ')
    return parts[0], parts[1:]


def join_hist(cfg, events):
    return cfg + ' ; ' + ' ; '.join(events)


def complete(case, line):
    """an output line is complete when it has one segment per event (a crash can leave a flushed partial line)"""
    return line not in ('<NO-OUTPUT>', '<NOT-RUN>') and line.count(' ; ') == case.count(' ; ') - 1


def run_history(exe, case, workdir, tag, timeout):
    """one history = one process: histories must not share the server's static state (the rotating answer
    topdomain of write_dns_nameenc survives srv_init), and a crash is attributed to exactly its history.
    Returns (rc, output line or '<NO-OUTPUT>', full stderr)"""
    rc, lines, err = vlib.parallel_run_cases(exe, [case], workdir, tag, shards=1, timeout=timeout)
    base = os.path.join(workdir, '%s.0.cases' % tag)
    try:
        full = open(base + '.err', 'rb').read().decode('latin-1')
    except OSError:
        full = err
    for ext in ('', '.out', '.err'):
        try:
            os.remove(base + ext)
        except OSError:
            pass
    line = lines[0] if lines else '<NO-OUTPUT>'
    if rc == 124:
        full = 'TIMEOUT\n' + full
    if rc == 0 and not complete(case, line):
        rc = 1
        full += '\nincomplete output line (exit code 0)'
    if rc != 0:
        line = '<NO-OUTPUT>'
    return rc, line, full


def run_all(exe, cases, workdir, tag, timeout=900):
    """-> (lines aligned with cases, fails [(index, rc, stderr)], stderr per history)"""
    n = len(cases)
    lines = [None] * n
    errs = [None] * n
    fails = []
    with ThreadPoolExecutor(max_workers=NSHARD) as ex:
        futs = [ex.submit(run_history, exe, c, workdir, '%s.h%d' % (tag, i), timeout) for i, c in enumerate(cases)]
        for i, f in enumerate(futs):
            rc, line, err = f.result()
            lines[i] = line
            errs[i] = err
            if rc != 0:
                fails.append((i, rc, err))
    return lines, fails, errs


_single_lock = threading.Lock()
_single_n = [0]


def run_one(exe, workdir, line, timeout=120):
    with _single_lock:
        _single_n[0] += 1
        k = _single_n[0]
    return run_history(exe, line, workdir, 'single%d' % k, timeout)


# ---- sanitizer reports ---------------------------------------------------------------------------------------------
def san_report(err):
    """(key, first lines of the report)"""
    lines = err.split('\n')
    start = None
    for i, l in enumerate(lines):
        if 'runtime error:' in l or 'ERROR: AddressSanitizer' in l or 'ERROR: UndefinedBehaviorSanitizer' in l or 'AddressSanitizer:' in l:
            start = i
            break
    if err.startswith('TIMEOUT'):
        return 'hang:time-out', 'TIMEOUT: no result within the time limit'
    if start is None:
        tail = [l for l in lines if l.strip()][-6:]
        return 'crash:no-report', '\n'.join(tail)
    rpt = lines[start:start + 14]
    key = None
    first_fn = None
    seen_frame = False
    for l in lines[start:start + 60]:
        m = re.search(r'#\d+ 0x[0-9a-f]+ in (\S+)(?: (\S+))?', l)
        if not m:
            if seen_frame:
                break              # end of the first stack trace (the faulting access)
            continue
        seen_frame = True
        fn, where = m.group(1), m.group(2) or ''
        if first_fn is None and not fn.startswith('__') and 'sanitizer' not in where and 'asan' not in where:
            first_fn = fn
        ms = re.search(r'/src/([\w.]+):(\d+)', where)
        if ms and '/iodine-verif.' in where:
            key = 'san:%s:%s' % (ms.group(1), fn)
            break
    if key is None:
        m = re.search(r'/src/([\w.]+):(\d+):\d+: runtime error', lines[start])
        if m:
            key = 'san:%s:line%s' % (m.group(1), m.group(2))
        else:
            kind = re.search(r'AddressSanitizer: ([\w-]+)', lines[start])
            key = 'san:%s:%s' % (kind.group(1) if kind else 'report', first_fn or 'unknown-site')
    return key, '\n'.join(rpt)


# ---- minimisation -----------------------------------------------------------------------------------------------------
def minimise(cfg, events, fails, budget=70):
    """events: a failing event list; fails(list) -> bool.  Shortest failing prefix by bisection, then greedy removal of
    chunks of earlier events (the last event is kept)."""
    if not fails(events):
        return None                   # not reproducible in isolation
    lo, hi = 1, len(events)           # invariant: prefix hi fails
    runs = 0
    while lo < hi and runs < 24:
        mid = (lo + hi) // 2
        runs += 1
        if fails(events[:mid]):
            hi = mid
        else:
            lo = mid + 1
    ev = events[:hi]
    chunk = max(1, (len(ev) - 1) // 2)
    while chunk >= 1 and runs < budget and len(ev) > 1:
        i = 0
        changed = False
        while i < len(ev) - 1 and runs < budget:
            cand = ev[:i] + ev[min(i + chunk, len(ev) - 1):]
            runs += 1
            if len(cand) < len(ev) and fails(cand):
                ev = cand
                changed = True
            else:
                i += chunk
        if chunk == 1 and not changed:
            break
        chunk = max(1, chunk // 2) if chunk > 1 else (1 if changed else 0)
    return ev


# ---- output parsing --------------------------------------------------------------------------------------------------------
SEND_RE = re.compile(r'^(\d+:[0-9a-f-]*:\d+)=([^{]*)(?:\{(-?\d+):([^}]*)\})?$')


def parse_event_out(seg):
    """-> (sends [(addr, datasum, rv or None, payloadsum)], tun writes [sum], state string)"""
    if ' | ' in seg:
        left, state = seg.split(' | ', 1)
    elif seg.endswith(' |'):
        left, state = seg[:-2], ''
    else:
        left, state = seg, ''
    toks = left.split(' ')
    sends, tuns = [], []
    try:
        n = int(toks[0])
    except ValueError:
        return sends, tuns, state
    for t in toks[1:1 + n]:
        m = SEND_RE.match(t)
        if m:
            sends.append((m.group(1), m.group(2), int(m.group(3)) if m.group(3) is not None else None, m.group(4) or ''))
    rest = toks[1 + n:]
    if rest and rest[0].startswith('T'):
        tuns = rest[1:]
    return sends, tuns, state


def sum_len(s):
    if s in ('', '-'):
        return 0
    if s.startswith('L'):
        return int(s[1:].split(':', 1)[0])
    return len(s) // 2


def first_bytes(s):
    """known leading bytes of a putsum() summary"""
    if s in ('', '-'):
        return b''
    if s.startswith('L'):
        s = s.split(':')[2]
    try:
        return bytes.fromhex(s)
    except ValueError:
        return b''


ANSWER_PREFIXES = [(b'BADLEN', 'BADLEN'), (b'BADIP', 'BADIP'), (b'BADCODEC', 'BADCODEC'), (b'BADFRAG', 'BADFRAG'), (b'LNAK', 'LNAK'),
                   (b'VACK', 'VACK'), (b'VNAK', 'VNAK'), (b'VFUL', 'VFUL'), (b'Base32', 'codec:Base32'), (b'Base64u', 'codec:Base64u'),
                   (b'Base64', 'codec:Base64'), (b'Base128', 'codec:Base128'), (b'Raw', 'downenc:Raw'), (b'Lazy', 'Lazy'),
                   (b'Immediat', 'Immediate')]


def classify_send(addr, data, rv, payload, bindport):
    fb = first_bytes(data)
    if fb[:3] == bytes.fromhex(RAWHDR):
        cmd = fb[3] & 0xf0 if len(fb) > 3 else 0
        return {0x10: 'raw:login-ack', 0x20: 'raw:data', 0x30: 'raw:ping-reply'}.get(cmd, 'raw:other')
    if rv is None:
        if addr.startswith('2:7f000001:'):
            return 'forwarded-query'
        return 'non-answer-datagram'
    if rv <= 0:
        return 'aux-answer(NS/A)/undecodable'
    p = first_bytes(payload)
    n = sum_len(payload)
    for pre, nm in ANSWER_PREFIXES:
        if p.startswith(pre[:len(p)]) and n >= len(pre) and len(p) >= min(len(pre), 8):
            return nm
    if n == 1 and p[:1] == b'x':
        return 'duplicate-x'
    if p[:1] == b'I' and n in (5, 17):
        return 'I:ip'
    if p[:1] and (p[0] & 0x80):
        return 'ping/data-answer:dataless' if n == 2 else 'ping/data-answer:fragment'
    if n >= 3 and len(p) >= 3 and p[2] == 107 and ((p[0] << 8) | p[1]) >= n:        # hostname answers cut the payload
        return 'R:probe-reply'
    if n == 48 and p[:2] == b'\x00\x00':
        return 'Y:downcodec-check'
    if p[:1].isdigit() and b'.' in p:
        return 'login-ok'
    if n == 2:
        return 'N:fragsize-ack'
    if p[:1] in (b'z', b'Z'):
        return 'Z:echo'
    return 'other-answer'


def probe_ok(segs, probe):
    i0, i1, addr, kind = probe
    for seg in segs[i0:i1 + 1]:
        sends, _, _ = parse_event_out(seg)
        for a, data, rv, payload in sends:
            if a != addr:
                continue
            if kind == 'rawping':
                if data.startswith(RAWHDR + '3'):
                    return True
            else:
                p = first_bytes(payload)
                if rv is not None and rv >= 2 and p and (p[0] & 0x80):
                    return True
                if rv is not None and rv <= 0 and sum_len(data) > 4096:
                    # a maximal downstream fragment: the harness' client-side decoder (4 KiB rdata buffer) gives up,
                    # the session is being served all the same
                    return 'large'
    return False


def expected_unhandled_raw(events):
    n = 0
    for e in events:
        t = e.split(' ')
        if t[0] == 'X' and len(t) >= 6 and len(t[5]) >= 8 and t[5].startswith(RAWHDR):
            if int(t[5][6], 16) not in (1, 2, 3):
                n += 1
    return n


STATE_RE = re.compile(r'(\d+):A(\d)(\d)(\d)(\d),L\d+,S\d+,C(\d)(\d),E(\d),D(\d+),F(\d+),.*?I(-?\d+)/(-?\d+)/.*?O(-?\d+)/(-?\d+)/.*?U(\d+)/')


def state_flags(state):
    fl = set()
    for m in STATE_RE.finditer(state):
        auth, rawa, locked = m.group(2) == '1', m.group(3) == '1', m.group(4) == '1'
        fl.add('session:versioned-only' if not auth else 'session:authenticated')
        if rawa:
            fl.add('session:raw-mode')
        if locked:
            fl.add('session:options-locked')
        if m.group(7) == '1':
            fl.add('session:lazy')
        if m.group(8) != '0':
            fl.add('session:codec-switched')
            fl.add('session:upstream-codec-' + {'1': 'Base64', '2': 'Base64u', '3': 'Base128'}.get(m.group(8), '?'))
        if m.group(9) != '84':
            fl.add('session:downenc-switched')
        if int(m.group(10)) > 4094:
            fl.add('session:fragsize>4094')
        if int(m.group(12)) > 0:
            fl.add('session:mid-upstream-reassembly')
        if int(m.group(13)) > 0:
            fl.add('session:downstream-pending')
        if int(m.group(15)) > 0:
            fl.add('session:downstream-queue-filled')
    return fl


# ---- corpus ------------------------------------------------------------------------------------------------------------------
def load_corpus():
    out = []
    cp = os.path.join(vlib.VERIF, 'corpus', 'C05')
    if os.path.isdir(cp):
        for fn in sorted(os.listdir(cp)):
            if not fn.endswith('.cases'):
                continue
            for l in open(os.path.join(cp, fn)):
                l = l.strip()
                if l and not l.startswith('#'):
                    out.append(l)
    return out


# ---- the check ------------------------------------------------------------------------------------------------------------------
def check(rep):
    t_start = time.time()
    ctx = vlib.prepare(rep, harnesses={'srv': srvlib.SRV}, sanitize=True, model='SRV', prove_it=not os.environ.get('C05_SKIP_PROOF'))
    rep.cov['prepare_wall_s'] = round(time.time() - t_start, 1)
    if 'srv' in ctx.exe and 'srv' not in ctx.san:
        ctx.broken.append(('build:srv.san', 'the ASan/UBSan build of the server harness failed: the sanitizer half of the check did not run'))
    corpus = load_corpus()
    t0 = time.time()
    scale = os.environ.get('C05_SCALE')
    hs, metas, stats, flav = c05gen.gen_all(rep.seed, rep.tier, scale=float(scale) if scale else None)
    cases = corpus + hs
    metas = [dict(cls=['corpus'] * len(split_hist(c)[1]), probes=[], flavour='corpus') for c in corpus] + metas
    stats = dict(stats)
    stats['corpus'] = sum(len(m['cls']) for m in metas[:len(corpus)])
    nevents = sum(len(m['cls']) for m in metas)
    rep.cov['generation_wall_s'] = round(time.time() - t0, 1)
    rep.cov['histories'] = len(cases)
    rep.cov['evaluations'] = nevents
    rep.cov['input_distribution'] = dict(sorted(stats.items(), key=lambda kv: -kv[1]))
    rep.cov['sweep_counters'] = flav.pop('sweep_counters', {})
    rep.cov['history_flavours'] = flav
    sizes = {'>=500': 0, '>=4096': 0, '>=60000': 0, '==65535': 0, '==65536': 0}
    for c in cases:
        for e in split_hist(c)[1]:
            t = e.split(' ')
            n = len(t[-1]) // 2 if t[0] in ('X', 'T') and t[-1] != '-' else 0
            for k, lim in (('>=500', 500), ('>=4096', 4096), ('>=60000', 60000)):
                if n >= lim:
                    sizes[k] += 1
            if n in (65535, 65536):
                sizes['==%d' % n] += 1
    rep.cov['large_events'] = sizes
    rep.cov['probes'] = sum(len(m['probes']) for m in metas)
    distinct = set()
    for c in cases:
        for e in split_hist(c)[1]:
            t = e.split(' ')
            if t[0] == 'X' and len(t) >= 6 and t[5] != '-':
                distinct.add('X' + t[5])
            elif t[0] == 'T' and len(t) >= 3 and t[2] != '-':
                distinct.add('T' + t[2])
    rep.cov['distinct_nontrivial'] = len(distinct)
    rep.cov['samples'] = [c[:400] for c in (cases[:2] + cases[len(corpus):len(corpus) + 3] + cases[-2:])]
    rep.cov['rule'] = ('corpus/C05 first; then hostile histories from checks/c05gen.py: 1-3 healthy sessions (states pre-version, versioned, '
                       'logged in, codec/downenc switched, lazy, mid-upstream-reassembly, downstream pending, raw mode; exact life-cycle '
                       'tracking) interleaved with the hostile classes of input_distribution (arbitrary bytes 0..70/500/4096/65000/65535/65536, '
                       'valid queries mutated / truncated at every length, header games, compression loops/chains/pointers at len-1..len+1, '
                       'labels 63/64/191/255, names around 255, bytes >= 0x80 in every header and payload position under every codec, all '
                       'first characters 1..255, userids 0..255 in both encodings, domain_len at every guard boundary per command, all data '
                       'header combinations, login lengths 15..19, fragsize 0..65535 + big tun packets, probe sizes, raw frames of every '
                       'length / nibble / userid / source, tun packets 0..65536 bytes, client-to-client, maximal upstream reassembly, long '
                       'names per query type, time jumps across the 60 s time-out + re-claimed slots); sweeps continue across histories. '
                       'distinct_nontrivial = distinct non-empty datagrams / tun packets; evaluations = events')
    rep.cov['exhaustive'] = False
    if c05gen.SKIP_CLASSES:
        rep.notes.append('DEVELOPMENT RUN: generator classes left out via C05_SKIP_CLASSES: %s' % sorted(c05gen.SKIP_CLASSES))
    rep.notes.append('tun packets of exactly 65536 bytes are only generated for destinations that are not a live user: for a live user '
                     'tunnel_tun() calls compress2() with a 64 KiB output buffer, the harness stand-in (like zlib on incompressible input) '
                     'returns Z_BUF_ERROR without writing, iodined ignores the result and queues the unwritten stack buffer `out` -- the '
                     'content is then whatever the stack held, which no model can predict (65535 bytes, the largest the real compress2 call '
                     'can succeed on with the framing stand-in, is generated)')
    rep.notes.append('the upstream reassembly clamp MIN(read, 64K - offset) cannot be reached through DNS fragments: the fragment number has 4 '
                     'bits and must strictly increase within a sequence number, so at most 16 fragments of <= 223 bytes (255-char name, Base128) '
                     'accumulate (<= 3.6 KiB); the generator drives exactly that maximum (class reassembly)')
    rep.cov['trusted_base'] = rep.cov['trusted_base'] + [
        'gcc 12 AddressSanitizer + UndefinedBehaviorSanitizer (-O1, no recover) as the detector of out-of-bounds accesses and undefined behaviour; '
        'uninitialised reads and overflows inside one struct are not detected by it (the model comparison sees their effects)',
        'harness/h_srvhist.c + wire_net.c: link-time socket/tun/zlib/login/rand stand-ins; receive buffer zero-filled before each datagram',
        'checks/c05gen.py exact tracking of the healthy sessions (slot, challenge, address, last accepted packet) for the liveness probes']
    if 'srv' not in ctx.exe:
        ctx.report_broken()
        return rep
    tmo = 240 if rep.tier == 'quick' else 900       # per history (one process each)
    work = ctx.work

    # 1. plain build
    t0 = time.time()
    impl, impl_fails, impl_errs = run_all(ctx.exe['srv'], cases, work, 'impl', tmo)
    rep.cov['impl_wall_s'] = round(time.time() - t0, 1)
    # 2. sanitizer build
    san, san_fails = None, []
    if 'srv' in ctx.san:
        t0 = time.time()
        san, san_fails, _ = run_all(ctx.san['srv'], cases, work, 'san', tmo)
        rep.cov['sanitizer_wall_s'] = round(time.time() - t0, 1)
        rep.cov['sanitizer_histories'] = sum(1 for l in san if l not in ('<NO-OUTPUT>', '<NOT-RUN>'))
    # 3. model
    mod = None
    if ctx.model:
        t0 = time.time()
        mod, mod_fails, _ = run_all(ctx.model, cases, work, 'model', tmo)
        rep.cov['model_wall_s'] = round(time.time() - t0, 1)
        for idx, rc, err in mod_fails[:1]:
            ctx.broken.append(('model-crash', 'extracted model exited with %d on history #%d: %s' % (rc, idx, err[-300:])))

    seen_keys = set()

    def san_fails_fn(cfg):
        def f(evs):
            rc, out, err = run_one(ctx.san['srv'], work, join_hist(cfg, evs), timeout=60)
            return rc != 0
        return f

    def plain_fails_fn(cfg):
        def f(evs):
            rc, out, err = run_one(ctx.exe['srv'], work, join_hist(cfg, evs), timeout=60)
            return rc != 0
        return f

    # sanitizer reports / crashes / time-outs
    tried = set()
    for idx, rc, err in san_fails:
        key0, rpt = san_report(err)
        if key0 in tried:
            continue
        tried.add(key0)
        cfg, evs = split_hist(cases[idx])
        small = (minimise(cfg, evs, san_fails_fn(cfg)) if key0 != 'hang:time-out' else evs) or evs
        line = join_hist(cfg, small)
        rc2, out2, err2 = run_one(ctx.san['srv'], work, line, timeout=120)
        key = key0
        if rc2 != 0:
            key, rpt = san_report(err2)
        else:
            line, small = cases[idx], evs
        tried.add(key)
        if key in seen_keys:
            continue
        seen_keys.add(key)
        mrc, mout, _ = run_one(ctx.model, work, line) if ctx.model else (0, '', '')
        last = small[-1]
        rep.add_violation(key, 'sanitizer build: %s on event %d of a %d-event history (class %s): %s' % (
            rpt.split('\n')[0][:300], len(small) - 1, len(small),
            metas[idx]['cls'][evs.index(last)] if last in evs and evs.index(last) < len(metas[idx]['cls']) else '?', last[:200]),
            dict(kind='sanitizer', history=line, event_index=len(small) - 1, original_events=len(evs),
                 impl='<aborted>', model=mout.split(' ; ')[-1][:600], sanitizer=rpt, exit_code=rc2 if rc2 else rc))
    for idx, rc, err in impl_fails:
        key = 'crash:plain-build' if rc != 124 else 'hang:time-out'
        if key in seen_keys or any(k.startswith('san:') for k in seen_keys):
            continue
        seen_keys.add(key)
        cfg, evs = split_hist(cases[idx])
        small = (minimise(cfg, evs, plain_fails_fn(cfg)) if rc != 124 else evs) or evs
        rep.add_violation(key, 'plain build exited with %d on a history (minimised to %d events): %s' % (rc, len(small), small[-1][:200]),
                          dict(kind='crash', history=join_hist(cfg, small), event_index=len(small) - 1, impl='<exit %d>' % rc,
                               model='', sanitizer=err[-1500:], exit_code=rc))

    # liveness, on the implementation's output alone
    nprobe = nprobe_ok = nprobe_large = 0
    for i, (c, o, m) in enumerate(zip(cases, impl, metas)):
        if o in ('<NO-OUTPUT>', '<NOT-RUN>') or not m['probes']:
            continue
        segs = o.split(' ; ')
        for p in m['probes']:
            nprobe += 1
            ok = probe_ok(segs, p)
            if ok:
                nprobe_ok += 1
                if ok == 'large':
                    nprobe_large += 1
                continue
            key = 'liveness:%s-unanswered' % p[3]
            if key in seen_keys:
                continue
            seen_keys.add(key)
            cfg, evs = split_hist(c)
            cut = evs[:p[1] + 1]
            msegs = mod[i].split(' ; ') if mod and mod[i] not in ('<NO-OUTPUT>', '<NOT-RUN>') else []
            rep.add_violation(key, 'an established session (%s) pinged after hostile traffic and got no %s at events %d..%d: %s' % (
                p[2], 'raw ping reply' if p[3] == 'rawping' else 'ping answer (>= 2 bytes, data header)', p[0], p[1],
                ' ; '.join(s.split(' | ')[0] for s in segs[p[0]:p[1] + 1])[:300]),
                dict(kind='liveness', history=join_hist(cfg, cut), event_index=p[1], probe=[p[0], p[1], p[2], p[3]],
                     impl=' ; '.join(segs[p[0]:p[1] + 1])[:1200], model=' ; '.join(msegs[p[0]:p[1] + 1])[:1200], sanitizer=''))
    rep.cov['probes_run'] = nprobe
    rep.cov['probes_answered'] = nprobe_ok
    rep.cov['probes_answered_by_undecoded_large_fragment'] = nprobe_large

    # diagnostics oracle (plain build): dispatch of raw frames
    for i, (c, err) in enumerate(zip(cases, impl_errs)):
        if impl[i] == '<NO-OUTPUT>':
            continue
        cfg, evs = split_hist(c)
        got, want = err.count('Unhandled raw command'), expected_unhandled_raw(evs)
        if got == want:
            continue
        key = 'diag:raw_decode-dispatch'
        if key in seen_keys:
            break
        seen_keys.add(key)

        def f(x, cfg=cfg):
            rc, out, er = run_one(ctx.exe['srv'], work, join_hist(cfg, x))
            return er.count('Unhandled raw command') != expected_unhandled_raw(x)
        small = minimise(cfg, evs, f) or evs
        rc, out, er = run_one(ctx.exe['srv'], work, join_hist(cfg, small))
        rep.add_violation(key, 'raw_decode dispatched %d frame(s) to the unknown-command branch, the input holds %d complete raw frame(s) '
                          'with an unknown command: %s' % (er.count('Unhandled raw command'), expected_unhandled_raw(small), small[-1][:120]),
                          dict(kind='diagnostics', history=join_hist(cfg, small), event_index=len(small) - 1,
                               impl=er[-400:], model='%d warnings expected' % expected_unhandled_raw(small), sanitizer=''))
        break

    # implementation (both builds) == model
    validated = 0
    ndiff = 0
    if mod is not None:
        for which, lines, exe in (('plain', impl, ctx.exe['srv']), ('sanitizer', san, ctx.san.get('srv'))):
            if lines is None:
                continue
            for i, (c, o, m) in enumerate(zip(cases, lines, mod)):
                if o in ('<NO-OUTPUT>', '<NOT-RUN>') or m in ('<NO-OUTPUT>', '<NOT-RUN>'):
                    continue
                if o == m:
                    if which == 'plain':
                        validated += len(metas[i]['cls'])
                    continue
                ndiff += 1
                so, sm = o.split(' ; '), m.split(' ; ')
                d = next((k for k in range(min(len(so), len(sm))) if so[k] != sm[k]), min(len(so), len(sm)))
                cfg, evs = split_hist(c)
                cls = metas[i]['cls'][d] if d < len(metas[i]['cls']) else '?'
                kind = evs[d].split(' ')[0] if d < len(evs) else '?'
                key = 'diff:%s:%s' % (kind, cls)
                if key in seen_keys or sum(1 for k in seen_keys if k.startswith('diff:')) >= 4:
                    continue
                seen_keys.add(key)

                def f(x, cfg=cfg, exe=exe):
                    l = join_hist(cfg, x)
                    rc, a, _ = run_one(exe, work, l)
                    rc2, b, _ = run_one(ctx.model, work, l)
                    return a != b
                small = minimise(cfg, evs[:d + 1], f, budget=50) or minimise(cfg, evs, f, budget=50) or evs
                line = join_hist(cfg, small)
                rc, a, _ = run_one(exe, work, line)
                rc2, bm, _ = run_one(ctx.model, work, line)
                sa, sb = a.split(' ; '), bm.split(' ; ')
                dd = next((k for k in range(min(len(sa), len(sb))) if sa[k] != sb[k]), min(len(sa), len(sb)) - 1)
                rep.add_violation(key, '%s build and model disagree at event %d of %d (class %s): %s  impl: %s  model: %s' % (
                    which, dd, len(small), cls, small[min(dd, len(small) - 1)][:160], sa[dd][:260] if dd < len(sa) else '-',
                    sb[dd][:260] if dd < len(sb) else '-'),
                    dict(kind='diff', build=which, history=line, event_index=dd, original_event_index=d,
                         impl=sa[dd][:3000] if dd < len(sa) else '', model=sb[dd][:3000] if dd < len(sb) else '', sanitizer=''))
    rep.cov['traces_validated_against_impl'] = validated
    rep.cov['histories_differing_from_model'] = ndiff

    # measured coverage, from the implementation's answers
    answers = {}
    silent = {}
    answered = {}
    flags = {}
    tunw = 0
    for c, o, m in zip(cases, impl, metas):
        if o in ('<NO-OUTPUT>', '<NOT-RUN>'):
            continue
        bind = c.split(' ')[8] if len(c.split(' ', 10)) > 8 else '0'
        for k, seg in enumerate(o.split(' ; ')):
            sends, tuns, state = parse_event_out(seg)
            cls = m['cls'][k] if k < len(m['cls']) else '?'
            if not sends and not tuns:
                silent[cls] = silent.get(cls, 0) + 1
            else:
                answered[cls] = answered.get(cls, 0) + 1
            for a, data, rv, payload in sends:
                kind = classify_send(a, data, rv, payload, bind)
                answers[kind] = answers.get(kind, 0) + 1
            tunw += len(tuns)
            for fl in state_flags(state):
                flags[fl] = flags.get(fl, 0) + 1
    answers['tun-write'] = tunw
    rep.cov['handler_guard_hits'] = dict(sorted(answers.items(), key=lambda kv: -kv[1]))
    rep.cov['events_silently_dropped_by_class'] = dict(sorted(silent.items(), key=lambda kv: -kv[1]))
    rep.cov['events_answered_by_class'] = dict(sorted(answered.items(), key=lambda kv: -kv[1]))
    rep.cov['events_with_session_state'] = dict(sorted(flags.items(), key=lambda kv: -kv[1]))
    if not rep.violations:
        ctx.report_broken()
    return rep


def replay(rp):
    rep = vlib.Report('C05', 'quick', rp.get('seed', 1))
    line = rp.get('history')
    if not line:
        print('replay names a broken obligation, not an input:', rp.get('broken'))
        return 1
    ctx = vlib.prepare(rep, harnesses={'srv': srvlib.SRV}, sanitize=True, model='SRV', prove_it=False)
    work = ctx.work
    cfg, evs = split_hist(line)
    print('history: %d events, last: %s' % (len(evs), evs[-1][:300] if evs else '-'))
    bad = False
    rc, a, err = run_one(ctx.exe['srv'], work, line) if 'srv' in ctx.exe else (1, '<NO-OUTPUT>', 'harness does not build')
    print('plain build : exit %d' % rc)
    if rc != 0:
        bad = True
        print(err[-600:])
    rc2, b, err2 = run_one(ctx.model, work, line) if ctx.model else (0, a, '')
    sa, sb = a.split(' ; '), b.split(' ; ')
    if 'srv' in ctx.san:
        rc3, s, err3 = run_one(ctx.san['srv'], work, line)
        print('sanitizer build: exit %d %s' % (rc3, '' if rc3 == 0 else san_report(('TIMEOUT\n' if rc3 == 124 else '') + err3)[1]))
        if rc3 != 0:
            bad = True
        elif s != b:
            bad = True
            print('sanitizer build output differs from the model')
    else:
        print('sanitizer build: does not build')
        bad = True
    if rc == 0 and a != b:
        d = next((k for k in range(min(len(sa), len(sb))) if sa[k] != sb[k]), min(len(sa), len(sb)))
        print('plain build and model differ at event %d:' % d)
        print('  event:', evs[d][:300] if d < len(evs) else '-')
        print('  impl :', sa[d][:600] if d < len(sa) else '-')
        print('  model:', sb[d][:600] if d < len(sb) else '-')
        bad = True
    elif rc == 0:
        print('plain build == model on all %d events; last event output: %s' % (len(sa), sa[-1][:300]))
    if rp.get('probe') and rc == 0:
        ok = probe_ok(sa, tuple(rp['probe']))
        print('liveness probe %s: %s' % (rp['probe'], 'answered' if ok else 'NOT answered'))
        bad = bad or not ok
    if rp.get('kind') == 'diagnostics' and rc == 0:
        got, want = err.count('Unhandled raw command'), expected_unhandled_raw(evs)
        print('"Unhandled raw command" warnings: %d, complete raw frames with unknown command in the input: %d' % (got, want))
        bad = bad or got != want
    return 1 if bad else 0
