"""C08 -- upstream query names are legal, within the limit, and decode to what was sent.
Correspondence: real client builders (send_chunk, send_packet family, send_fragsize_probe,
handshake queries) -> datagram -> real server decode (read_dns, query_datalen, unpack_data) vs
the extracted model.  Oracle on the implementation: independent strict parser + name/limit/suffix
checks + extraction equals the reported prefix."""
import os
import vlib
import wirelib
import srvlib
import mainlib
from wirelib import WIRE

BITS = [5, 6, 6, 7]


def mk_domain(D, rng, wild=False):
    """a valid tunnel domain of exactly D chars (labels <= 63, >= 2 labels)"""
    assert D >= 3
    alpha = 'abcdefghijklmnopqrstuvwxyzABCDEFGHIJKLMNOPQRSTUVWXYZ0123456789-'
    while True:
        # last label 1..min(8,D-2), rest split into labels of <= 63
        last = rng.randrange(1, min(8, D - 2) + 1)
        rest = D - last - 1
        labels = []
        while rest > 0:
            l = min(rest, rng.choice([63, 63, rng.randrange(1, 64)]))
            if rest - l == 1:      # would leave an empty label
                l -= 1 if l > 1 else -1
                if l > 63:
                    l = 62
            labels.append(l)
            rest -= l
            if rest > 0:
                rest -= 1
        if rest != 0 or any(l < 1 or l > 63 for l in labels):
            continue
        s = '.'.join(''.join(rng.choice(alpha) for _ in range(l)) for l in labels + [last])
        if len(s) == D and '..' not in s:
            return s.encode()


def cap_bytes(L, D, codec):
    space = L - D - 8
    space -= space // 57
    return max(1, (space * BITS[codec]) // 8)


def gen_cases(seed, tier):
    rng = vlib.rng_for(seed, 'c08')
    cases = []
    meta = []
    stats = dict(corpus=0, chunk=0, packet=0, probe=0, handshake=0, wildcard_srv=0)
    cp = os.path.join(vlib.VERIF, 'corpus', 'C08')
    if os.path.isdir(cp):
        for fn in sorted(os.listdir(cp)):
            for l in open(os.path.join(cp, fn)):
                l = l.strip()
                if l and not l.startswith('#'):
                    cases.append(l)
                    meta.append(None)
                    stats['corpus'] += 1
    Ls = range(100, 256)
    for L in Ls:
        Dmax = min(128, L - 24)
        Ds = range(3, Dmax + 1) if tier == 'thorough' else sorted(set([3, 4, Dmax, Dmax - 1] + [rng.randrange(3, Dmax + 1) for _ in range(6)]))
        for D in Ds:
            dom = mk_domain(D, rng)
            for codec in range(4):
                cb = cap_bytes(L, D, codec)
                n = rng.choice([1, max(1, cb - 1), cb, cb + 1, cb + 2, 2 * cb + 3, rng.randrange(1, 2049), 2048])
                fill = rng.randrange(4)
                data = bytes([0xff]) * n if fill == 0 else (bytes(n) if fill == 1 else bytes(rng.randrange(256) for _ in range(n)))
                srv = dom
                wild = False
                r = rng.randrange(10)
                if r == 0:
                    srv = dom.swapcase()
                elif r == 1 and b'.' in dom[1:]:
                    # server configured with a wildcard for the first label
                    srv = b'*' + dom[dom.index(b'.'):]
                    wild = True
                    stats['wildcard_srv'] += 1
                kind = rng.choice([0, 0, 0, 1, 2, 3])
                edns = rng.randrange(2)
                if kind == 0:
                    a = [rng.randrange(16), rng.randrange(8), rng.randrange(16), rng.randrange(8), rng.randrange(16)]
                    stats['chunk'] += 1
                elif kind == 1:
                    a = [rng.choice(b'plvn'), 0, 0, 0, 0]
                    if rng.randrange(2):
                        data = data[:rng.choice([4, 5, 6, 19])]
                    stats['packet'] += 1
                elif kind == 2:
                    a = [rng.randrange(16), rng.randrange(2048), rng.randrange(65536), 0, 0]
                    data = b''
                    stats['probe'] += 1
                else:
                    which = rng.randrange(10)
                    arg = {0: rng.choice([0x502, 0x501, 0, 0xffffffff]), 3: rng.choice([2, 100, 200, 1200, 4000, 65535]),
                           6: rng.choice(b'TSUVRtsuvr'), 7: rng.choice([5, 6, 26, 7]), 8: rng.choice(b'TSUVRLI')}.get(which, 0)
                    a = [which, rng.randrange(16), arg, rng.randrange(65536), 0]
                    if which == 1:
                        data = bytes(rng.randrange(256) for _ in range(16))
                    elif which == 5:
                        data = bytes(rng.choice(b'aAbBcC019-+_\xbc\xfd') for _ in range(rng.randrange(1, 60)))
                    else:
                        data = b''
                    stats['handshake'] += 1
                cases.append('K %d %d %d %s %s %d %d %d %d %d %d %s' % (codec, L, edns, dom.hex(), srv.hex(), kind,
                                                                          a[0], a[1], a[2], a[3], a[4], vlib.hexs(data)))
                meta.append(dict(L=L, D=D, dom=dom, srv=srv, wild=wild, kind=kind, a=a, data=data, codec=codec))
    return cases, meta, stats


def srv_match(name, srv):
    """independent reference for the server-side match (plain or leading-wildcard domain)"""
    nl = name.lower()
    sl = srv.lower()
    if not sl.startswith(b'*'):
        if nl == sl:
            return 0
        if nl.endswith(b'.' + sl):
            return len(name) - len(srv)
        return -1
    rest = sl[1:]
    if not nl.endswith(rest):
        return -1
    head = name[:len(name) - len(rest)]
    lab = head.split(b'.')[-1]
    if not lab or b'*' in lab:
        return -1
    return len(head) - len(lab)


def oracle(case, out, m):
    if out.startswith('NOSEND') or out == '<NO-OUTPUT>':
        return 'no query sent / crash: ' + out
    try:
        dgh, cons, rest = out.split(' | ')
    except ValueError:
        return 'unparsable result ' + out[:80]
    dg = bytes.fromhex(dgh)
    try:
        msg = wirelib.parse_msg(dg)
    except wirelib.Malformed as e:
        return 'query datagram is not well-formed: %s' % e
    name = wirelib.dotted(msg['qname'])
    if rest == 'SRVDROP':
        return 'server dropped the query'
    f = rest.split(' ')
    sid, sty, dl, ext = int(f[0]), int(f[1]), int(f[2]), f[3]
    if msg['id'] != 8727 or sid != 8727 or msg['qtype'] != 10 or sty != 10:
        return 'id/type not preserved'
    if m is None:
        return None
    limited = m['kind'] in (0, 1, 2) or (m['kind'] == 3 and m['a'][0] in (0, 1, 2, 3))
    if limited and len(name) > m['L']:
        return 'query name of %d chars exceeds the limit %d' % (len(name), m['L'])
    if not name.endswith(b'.' + m['dom']):
        return 'query name does not end in the tunnel domain'
    want_dl = srv_match(name, m['srv'])
    if dl != want_dl:
        return 'server data length %d, label-boundary reference says %d' % (dl, want_dl)
    if m['kind'] == 0:
        c = int(cons)
        if c < 1 or c > len(m['data']):
            return 'builder reports %d consumed bytes of %d' % (c, len(m['data']))
        from c09 import summ
        if ext != summ(m['data'][:c]):
            return 'server extraction differs from the reported prefix'
    elif m['kind'] == 1 or (m['kind'] == 3 and m['a'][0] == 1):
        from c09 import summ
        if m['kind'] == 1:
            d = m['data']
            ok = any(ext == summ(d[:k]) for k in range(1, len(d) + 1))
            if not ok:
                return 'server extraction is not a non-empty prefix of the message payload'
    return None


# ---------------------------------------------------------------------------------------------------------------------
# extraction stage: the data part as the real dispatcher hands it on.  tunnel_dns() of iodined.c computes the length of the
# data part and every handler cuts the name there; the wire cases above call query_datalen()/unpack_data() themselves, so
# this stage sends whole sessions (version, login, codec switch, single-fragment upstream packets) through the real
# tunnel_dns (harness/h_srvhist.c) with the server configured with the clients' domain, the same domain in other case, and
# a wildcard for its first label (first labels of 1..63 characters), and on a slot taken over from a client that had switched codec.  Oracle from the property text: the bytes written to
# the tun device are exactly the payload the name carried.  Then model == implementation per event (Server.recv_datagram).

def gen_extraction(seed, tier):
    rng = vlib.rng_for(seed, 'c08-extract')
    hs, meta = [], []
    firsts = [1, 2, 3, 10, 63] if tier == 'quick' else [1, 2, 3, 4, 7, 10, 31, 62, 63]
    alpha = b'abcdefghijklmnopqrstuvwxyz0123456789-'
    for k in firsts:
        for how in ('same', 'case', 'wild', 'reuse'):
            for codec in range(4):
                if how == 'reuse' and codec:
                    continue            # the newcomer on a re-used slot keeps Base32 and therefore sends no codec switch
                g = srvlib.HistGen(rng, adversarial=0.0)
                lab = bytes(rng.choice(alpha[:26]) for _ in range(1)) + bytes(rng.choice(alpha) for _ in range(k - 1))
                if lab.endswith(b'-'):
                    lab = lab[:-1] + b'x'
                g.domain = lab + rng.choice([b'.x.org', b'.Example.COM', b'.b'])
                g.srv_domain = {'same': g.domain, 'case': g.domain.swapcase(), 'wild': b'*' + g.domain[len(lab):], 'reuse': g.domain}[how]
                g.check_ip = 1
                g.no_case_relay = True  # a relay that rewrites letter case destroys Base64/Base64u/Base128 payloads by design
                g.qtype = rng.choice(g.QTYPES)
                if how == 'reuse':
                    # an earlier client on the same slot negotiated another codec and fell silent for more than 60 s
                    p0 = srvlib.Session(g, (4, bytes([192, 0, 2, 99]), 3999))
                    g.version(p0)
                    g.login(p0)
                    p0.rs = (p0.rs + 1) & 0xffff
                    cm0 = srvlib.b32c(p0.rs >> 10) + srvlib.b32c(p0.rs >> 5) + srvlib.b32c(p0.rs)
                    g.emit_query(p0.addr, b's' + srvlib.b32c(p0.uid) + srvlib.b32c(rng.choice([6, 26, 7])) + cm0 + b'.' + g.domain)
                    g.now += rng.choice([61, 62, 300])
                s = srvlib.Session(g, (4, bytes([192, 0, 2, 7]), 4000 + k))
                g.version(s)
                g.login(s)
                if codec:
                    s.rs = (s.rs + 1) & 0xffff
                    cm = srvlib.b32c(s.rs >> 10) + srvlib.b32c(s.rs >> 5) + srvlib.b32c(s.rs)
                    g.emit_query(s.addr, b's' + srvlib.b32c(s.uid) + srvlib.b32c([5, 6, 26, 7][codec]) + cm + b'.' + g.domain)
                    s.codec = codec
                s.up_seq = 1            # the server starts at upstream seqno 0: a first packet numbered 0 would be a re-send
                want = {}
                for _ in range(3):
                    n = rng.choice([24, 25, 31, 40, 47])
                    ip = bytearray(rng.randrange(256) for _ in range(n))
                    ip[20:24] = bytes([8, 8, 8, 8])
                    # one complete single-fragment upstream packet: userid, upstream seqno / fragment 0, nothing acked, last
                    hdr = ('%x' % s.uid).encode() + srvlib.b32c((s.up_seq & 7) << 2) + srvlib.b32c(0) + srvlib.b32c(1)
                    hdr += b'abcdefghijklmnopqrstuvwxyz0123456789'[s.cmc % 36:s.cmc % 36 + 1]
                    s.cmc += 1
                    g.emit_query(s.addr, srvlib.qname(hdr, srvlib.enc(s.codec, bytes([0x5A]) + bytes(ip)), g.domain))
                    s.up_seq = (s.up_seq + 1) & 7
                    want[len(g.events) - 1] = bytes(ip)
                    g.now += 1
                hs.append('H ' + g.cfg() + ' ; ' + ' ; '.join(g.events))
                meta.append(dict(first=k, how=how, codec=codec, want=want, dom=g.domain, srv=g.srv_domain))
    return hs, meta


def extraction_stage(rep, ctx):
    if 'srv' not in ctx.exe:
        return
    hs, meta = gen_extraction(rep.seed, rep.tier)
    os.environ['VERIF_FULL'] = '1'
    try:
        rc, impl, err = vlib.parallel_run_cases(ctx.exe['srv'], hs, ctx.work, 'extract-impl')
        ok, model, lg = vlib.build_model_driver('SRV')
        mod = None
        if ok:
            rc2, mod, err2 = vlib.parallel_run_cases(model, hs, ctx.work, 'extract-model')
        else:
            ctx.broken.append(('extraction', 'server model driver does not build: ' + lg[-300:]))
    finally:
        os.environ.pop('VERIF_FULL', None)
    if rc != 0:
        ctx.broken.append(('impl-crash', 'server history harness exited with %d: %s' % (rc, err[-300:])))
    npk = 0
    for h, o, m in zip(hs, impl, meta):
        segs = o.split(' ; ')
        bad = None
        for idx, ip in m['want'].items():
            npk += 1
            seg = segs[idx] if idx < len(segs) else ''
            t = seg.split(' T', 1)
            tun = t[1].split(' ') if len(t) == 2 else ['0']
            if tun[0] != '1' or len(tun) < 2 or tun[1] != ip.hex():
                bad = (idx, seg, ip)
                break
        if bad:
            idx, seg, ip = bad
            rep.add_violation('extraction:tunnel_dns', 'client domain %r, server configured with %r, codec %d: the upstream packet carried by '
                              'event %d is not what the server writes to its tun device (the data part handed on by tunnel_dns is '
                              'not the part before the matched domain)' % (m['dom'], m['srv'], m['codec'], idx),
                              dict(kind='history', driver='srv', case=h, event=idx, observed=seg[:600], expected='T1 ' + ip.hex()))
            break
    if mod is not None:
        d = vlib.first_diff(hs, impl, mod)
        if d is not None:
            ea, eb = impl[d].split(' ; '), mod[d].split(' ; ')
            k = next((j for j, (x, y) in enumerate(zip(ea, eb)) if x != y), min(len(ea), len(eb)))
            ctx.broken.append(('correspondence', 'extraction stage: server model and the real tunnel_dns disagree at event %d of %r: impl=%r model=%r' % (
                k, hs[d][:2000], ea[k][:300] if k < len(ea) else '', eb[k][:300] if k < len(eb) else '')))
    rep.cov['extraction'] = dict(histories=len(hs), upstream_packets=npk, wildcard_histories=sum(1 for m in meta if m['how'] == 'wild'),
                                 first_label_lengths=sorted(set(m['first'] for m in meta)))
    rep.cov['evaluations'] = rep.cov.get('evaluations', 0) + sum(h.count(' ; ') for h in hs)
    rep.cov['rule'] += ('. Extraction stage: %d sessions (first label of the client domain 1..63 chars x server configured with the same '
                        'domain / other case / a wildcard for that label x 4 codecs) through the real tunnel_dns: every single-fragment '
                        'upstream packet must reach the tun device byte for byte; then model == implementation per event' % len(hs))


def check(rep):
    ctx = vlib.prepare(rep, harnesses={'wire': WIRE, 'srv': srvlib.SRV, 'climain': mainlib.CLIMAIN}, sanitize=(rep.tier == 'thorough'), model='WIRE')
    cases, meta, stats = gen_cases(rep.seed, rep.tier)
    rep.cov['rule'] = ('corpus first; every hostname limit L in 100..255 x domain lengths 3..min(128,L-24) (thorough: all; quick: '
                       'boundaries + 6 random) x 4 codecs, one builder each (data chunk, ping/login/version/set-fragsize packet, '
                       'fragsize probe, handshake query), payload lengths aimed at the capacity edge +-2 and up to 2048, EDNS0 on/off, '
                       'server domain same / other case / wildcard. distinct = distinct case lines; non-trivial = all')
    rep.cov['input_distribution'] = stats
    rep.cov['evaluations'] = len(cases)
    rep.cov['distinct_nontrivial'] = len(set(cases))
    rep.cov['samples'] = [c[:400] for c in cases[:3] + cases[-2:]]
    rep.cov['exhaustive'] = (rep.tier == 'thorough')
    impl = None
    if 'wire' in ctx.exe:
        rc, impl, err = vlib.parallel_run_cases(ctx.exe['wire'], cases, ctx.work, 'impl')
        if rc != 0:
            ctx.broken.append(('impl-crash', 'implementation harness exited with %d: %s' % (rc, err[-300:])))
        maxname = 0
        for c, o, m in zip(cases, impl, meta):
            why = oracle(c, o, m)
            if why:
                rep.add_violation('name:kind%s' % (m['kind'] if m else 'x'), why,
                                  dict(kind='input', driver='wire', case=c, observed=o[:3000], expected=why))
                break
        if 'wire' in ctx.san:
            rc, sl, err = vlib.parallel_run_cases(ctx.san['wire'], cases[::4], ctx.work, 'san')
            rep.cov['sanitizer_cases'] = len(cases[::4])
            if rc != 0:
                idx = next((i for i, l in enumerate(sl) if l == '<NO-OUTPUT>'), None)
                rep.add_violation('sanitizer', 'ASan/UBSan report: ' + err[-400:],
                                  dict(kind='input', driver='wire.san', case=cases[::4][idx] if idx is not None else None, observed=err[-2000:]))
    if ctx.model and impl is not None:
        sub = cases
        rc, mod, err = vlib.parallel_run_cases(ctx.model, sub, ctx.work, 'model')
        impl2 = impl
        d = vlib.first_diff(sub, impl2, mod)
        rep.cov['traces_validated_against_impl'] = len(sub) if d is None else d
        if d is not None:
            ctx.broken.append(('correspondence', 'model and implementation disagree on case %r: impl=%r model=%r' % (
                sub[d][:300], impl2[d][-400:], mod[d][-400:])))
    extraction_stage(rep, ctx)
    mainlib.maxlen_stage(rep, ctx)
    if not rep.violations:
        ctx.report_broken()
    return rep


def replay(rp):
    rep = vlib.Report('C08', 'quick', rp.get('seed', 1))
    ctx = vlib.prepare(rep, harnesses={'wire': WIRE}, sanitize=False, prove_it=False, model='WIRE')
    case = rp.get('case')
    if not case:
        print('replay names a broken obligation, not an input:', rp.get('broken'))
        return 1
    cp = os.path.join(ctx.work, 'replay.cases')
    open(cp, 'w').write(case + '\n')
    rc, impl, err = vlib.run_cases(ctx.exe['wire'], cp)
    print('case :', case[:300])
    print('impl :', impl[0][-600:] if impl else err)
    if ctx.model:
        rc2, mod, err2 = vlib.run_cases(ctx.model, cp)
        print('model:', mod[0][-600:] if mod else err2)
    return 1
