"""clilib.py -- generator of client histories (tun packets, DNS answers built by the real
server's write_dns or raw datagrams, select time-outs) for the client-side correspondence runs."""
import vlib
import srvlib

CLI = vlib.tu_harness(['hmain.c', 'h_clihist.c', 'wire_net.c', 'wire_srv.c', 'wire_cli.c'], 'server',
                      ['sendto', 'recvfrom', 'recv', 'recvmsg', 'time', 'write_tun', 'read_tun', 'system', 'rand', 'sleep',
                       'compress2', 'uncompress', 'select'])
CLI['repo'] = vlib.COMMON_SRCS + ['user.c', 'fw_query.c', 'util.c']

QTYPES = [10, 65399, 16, 33, 15, 5, 1]


class CliGen:
    def __init__(self, rng):
        r = rng
        self.rng = r
        self.uid = r.randrange(16)
        self.domain = r.choice([b't.example.com', b'tun.x.org', b'a.bc', b'long-domain-name.example.net'])
        self.codec = r.randrange(4)
        self.maxlen = r.choice([255, 255, 200, 120, 100])
        self.qtype = r.choice(QTYPES)
        self.downenc = r.choice(b'TSUVR') if self.qtype not in (10, 65399) else r.choice(b'TR')
        self.edns = r.randrange(2)
        self.lazy = r.randrange(2)
        self.dns = 1 if r.randrange(8) else 0
        self.st = r.choice([1, 2, 4, 5])
        self.chunkid = r.randrange(65536)
        self.seed = r.randrange(65536)
        self.now = 2000000 + r.randrange(1000)
        self.events = []
        self.dn_seq = 0
        self.dn_frag = 0
        self.stats = dict(tun=0, answer=0, dataless=0, datafrag=0, timeout=0, rawdg=0, hostile=0, timejump=0)

    def head(self):
        return 'J %d %s %d %d %d %d %d %d %d %d %d %d' % (self.uid, self.domain.hex(), self.codec, self.maxlen, self.qtype,
                                                          self.edns, self.lazy, self.dns, self.st, self.chunkid, self.seed, self.now)

    def tick(self):
        r = self.rng
        x = r.random()
        if x < 0.03:
            self.now += r.choice([58, 59, 60, 61, 62])
            self.stats['timejump'] += 1
        elif x < 0.5:
            self.now += r.choice([0, 0, 1])

    def tun(self):
        r = self.rng
        n = r.choice([1, 20, 60, 150, 300, 700, 1400])
        self.events.append('U %d %s' % (self.now, bytes(r.randrange(256) for _ in range(n)).hex()))
        self.stats['tun'] += 1

    def first_char(self):
        r = self.rng
        x = r.random()
        if x < 0.45:
            return ord('p') if r.randrange(3) else ord('P')
        if x < 0.9:
            return ord('%x' % self.uid) if r.randrange(3) else ord(('%x' % self.uid).upper())
        return r.choice([ord('z'), ord('v'), 0x41, ord('%x' % ((self.uid + 1) & 15))])

    def answer(self, payload=b'', last=False, seq=None, frag=None, ackmode=1, idmode=None):
        r = self.rng
        if seq is None:
            seq = self.dn_seq
        if frag is None:
            frag = self.dn_frag
        b0 = 0x80 | (r.randrange(8) << 4) | r.randrange(16)
        b1 = ((seq & 7) << 5) | ((frag & 15) << 1) | (1 if last else 0)
        data = bytes([b0, b1]) + payload
        if idmode is None:
            idmode = r.choice([0, 0, 0, 0, 1, 1, 2, r.randrange(3, 65536)])
        self.events.append('A %d %d %d %d %d %d %s' % (self.now, idmode, self.first_char(), self.qtype, self.downenc, ackmode, data.hex()))
        self.stats['answer'] += 1
        if payload:
            self.stats['datafrag'] += 1
        else:
            self.stats['dataless'] += 1

    def down_packet(self):
        """a downstream packet in fragments (framed like the harness' compress2 replacement)"""
        r = self.rng
        n = r.choice([10, 100, 300, 900])
        body = bytes([0x5A if r.random() > 0.05 else 0x5B]) + bytes(r.randrange(256) for _ in range(n))
        step = r.choice([40, 100, 200, 1000])
        if self.qtype in (5, 1):
            step = min(step, 100)
        pieces = [body[i:i + step] for i in range(0, len(body), step)]
        self.dn_seq = (self.dn_seq + 1) & 7
        self.dn_frag = 0
        for j, pc in enumerate(pieces):
            self.answer(pc, last=(j == len(pieces) - 1), ackmode=r.choice([0, 1, 1, 2]))
            self.tick()
            x = r.random()
            if x < 0.15:
                # duplicate delivery
                self.answer(pc, last=(j == len(pieces) - 1), ackmode=0)
            elif x < 0.22:
                self.timeout()
            elif x < 0.28:
                self.tun()
            self.dn_frag = (self.dn_frag + 1) & 15
            if r.random() < 0.05:
                self.dn_frag = r.randrange(16)

    def timeout(self):
        self.events.append('O %d' % self.now)
        self.stats['timeout'] += 1

    def rawdg(self):
        r = self.rng
        k = r.randrange(8)
        hdr = bytes([0x10, 0xd1, 0x9e])
        if k >= 5:
            # a well-formed data frame (0x5A: the harness' compression stand-in), then (k==6) the bare header cut at every length,
            # or (k==7) the frame cut short: what the previous datagram left in the receive buffer must not matter
            fr = hdr + bytes([0x20 | self.uid, 0x5A]) + bytes(r.randrange(256) for _ in range(r.choice([20, 60, 300])))
            self.events.append('D %d %s' % (self.now, fr.hex()))
            self.stats['rawdg'] += 1
            if k == 5:
                return
            dg = hdr[:r.randrange(1, 4)] if k == 6 else fr[:len(fr) - r.randrange(1, 6)]
        elif k == 0:
            dg = hdr + bytes([0x20 | self.uid]) + bytes([0x5A]) + bytes(r.randrange(256) for _ in range(r.randrange(1, 200)))
        elif k == 1:
            dg = hdr + bytes([0x30 | self.uid])
        elif k == 2:
            dg = hdr + bytes([0x20 | ((self.uid + 1) & 15)]) + bytes([0x5A, 1, 2, 3])
        elif k == 3:
            dg = hdr + bytes([0x10 | self.uid]) + bytes(16)
        else:
            dg = bytes(r.randrange(256) for _ in range(r.randrange(0, 40)))
        self.events.append('D %d %s' % (self.now, dg.hex() if dg else '-'))
        self.stats['rawdg'] += 1

    def hostile(self):
        r = self.rng
        k = r.randrange(4)
        if k == 0:
            dg = bytes(r.randrange(256) for _ in range(r.randrange(0, 80)))
        elif k == 1:
            # SERVFAIL / NXDOMAIN style reply without answer
            q = srvlib.dns_query(r.randrange(65536), self.qtype, bytes([self.first_char()]) + b'abc.' + self.domain, edns0=False)
            dg = bytearray(q)
            dg[2] = 0x81
            dg[3] = 0x80 | r.choice([0, 2, 3, 5])
            dg = bytes(dg)
        elif k == 2:
            dg = srvlib.dns_query(r.randrange(65536), self.qtype, b'pabc.' + self.domain)
        else:
            dg = bytes([0, 1, 0x84, 0, 0, 1, 0, 1, 0, 0, 0, 0]) + bytes(r.randrange(256) for _ in range(r.randrange(0, 60)))
        self.events.append('D %d %s' % (self.now, dg.hex() if dg else '-'))
        self.stats['hostile'] += 1

    def build(self, nevents):
        r = self.rng
        while len(self.events) < nevents:
            x = r.random()
            if not self.dns:
                if x < 0.4:
                    self.tun()
                elif x < 0.8:
                    self.rawdg()
                elif x < 0.9:
                    self.timeout()
                else:
                    self.hostile()
            elif x < 0.18:
                self.tun()
            elif x < 0.40:
                self.answer(ackmode=r.choice([0, 1, 1, 1, 2]))
            elif x < 0.58:
                self.down_packet()
            elif x < 0.75:
                self.timeout()
            elif x < 0.80:
                # BADIP / short / illegal replies
                self.events.append('A %d %d %d %d %d 0 %s' % (self.now, r.choice([0, 1]), self.first_char(), self.qtype, self.downenc,
                                                              r.choice([b'BADIP', b'x', b'BADIPx', bytes([0x80])]).hex()))
                self.stats['answer'] += 1
            elif x < 0.88:
                self.hostile()
            elif x < 0.92:
                self.rawdg()
            else:
                self.answer(payload=bytes(r.randrange(256) for _ in range(r.randrange(1, 50))), last=r.randrange(2) == 0,
                            seq=r.randrange(8), frag=r.randrange(16), ackmode=r.randrange(3))
            self.tick()
        return self.head() + ' ; ' + ' ; '.join(self.events[:nevents])


def gen_histories(seed, n, nevents, tag='cli'):
    rng = vlib.rng_for(seed, tag)
    out = []
    stats = {}
    for _ in range(n):
        g = CliGen(rng)
        out.append(g.build(nevents))
        for k, v in g.stats.items():
            stats[k] = stats.get(k, 0) + v
    return out, stats


class LoopGen(CliGen):
    """histories for the real select loop (T lines): the events of CliGen plus 'both readable' iterations, with
    stretches in which a packet is in flight, nothing is acknowledged and the tun device keeps delivering packets
    while the clock advances (the situation of D18)"""

    def head(self):
        return 'T' + CliGen.head(self)[1:]

    def both(self):
        r = self.rng
        n = r.choice([1, 20, 300])
        pk = bytes(r.randrange(256) for _ in range(n))
        k = r.randrange(3)
        if k == 0:
            dg = bytes(r.randrange(256) for _ in range(r.randrange(0, 40)))
        elif k == 1:
            dg = srvlib.dns_query(r.randrange(65536), self.qtype, b'pabc.' + self.domain)
        else:
            q = bytearray(srvlib.dns_query(r.randrange(65536), self.qtype, bytes([self.first_char()]) + b'abc.' + self.domain, edns0=False))
            q[2] = 0x81
            q[3] = 0x80 | r.choice([0, 2, 3])
            dg = bytes(q)
        self.events.append('B %d %s %s' % (self.now, pk.hex(), dg.hex() if dg else '-'))
        self.stats['both'] = self.stats.get('both', 0) + 1

    def busy_stretch(self):
        r = self.rng
        self.tun()                                  # start a packet
        for _ in range(r.randrange(3, 14)):
            x = r.random()
            if x < 0.55:
                self.tun()
            elif x < 0.75:
                self.timeout()
            elif x < 0.85:
                self.both()
            else:
                self.answer(ackmode=r.choice([0, 2]))   # an answer that does not acknowledge the chunk
            self.now += r.choice([0, 0, 1, 1, 2])
        self.stats['busy_stretch'] = self.stats.get('busy_stretch', 0) + 1

    def build(self, nevents):
        r = self.rng
        while len(self.events) < nevents:
            x = r.random()
            if x < 0.25 and self.dns:
                self.busy_stretch()
            elif x < 0.32:
                self.both()
            else:
                before = len(self.events)
                CliGen.build(self, min(nevents, before + r.randrange(1, 6)))
        return self.head() + ' ; ' + ' ; '.join(self.events[:nevents])


def gen_loop_histories(seed, n, nevents, tag='cliloop'):
    rng = vlib.rng_for(seed, tag)
    out = []
    stats = {}
    for _ in range(n):
        g = LoopGen(rng)
        out.append(g.build(nevents))
        for k, v in g.stats.items():
            stats[k] = stats.get(k, 0) + v
    return out, stats
