"""looplib.py -- loop-level timed oracle for C01/C02: the REAL client (client_handshake + client_tunnel)
and the REAL server (tunnel()) run as two coroutines in one process over a virtual clock, an adversarial
datagram network and two fake tun devices (harness/loopsim.c, harness/loopsim_srv.c; select, sendto,
recvfrom, recvmsg, recv, time, sleep intercepted at link time).  The select loops, their timeouts and the
60 s watchdog are the real code; nothing of the Coq model is involved (implementation-level oracle).

Per run: a configuration, periodic packet offers on both tun devices, fault windows (drop / duplicate /
delay per direction); after the last fault window and a settle time the run checks that every packet
accepted from a tun device is written to the peer's tun device exactly once (in order on fault-free runs)
within 10 virtual seconds, that the tun devices keep being read, and that nothing is written that was not
offered."""
import os, random, subprocess
from concurrent.futures import ThreadPoolExecutor
import vlib

LOOPSIM = dict(harness=['loopsim.c', 'loopsim_srv.c'],
               repo=[s for s in vlib.COMMON_SRCS if s != 'tun.c'] + ['client.c', 'user.c', 'fw_query.c', 'util.c'],
               wraps=['select', 'sendto', 'recvfrom', 'recvmsg', 'recv', 'time', 'sleep'])

QTYPES = ['NULL', 'PRIVATE', 'TXT', 'SRV', 'MX', 'CNAME', 'A']


def gen(seed, n, tag='loop'):
    rng = random.Random('%s-%s' % (tag, seed))
    cases = []
    stats = dict(fault_free=0, outage=0, partial=0, lazy=0, immediate=0, raw=0, busy_client_tun=0)
    for i in range(n):
        a = ['--seed', str(rng.randrange(1, 1 << 20))]
        qt = rng.choice(QTYPES)
        a += ['--qtype', qt]
        lazy = rng.random() < 0.6
        a += ['--lazy', '1' if lazy else '0']
        stats['lazy' if lazy else 'immediate'] += 1
        raw = rng.random() < 0.12
        a += ['--raw', '1' if raw else '0']
        stats['raw'] += raw
        maxhost = rng.choice([255, 255, 200, 150, 120])
        a += ['--maxhost', str(maxhost)]
        # a forced fragment size must fit the record type (CNAME/A carry one host name per answer)
        fragsize = rng.choice([0, 0, 100] if qt in ('CNAME', 'A') else [0, 0, 100, 200, 400] if qt in ('MX', 'SRV') else [0, 0, 100, 200, 400, 1100])
        if fragsize:
            a += ['--fragsize', str(fragsize)]
        # keep packets within 8 fragments on either side so that the offered load stays far below capacity
        upcap = max(20, (maxhost - 13 - 12) * 5 // 8)
        downcap = fragsize if fragsize else 150
        a += ['--cli-size', str(rng.randrange(40, max(41, min(700, 8 * upcap)))),
              '--srv-size', str(rng.randrange(40, max(41, min(900, 8 * downcap))))]
        if raw and rng.random() < 0.6:
            # packets for the client arrive at the server's tun device while the handshake is still going on (one goes in flight,
            # the rest into the session's ring) and the client then switches to raw mode
            a += ['--srv-early-us', str(rng.choice([300, 1000, 2500]))]
            stats['early_server_packets'] = stats.get('early_server_packets', 0) + 1
        if rng.random() < 0.2:
            # every fifth packet a large compressible one (a jumbo ping): sizes around the 4 KiB scratch buffers and up to 20000
            a += [rng.choice(['--cli-big', '--srv-big']), str(rng.choice([4092, 4093, 4100, 8020, 20000]))]
            stats['big_packets'] = stats.get('big_packets', 0) + 1
        ci = rng.choice([150, 250, 400, 500, 700, 900, 1100, 1300, 2500])
        si = rng.choice([150, 200, 400, 900, 1300, 2500])
        a += ['--cli-int', str(ci), '--srv-int', str(si)]
        stats['busy_client_tun'] += ci < 1000
        kind = rng.random()
        tend = 0.0
        if kind < 0.2:
            stats['fault_free'] += 1
        else:
            nr = 1 if rng.random() < 0.7 else 2
            for _ in range(nr):
                t1 = rng.uniform(3, 20)
                if kind < 0.65:
                    dur = rng.choice([1.5, 2.5, 4, 6, 10, 20, 35])
                    pdrop, pdup, delay = 1, 0, 0
                else:
                    dur = rng.uniform(3, 30)
                    pdrop, pdup, delay = rng.choice([0.2, 0.5, 0.8]), rng.choice([0, 0.3]), rng.choice([0, 200, 1500])
                a += ['--fault', rng.choice(['up', 'down', 'both', 'both']), '%.1f' % t1, '%.1f' % (t1 + dur),
                      str(pdrop), str(pdup), str(delay)]
                tend = max(tend, t1 + dur)
            stats['outage' if kind < 0.65 else 'partial'] += 1
        a += ['--end', '%.0f' % (tend + 30 + 50 if tend else 60)]
        cases.append(a)
    return cases, stats


def run_one(exe, args):
    try:
        p = subprocess.run([exe] + args, stdout=subprocess.PIPE, stderr=subprocess.DEVNULL, text=True, timeout=120)
        return p.returncode, p.stdout
    except subprocess.TimeoutExpired:
        return 124, 'timeout'


def run_all(exe, cases, workers=16):
    with ThreadPoolExecutor(max_workers=workers) as ex:
        return list(ex.map(lambda a: run_one(exe, a), cases))


def classify(rc, out):
    """returns (kind, text): kind in ok | liveness | integrity | handshake | crash"""
    if rc == 0:
        return 'ok', ''
    lines = [l for l in out.splitlines() if l.startswith('VIOLATION') or 'garbage' in l or 'handshake' in l]
    if rc == 3:
        return 'handshake', ' / '.join(lines)[:400]
    if rc == 1:
        viol = [l for l in out.splitlines() if l.startswith('VIOLATION')]
        integ = [l for l in viol if 'garbage' in l or 'never offered' in l or 'more than once' in l]
        return ('integrity' if integ and len(integ) == len(viol) else 'liveness'), ' / '.join(viol)[:500]
    return 'crash', 'exit status %d: %s' % (rc, out[-300:])


def counters(out):
    """sum of delivered packets in the checked windows, for the evidence file"""
    tot = 0
    for l in out.splitlines():
        if 'checked window' in l and 'delivered' in l:
            try:
                tot += int(l.split('delivered ')[1].split(',')[0])
            except Exception:
                pass
    return tot
