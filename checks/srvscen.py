"""srvscen.py -- targeted server histories for C15 / C16, built on srvlib.HistGen (subclassed, never
edited): a well-behaved client that follows the downstream state it would have seen (so that
multi-fragment transfers really complete), with deliberate departures: repeated queries at chosen
distances, new ids, another source port, flipped letter case, N changes in mid-transfer, fragment sizes
at the boundaries, packets needing more than 16 fragments.  Only inputs are built here."""
import srvlib
from srvlib import enc, qname, b32c, dns_query

FRAG_BOUNDARIES = [2, 3, 100, 4094, 4095, 65535]


class DownEmu:
    """what a client can know about the server's out-packet state (used only to choose acks)"""

    def __init__(self):
        self.cur = None          # [len, off, sent, seq, frag, resent]
        self.seqc = 0
        self.queue = []
        self.rx = (0, 0)         # (seq, frag) of the last downstream header the client saw

    def start(self, ln):
        self.seqc = (self.seqc + 1) & 7
        self.cur = [ln, 0, 0, self.seqc, 0, 0]

    def next_from_queue(self):
        self.cur = None
        if self.queue:
            self.start(self.queue.pop(0))

    def on_tun(self, ln):
        if self.cur is not None:
            if len(self.queue) < 4:
                self.queue.append(ln)
        else:
            self.start(ln)

    def on_ack(self, ack):
        c = self.cur
        if c is not None and ack == (c[3], c[4]):
            c[1] += c[2]
            c[2] = 0
            c[4] += 1
            c[5] = 0
            if c[1] >= c[0]:
                self.rx_last = (c[3], c[4] - 1)
                self.next_from_queue()

    def emit(self, F):
        """immediate mode: one send_chunk_or_dataless per query"""
        c = self.cur
        if c is not None and c[5] > 5:
            self.next_from_queue()
            c = self.cur
        if c is not None:
            dl = min(F, c[0] - c[1], 4094)
            c[2] = dl
            c[5] += 1
            self.rx = (c[3], c[4] & 15)
            if dl == c[0]:
                self.next_from_queue()
            return dl
        return 0


class Scen(srvlib.HistGen):
    """HistGen with explicit, recorded queries"""

    def __init__(self, rng, qtypes=(10, 10, 65399)):
        super().__init__(rng, adversarial=0.0)
        self.qtype = rng.choice(list(qtypes))
        self.sent = []           # (event index, name, kind, slot) of every ping/data query sent
        self.F = {}              # slot -> fragsize the scenario believes is in force
        self.emu = {}
        self.big = 0
        self.cstats = dict(transfers=0, frags=0, redeliver=0, redeliver_case=0, redeliver_addr=0, n_mid=0,
                           over16=0, boundaries=0, pending_dup=0, stale_ack_ping=0)

    # ---- raw emission (no random case flips: the scenario decides) -------------------------------
    def send_query(self, addr, name, qid=None):
        if qid is None:
            qid = self.next_id()
        dg = dns_query(qid, self.qtype, name, edns0=True)
        self.emit_dgram(addr, dg, seed=self.rng.randrange(1 << 31))
        return qid

    def open_session(self, k=0, F=None, lazy=False):
        fam = 4
        ip = bytes([192, 0, 2, 10 + k])
        s = srvlib.Session(self, (fam, ip, 4000 + k))
        self.sessions.append(s)
        # version + login through the parent (they use emit_query: at most a case flip of the name)
        self.version(s)
        self.tick()
        if s.uid is None:
            return None
        self.login(s)
        self.tick()
        self.emu[s.uid] = DownEmu()
        self.F[s.uid] = 100
        if F is not None:
            self.nreq(s, F)
        if lazy:
            cm = b32c(1) + b32c(2) + b32c(3)
            self.send_query(s.addr, b'o' + b32c(s.uid) + b'l' + cm + b'.' + self.domain)
            s.lazy = True
        else:
            s.lazy = False
        return s

    def nreq(self, s, fs):
        s.rs = (s.rs + 1) & 0xffff
        data = bytes([s.uid, (fs >> 8) & 255, fs & 255, s.rs >> 8, s.rs & 255])
        self.send_query(s.addr, qname(b'n', enc(0, data), self.domain))
        if fs >= 2:
            self.F[s.uid] = fs
        self.touch(s)

    def ping_name(self, s, ack, cmc):
        data = bytes([s.uid, ((ack[0] & 7) << 4) | (ack[1] & 15), (cmc >> 8) & 255, cmc & 255])
        return qname(b'p', enc(0, data), self.domain)

    def ping_x(self, s, ack=None, addr=None):
        """a fresh ping acknowledging what the client last saw (or the given pair)"""
        e = self.emu[s.uid]
        if ack is None:
            ack = e.rx
        s.rs = (s.rs + 1) & 0xffff
        name = self.ping_name(s, ack, s.rs)
        self.sent.append((len(self.events), name, 'ping', s.uid))
        self.send_query(addr or s.addr, name)
        self.stats['ping'] += 1
        if not s.lazy:
            e.on_ack(ack)
            e.emit(self.F[s.uid])
        self.touch(s)
        return name

    def data_x(self, s, payload, last=True, ack=None):
        e = self.emu[s.uid]
        if ack is None:
            ack = e.rx
        hdr = ('%x' % (s.uid & 15)).encode()
        hdr += b32c(((s.up_seq & 7) << 2) | ((s.up_frag & 15) >> 2))
        hdr += b32c(((s.up_frag & 3) << 3) | (ack[0] & 7))
        hdr += b32c(((ack[1] & 15) << 1) | (1 if last else 0))
        hdr += b'abcdefghijklmnopqrstuvwxyz0123456789'[s.cmc % 36:s.cmc % 36 + 1]
        s.cmc += 1
        name = qname(hdr, enc(s.codec, payload), self.domain)
        self.sent.append((len(self.events), name, 'data', s.uid))
        self.send_query(s.addr, name)
        self.stats['data'] += 1
        if last:
            s.up_seq = (s.up_seq + 1) & 7
            s.up_frag = 0
        else:
            s.up_frag = (s.up_frag + 1) & 15
        if not s.lazy:
            e.on_ack(ack)
            e.emit(self.F[s.uid])
        self.touch(s)
        return name

    def tun_to(self, s, n, fill=None):
        r = self.rng
        ip = bytearray(r.randrange(256) for _ in range(n)) if fill is None else bytearray([fill] * n)
        dst = self.tun_ips[s.uid]
        if n >= 24:
            ip[20:24] = bytes([(dst >> 24) & 255, (dst >> 16) & 255, (dst >> 8) & 255, dst & 255])
        self.events.append('T %d %s' % (self.now, bytes(ip).hex()))
        self.stats['tun'] += 1
        if n >= 24:
            self.emu[s.uid].on_tun(n + 1)

    def redeliver(self, s, back=None, newaddr=False, flip=False, within=40):
        """repeat a query sent earlier for this session: new id, optionally another source port /
        flipped letter case of the encoded part"""
        mine = [x for x in self.sent if x[3] == s.uid]
        if not mine:
            return None
        pick = None
        if back is None and self.rng.randrange(3) == 0:
            # aim at the window edges: a query with exactly kd later queries of its own kind
            kd = self.rng.choice([0, 3, 4, 13, 14, 15, 28, 29, 30])
            cnt = {'ping': 0, 'data': 0}
            for x in reversed(mine):
                if cnt[x[2]] == kd and self.rng.randrange(2):
                    pick = x
                    break
                cnt[x[2]] += 1
        if pick is None:
            if back is None:
                back = self.rng.choice([1, 1, 2, 3, 4, 5, 8, 14, 15, 16, 29, 30, 31, 40])
            back = min(back, len(mine), within)
            pick = mine[-back]
        ev, name, kind, slot = pick
        nm = name
        if flip:
            dom = len(self.domain) + 1
            body = nm[:len(nm) - dom]
            body = bytes((c ^ 0x20) if (65 <= (c & 0xdf) <= 90) else c for c in body)
            nm = body + nm[len(nm) - dom:]
            self.cstats['redeliver_case'] += 1
        addr = s.addr
        if newaddr:
            addr = (s.addr[0], s.addr[1], s.addr[2] + 777)
            if not self.check_ip and self.rng.randrange(2):
                # without source checking (-c) the repeat may come through any relay: another address, the other address family
                addr = self.rng.choice([(4, bytes([203, 0, 113, 9]), 5300), (6, bytes([0x20, 1, 0xd, 0xb8] + [0] * 11 + [0x99]), 5300)])
                self.cstats['redeliver_other_family'] = self.cstats.get('redeliver_other_family', 0) + 1
            self.cstats['redeliver_addr'] += 1
        self.send_query(addr, nm)
        self.stats['dup'] += 1
        self.cstats['redeliver'] += 1
        return nm

    def upstream_ip(self, n=40, dst=0x08080808):
        ip = bytearray(self.rng.randrange(256) for _ in range(n))
        ip[20:24] = bytes([(dst >> 24) & 255, (dst >> 16) & 255, (dst >> 8) & 255, dst & 255])
        return bytes([0x5A]) + bytes(ip)

    def line(self):
        return 'H ' + self.cfg() + ' ; ' + ' ; '.join(self.events)

    # ---- scenario A: downstream transfers (C15) ---------------------------------------------------
    def build_transfers(self, nevents, F=None):
        r = self.rng
        if F is None:
            F = r.choice(FRAG_BOUNDARIES + [2, 5, 10, 50, 200, 1000, 1200, r.randrange(2, 300)])
        if F in FRAG_BOUNDARIES:
            self.cstats['boundaries'] += 1
        s = self.open_session(0, F=F)
        bad = r.choice([0, 1])
        if r.randrange(3) == 0:
            self.nreq(s, bad)        # rejected: stays at F
        while len(self.events) < nevents:
            Feff = min(self.F[s.uid], 4094)
            k = r.choice([1, 2, 3, 4, 7, 15, 16])
            ln = max(25, min(65535, Feff * k + r.choice([-1, 0, 1, 1])))
            if Feff <= 3 and r.randrange(4) == 0:
                ln = Feff * r.choice([17, 20])               # needs more than 16 fragments
            if ln > 4200 and (r.randrange(6) or self.big > 300000):
                ln = r.choice([25, 26, 60, 300, Feff, Feff + 1])
            if ln > 4200:
                self.big += 2 * ln
            nfr = (ln + Feff - 1) // Feff
            if nfr > 16:
                self.cstats['over16'] += 1
            self.tun_to(s, ln - 1)
            if r.randrange(4) == 0:
                self.tun_to(s, r.choice([24, 30, 100]))      # queued behind
            self.tick()
            e = self.emu[s.uid]
            guard = 0
            self.cstats['transfers'] += 1
            while e.cur is not None and guard < 60 and len(self.events) < nevents + 40:
                guard += 1
                x = r.random()
                if x < 0.70:
                    self.ping_x(s)
                    self.cstats['frags'] += 1
                elif x < 0.78:
                    self.data_x(s, self.upstream_ip(30), last=True)
                elif x < 0.84:
                    self.ping_x(s, ack=(r.randrange(8), r.randrange(16)))   # answer lost / stale ack: re-emission
                    self.cstats['stale_ack_ping'] += 1
                elif x < 0.90:
                    self.redeliver(s, back=r.choice([1, 2, 3]))
                elif x < 0.94:
                    nf = r.choice(FRAG_BOUNDARIES + [7, 33, 150, 0, 1])
                    self.nreq(s, nf)                                       # N in mid-transfer
                    self.cstats['n_mid'] += 1
                elif x < 0.97:
                    # an option command after the size was set (a relay re-sending the client's own 'O' / 'S' late): the size stays.
                    # NULL / PRIVATE answers do not depend on the downstream codec, Base32 upstream is what the session uses anyway
                    cm = b32c(r.randrange(32)) + b32c(r.randrange(32)) + b32c(r.randrange(32))
                    if r.randrange(3):
                        self.send_query(s.addr, b'o' + b32c(s.uid) + bytes([r.choice(b'tsuvrTSUVR')]) + cm + b'.' + self.domain)
                    else:
                        self.send_query(s.addr, b's' + b32c(s.uid) + b32c(5) + cm + b'.' + self.domain)
                    self.touch(s)
                    self.cstats['option_after_N'] = self.cstats.get('option_after_N', 0) + 1
                else:
                    self.sweep()
                self.tick()
            # one more ping so that a completed packet is followed by a dataless answer
            self.ping_x(s)
            self.tick()
        return self.line()

    # ---- scenario B: re-deliveries (C16) ------------------------------------------------------------
    def build_redeliveries(self, nevents, relays=False):
        r = self.rng
        lazy = r.randrange(4) == 0
        if relays:
            # lazy mode without source checking (-c): held queries repeated through other relays
            lazy = True
            self.check_ip = 0
        F = r.choice([10, 50, 200, 1000])
        s = self.open_session(0, F=F, lazy=lazy)
        others = [o for o in (self.open_session(k) for k in range(1, r.choice([1, 1, 2]))) if o is not None]
        while len(self.events) < nevents:
            x = r.random()
            if x < 0.18:
                self.ping_x(s)
            elif x < 0.40:
                # single-fragment upstream packets: the upstream sequence number moves on
                self.data_x(s, self.upstream_ip(r.choice([24, 40, 60])), last=True)
            elif x < 0.48:
                self.data_x(s, bytes(r.randrange(256) for _ in range(20)), last=False)
            elif x < 0.58:
                self.tun_to(s, r.choice([24, 60, 300, 700]))
            elif x < 0.86:
                self.redeliver(s, newaddr=r.randrange(4) == 0, flip=r.randrange(3) == 0)
            elif x < 0.90:
                # a ping acknowledging the NEXT packet's first fragment while nothing is in flight,
                # then a packet, a ping, and the first ping again
                e = self.emu[s.uid]
                if e.cur is None and not lazy:
                    self.ping_x(s, ack=((e.seqc + 1) & 7, 0))
                    self.tun_to(s, 200)
                    self.ping_x(s, ack=(7, 15))
                    self.redeliver(s, back=2)
                    self.cstats['stale_ack_ping'] += 1
            elif x < 0.93:
                self.sweep()
            elif x < 0.95 and others:
                self.ping_x(r.choice(others))
            elif x < 0.97 and not (relays and r.randrange(2)):
                self.nreq(s, r.choice([F, 0, 1, 300]))
            else:
                if lazy and r.randrange(2):
                    # held query repeated at once: remembered as duplicate (without source checking also through another relay)
                    self.ping_x(s)
                    self.redeliver(s, back=1, newaddr=(not self.check_ip and r.randrange(2) == 0))
                    self.cstats['pending_dup'] += 1
                elif lazy:
                    # a held ping is pushed into the "answer real soon" place by a complete upstream packet and repeated before the
                    # 20 ms sweep answers it: the repeat is a duplicate of THAT query, not of the data query now held
                    self.ping_x(s)
                    self.data_x(s, self.upstream_ip(r.choice([24, 40])), last=True)
                    self.redeliver(s, back=2)
                    self.cstats['pending_dup_realsoon'] = self.cstats.get('pending_dup_realsoon', 0) + 1
            self.tick()
        return self.line()


def gen_targeted(seed, n, nevents, kind, tag):
    import vlib
    rng = vlib.rng_for(seed, tag)
    out = []
    stats = {}
    cst = {}
    for i in range(n):
        g = Scen(rng)
        if kind == 'transfers':
            F = FRAG_BOUNDARIES[i % len(FRAG_BOUNDARIES)] if i < 2 * len(FRAG_BOUNDARIES) else None
            out.append(g.build_transfers(nevents, F=F))
        else:
            out.append(g.build_redeliveries(nevents, relays=(i % 5 == 4)))
        for k, v in g.stats.items():
            stats[k] = stats.get(k, 0) + v
        for k, v in g.cstats.items():
            cst[k] = cst.get(k, 0) + v
    return out, stats, cst
