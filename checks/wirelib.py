"""wirelib.py -- shared by the checks that use the "wire" harness (real client.c + iodined.c
translation units with socket wrappers): harness spec, an INDEPENDENT strict RFC 1035 parser in
Python (implementation-level oracle; not derived from the Coq model) and name helpers."""
import vlib

WIRE = vlib.tu_harness(['hmain.c', 'wire_cases.c', 'wire_net.c', 'wire_srv.c', 'wire_cli.c'], 'server',
                       ['sendto', 'recvfrom', 'recv', 'recvmsg', 'time', 'write_tun', 'read_tun', 'system', 'rand', 'sleep'])
WIRE['repo'] = vlib.COMMON_SRCS + ['user.c', 'fw_query.c', 'util.c']


class Malformed(Exception):
    pass


def parse_name(m, pos, starts, record=True, depth=0):
    """returns (labels, next_pos); starts: set of legal pointer targets (label starts), updated."""
    labels = []
    total = 1
    cur = pos
    while True:
        if cur >= len(m):
            raise Malformed('name runs past the end')
        c = m[cur]
        if c == 0:
            cur += 1
            break
        if c < 64:
            if cur + 1 + c > len(m):
                raise Malformed('label runs past the end')
            if record:
                starts.add(cur)
            labels.append(bytes(m[cur + 1:cur + 1 + c]))
            total += c + 1
            cur += 1 + c
            continue
        if c >= 192:
            if cur + 1 >= len(m):
                raise Malformed('truncated pointer')
            target = ((c & 0x3f) << 8) | m[cur + 1]
            if target >= cur or target not in starts:
                raise Malformed('pointer to %d is not a backward pointer to a label start' % target)
            if depth > 130:
                raise Malformed('pointer chain too long')
            sub, _ = parse_name(m, target, starts, record=False, depth=depth + 1)
            labels += sub
            total += sum(len(l) + 1 for l in sub)
            cur += 2
            break
        raise Malformed('reserved label type %#x' % c)
    if total > 255:
        raise Malformed('name longer than 255 bytes')
    return labels, cur


def parse_rr(m, pos, starts):
    owner, p = parse_name(m, pos, starts)
    if p + 10 > len(m):
        raise Malformed('truncated record header')
    ty = (m[p] << 8) | m[p + 1]
    cl = (m[p + 2] << 8) | m[p + 3]
    rdlen = (m[p + 8] << 8) | m[p + 9]
    rs = p + 10
    if rs + rdlen > len(m):
        raise Malformed('RDLENGTH exceeds the message')
    rdname = None

    def name_at(off):
        ls, after = parse_name(m, rs + off, starts)
        if after != rs + rdlen:
            raise Malformed('RDLENGTH %d does not match the name in RDATA' % rdlen)
        return ls
    if ty in (5, 2):
        rdname = name_at(0)
    elif ty == 15:
        if rdlen < 2:
            raise Malformed('short MX')
        rdname = name_at(2)
    elif ty == 33:
        if rdlen < 6:
            raise Malformed('short SRV')
        rdname = name_at(6)
    elif ty == 16:
        q = rs
        if rdlen < 1:
            raise Malformed('empty TXT')
        while q < rs + rdlen:
            q += 1 + m[q]
        if q != rs + rdlen:
            raise Malformed('TXT strings do not tile RDATA')
    elif ty == 1:
        if rdlen != 4:
            raise Malformed('A record with %d bytes' % rdlen)
    elif ty == 41:
        if owner:
            raise Malformed('OPT with non-root owner')
    return dict(owner=owner, type=ty, cls=cl, rdata=bytes(m[rs:rs + rdlen]), rdname=rdname), rs + rdlen


def parse_msg(m):
    m = bytes(m)
    if len(m) < 12:
        raise Malformed('short header')
    mid = (m[0] << 8) | m[1]
    qd, an, ns, ar = [(m[i] << 8) | m[i + 1] for i in (4, 6, 8, 10)]
    if qd != 1:
        raise Malformed('qdcount %d' % qd)
    starts = set()
    qname, p = parse_name(m, 12, starts)
    if p + 4 > len(m):
        raise Malformed('truncated question')
    qtype = (m[p] << 8) | m[p + 1]
    p += 4
    secs = []
    for cnt in (an, ns, ar):
        rrs = []
        for _ in range(cnt):
            rr, p = parse_rr(m, p, starts)
            rrs.append(rr)
        secs.append(rrs)
    if p != len(m):
        raise Malformed('%d trailing bytes / count mismatch' % (len(m) - p))
    return dict(id=mid, qr=m[2] >> 7, qname=qname, qtype=qtype, answers=secs[0], authority=secs[1], additional=secs[2])


def dotted(labels):
    return b'.'.join(labels)


def model_p_line(msg):
    """the line drv_wire.ml prints for a 'P' case, computed from the Python parse (for diffing)"""
    def rrs(l):
        return ','.join('%d:%s:%s' % (r['type'], dotted(r['owner']).hex() or '-',
                                      (dotted(r['rdname']).hex() or '-') if r['rdname'] is not None else '_') for r in l)
    return 'OK %d %d %s %d an=[%s] ns=[%s] ar=[%s]' % (msg['id'], msg['qr'], dotted(msg['qname']).hex() or '-', msg['qtype'],
                                                      rrs(msg['answers']), rrs(msg['authority']), rrs(msg['additional']))
