"""C06 -- the client survives arbitrary replies (memory safety, termination).

Proofs: coq/Properties_C06.v (bounds / termination of the modelled decoders and of the client
state machine for all inputs).  This check ties them to the code and looks for what a theorem
about the model cannot show (undefined behaviour of the compiled program):

  stream 1 (decoder)   `A buflen residue dgram` through the real read_dns_withq: plain build +
                       ASan/UBSan build + extracted model (WIRE); valid answers of 7 types x 5
                       codecs and hostile answer sections;
  stream 2 (tunnel)    client histories (clilib, with a hostile share) through the real
                       tunnel_tun / tunnel_dns / time-out code: plain + ASan/UBSan + model (CLI);
                       plus matched hostile replies through tunnel_dns (h_hsfuzz.c `tunnel`);
  stream 3 (handshake) the real client_handshake against the real server through the relay of
                       h_handshake.c with fuzzing (`G`), and single handshake steps with scripted
                       replies (h_hsfuzz.c `H`, `N`): ASan + UBSan (recovering, so that every distinct
                       report is collected); no model: oracle = no sanitizer report, no crash, no
                       hang, no dependence of the parsed login reply on earlier replies.

Every finding has a stable key (`ubsan:<function>:<class>`, `asan:<function>:<kind>`, ...); keys
listed with status "known" in known_findings.json are reported as KNOWN-FINDING."""
import os, re, sys, time, json, subprocess, shutil, struct
from concurrent.futures import ThreadPoolExecutor
import vlib
import clilib
import srvlib
import c06lib as L
from wirelib import WIRE

WRAPS_HS = ['sendto', 'recvfrom', 'recv', 'recvmsg', 'time', 'write_tun', 'read_tun', 'system', 'rand', 'sleep', 'select',
            'errx', 'err', 'exit', 'compress2', 'uncompress']
HS = vlib.tu_harness(['hmain.c', 'h_handshake.c', 'wire_net.c', 'wire_srv.c', 'wire_cli.c', 'zreal.c'], 'server', WRAPS_HS)
HS['repo'] = vlib.COMMON_SRCS + ['user.c', 'fw_query.c', 'util.c']
HF = vlib.tu_harness(['hmain.c', 'h_hsfuzz.c', 'wire_net.c', 'zreal.c'], 'client', WRAPS_HS)
SPECS = dict(wire=WIRE, cli=clilib.CLI, hs=HS, hf=HF)
RECOVER = ['-fsanitize-recover=undefined']

SAN_ENV = dict(ASAN_OPTIONS='detect_leaks=0:abort_on_error=0:halt_on_error=1:detect_stack_use_after_return=0',
               UBSAN_OPTIONS='print_stacktrace=1:halt_on_error=0')


# ------------------------------------------------------------------------------------------
# builds

def build_variant(snap, name, spec, outdir, suffix, flags):
    """like vlib.build_harness, with extra flags on every object (used for the UBSan-recover builds)"""
    odir = os.path.join(outdir, name + suffix + '.objs')
    ok, objs, lg = snap.compile_objs(spec['repo'], odir, extra=flags, sanitize=True)
    if not ok:
        return False, None, lg
    hobjs = []
    for hs in spec['harness']:
        o = os.path.join(odir, 'h_' + os.path.basename(hs)[:-2] + '.o')
        cmd = ['gcc'] + vlib.REPO_CFLAGS + ['-D' + vlib.HOOK_GUARD] + vlib.SAN_FLAGS + list(flags) + \
              ['-I', snap.src, '-I', os.path.join(vlib.VERIF, 'harness'), '-DSNAP_SRC="%s"' % snap.src,
               '-c', os.path.join(vlib.VERIF, 'harness', hs), '-o', o]
        rc, out = vlib.run(cmd)
        if rc != 0:
            return False, None, out
        hobjs.append(o)
    exe = os.path.join(outdir, name + suffix)
    cmd = ['gcc'] + vlib.SAN_FLAGS + list(flags) + hobjs + objs + ['-o', exe] + vlib.REPO_LIBS + \
          ['-Wl,' + ','.join('--wrap=' + w for w in spec['wraps'])]
    rc, out = vlib.run(cmd)
    if rc != 0:
        return False, None, out
    return True, exe, ''


def build_all(ctx, which=('wire', 'cli', 'hs', 'hf')):
    jobs = []
    for name in which:
        spec = SPECS[name]
        jobs.append((name, 'plain', lambda n=name, s=spec: vlib.build_harness(ctx.snap, n, s['harness'], s['repo'], ctx.work, wraps=s['wraps'])))
        if name in ('wire', 'cli'):
            jobs.append((name, 'san', lambda n=name, s=spec: vlib.build_harness(ctx.snap, n, s['harness'], s['repo'], ctx.work, wraps=s['wraps'], sanitize=True)))
        else:
            jobs.append((name, 'san', lambda n=name, s=spec: build_variant(ctx.snap, n, s, ctx.work, '.rec', RECOVER)))
    with ThreadPoolExecutor(max_workers=8) as ex:
        futs = [(n, k, ex.submit(f)) for n, k, f in jobs]
        for n, k, fu in futs:
            ok, exe, lg = fu.result()
            if ok:
                (ctx.exe if k == 'plain' else ctx.san)[n] = exe
            else:
                ctx.broken.append(('build:%s.%s' % (n, k), 'harness %s (%s) does not build against the current tree: %s' % (n, k, lg[-600:])))


# ------------------------------------------------------------------------------------------
# sanitizer report parsing

UB_RE = re.compile(r'^\s*(\S+?):(\d+):(\d+): runtime error: (.*)$')
FRAME_RE = re.compile(r'^\s*#(\d+) 0x[0-9a-f]+ in (\S+) (\S+?)(?::(\d+))?(?::\d+)?$')
ASAN_RE = re.compile(r'ERROR: AddressSanitizer: (\S+)')


def ub_class(msg):
    if msg.startswith('left shift') or msg.startswith('shift exponent'):
        return 'shift'
    if 'integer overflow' in msg:
        return 'signed-overflow'
    if msg.startswith('index '):
        return 'index-out-of-bounds'
    if 'misaligned' in msg or 'null pointer' in msg:
        return 'pointer'
    if 'not a valid value' in msg:
        return 'invalid-value'
    return 'other'


def parse_reports(text):
    """list of dict(kind, key, msg, func, loc, line_no) for every UBSan / ASan report in text"""
    lines = text.split('\n')
    out = []
    i = 0
    while i < len(lines):
        ln = lines[i]
        m = UB_RE.match(ln) if 'runtime error' in ln else None
        if not m and 'runtime error: ' in ln:
            # glued after client chatter that has no newline
            k = ln.rfind(' ', 0, ln.find(': runtime error'))
            m = UB_RE.match(ln[k + 1:])
        if m:
            func = '?'
            for j in range(i + 1, min(i + 4, len(lines))):
                fm = FRAME_RE.match(lines[j])
                if fm:
                    func = fm.group(2)
                    break
            out.append(dict(kind='ubsan', key='ubsan:%s:%s' % (func, ub_class(m.group(4))), msg=m.group(4), func=func,
                            loc='%s:%s' % (os.path.basename(m.group(1)), m.group(2)), line_no=i))
            i += 1
            continue
        am = ASAN_RE.search(ln)
        if am:
            kind = am.group(1)
            func, loc = '?', '?'
            first = None
            for j in range(i + 1, min(i + 40, len(lines))):
                fm = FRAME_RE.match(lines[j])
                if not fm:
                    if first is not None and not lines[j].strip():
                        break
                    continue
                if first is None:
                    first = (fm.group(2), '%s:%s' % (os.path.basename(fm.group(3)), fm.group(4)))
                if re.search(r'iodine-verif[^/]*/src/[^/]+\.c$', fm.group(3)):
                    func, loc = fm.group(2), '%s:%s' % (os.path.basename(fm.group(3)), fm.group(4))
                    break
            if func == '?' and first:
                func, loc = first
            detail = ''
            for j in range(i + 1, min(i + 3, len(lines))):
                if lines[j].startswith(('READ of', 'WRITE of')):
                    detail = ' ' + lines[j].split(' at ')[0]
            out.append(dict(kind='asan', key='asan:%s:%s' % (func, kind), msg=kind + detail, func=func, loc=loc, line_no=i))
        i += 1
    # reports without a usable frame take the function of another report at the same location;
    # several reports for one source location (bounds + object-size + ASan) count once
    byloc = {r['loc']: r['func'] for r in out if r['func'] != '?'}
    seen = set()
    res = []
    for r in out:
        if r['func'] == '?':
            r['func'] = byloc.get(r['loc'], r['loc'].split(':')[0])
            r['key'] = '%s:%s:%s' % (r['kind'], r['func'], r['key'].split(':', 2)[2])
        dup = r['loc'] in seen and (r['kind'] == 'asan' or r['key'].endswith(':other'))
        seen.add(r['loc'])
        if not dup:
            res.append(r)
    return res


# ------------------------------------------------------------------------------------------
# running

def run_shard_merged(exe, cases, path, result_re, timeout):
    """run cases with stdout+stderr merged into one file; returns (results, per_case_reports, crash)
    results[i] is the result line or None; crash = (index, kind, text) or None"""
    with open(path, 'w') as f:
        f.write('\n'.join(cases) + '\n')
    env = dict(os.environ)
    env.update(SAN_ENV)
    outp = path + '.log'
    kind = None
    with open(outp, 'wb') as fo:
        p = subprocess.Popen(['bash', '-c', 'ulimit -s unlimited 2>/dev/null; exec "$0" "$1"', exe, path], stdout=fo,
                             stderr=subprocess.STDOUT, env=env)
        try:
            p.wait(timeout=timeout)
        except subprocess.TimeoutExpired:
            p.kill()
            p.wait()
            kind = 'hang'
    text = open(outp, 'rb').read().decode('latin-1')
    reports = parse_reports(text)
    lines = text.split('\n')
    results = []
    per_case = []
    ri = 0
    pending = []
    for no, ln in enumerate(lines):
        while ri < len(reports) and reports[ri]['line_no'] <= no:
            pending.append(reports[ri])
            ri += 1
        m = result_re.search(ln)
        if m:
            results.append(m.group(1))
            per_case.append(pending)
            pending = []
    pending += reports[ri:]
    crash = None
    if len(results) < len(cases):
        if kind is None:
            kind = 'crash rc=%s' % p.returncode
        k = text.rfind('ERROR: AddressSanitizer')
        crash = (len(results), kind, text[k:k + 3000] if k >= 0 else text[-3000:], pending)
    return results, per_case, crash


def run_stream_merged(exe, cases, work, tag, result_re, shards=16, timeout=240, max_restarts=400):
    """sharded, restarting after a crash; returns (results list with None for crashed cases,
    list of findings dict(case_index, reports, crashkind))"""
    n = len(cases)
    if n == 0:
        return [], []
    shards = max(1, min(shards, n))
    size = (n + shards - 1) // shards
    results = [None] * n
    events = []

    def one(si):
        lo = si * size
        hi = min(n, lo + size)
        start = lo
        restarts = 0
        evs = []
        while start < hi:
            res, per, crash = run_shard_merged(exe, cases[start:hi], os.path.join(work, '%s.%d.%d.cases' % (tag, si, restarts)),
                                               result_re, timeout)
            for k, r in enumerate(res):
                results[start + k] = r
                if per[k]:
                    evs.append(dict(index=start + k, reports=per[k], crash=None))
            if crash is None:
                break
            idx, kind, tail, pend = crash
            evs.append(dict(index=start + idx, reports=pend, crash=kind, tail=tail))
            start = start + idx + 1
            restarts += 1
            if restarts > max_restarts:
                evs.append(dict(index=start, reports=[], crash='too many crashes in one shard; %d cases not run' % (hi - start), tail=''))
                break
        return evs
    with ThreadPoolExecutor(max_workers=shards) as ex:
        for evs in ex.map(one, range(shards)):
            events += evs
    return results, events


def run_std(exe, cases, work, tag, shards=16, timeout=600, env=None):
    """separate stdout / stderr (vlib runner); returns (lines, crashes) where crashes is a list of
    (index, stderr_tail) for the first missing output of the run (the vlib runner pads)"""
    if env:
        old = {k: os.environ.get(k) for k in env}
        os.environ.update(env)
    try:
        rc, lines, err = vlib.parallel_run_cases(exe, cases, work, tag, shards=shards, timeout=timeout)
    finally:
        if env:
            for k, v in old.items():
                if v is None:
                    os.environ.pop(k, None)
                else:
                    os.environ[k] = v
    return rc, lines, err


def run_one(exe, case, work, tag, timeout=120, merged=False):
    p = os.path.join(work, tag + '.cases')
    with open(p, 'w') as f:
        f.write(case + '\n')
    env = dict(os.environ)
    env.update(SAN_ENV)
    try:
        pr = subprocess.run(['bash', '-c', 'ulimit -s unlimited 2>/dev/null; exec "$0" "$1"', exe, p], stdout=subprocess.PIPE,
                            stderr=subprocess.PIPE, env=env, timeout=timeout)
    except subprocess.TimeoutExpired:
        return 124, '', 'TIMEOUT'
    return pr.returncode, pr.stdout.decode('latin-1'), pr.stderr.decode('latin-1')


# ------------------------------------------------------------------------------------------
# stream 1: decoder

def real_answers(ctx, rng):
    """35 answers (7 types x 5 codec letters) built by the REAL server's write_dns (W cases, full hex)"""
    cases = []
    for ty in L.TYPES:
        for ce in L.CODEC_LETTERS:
            pl = bytes([0x80 | rng.randrange(16), rng.randrange(256)]) + bytes(rng.randrange(256) for _ in range(rng.choice([30, 90, 140])))
            cases.append('W %d %d %d %d %s %s' % (ty, ce, rng.randrange(1, 65536), 65536, b'paaaq.t.example.com'.hex(), pl.hex()))
    if 'wire' not in ctx.exe:
        return []
    rc, lines, err = run_std(ctx.exe['wire'], cases, ctx.work, 'real', shards=1, env={'VERIF_FULL': '1'})
    out = []
    for c, l in zip(cases, lines):
        if ' | ' in l:
            h = l.split(' | ')[0]
            try:
                out.append((int(c.split(' ')[1]), int(c.split(' ')[2]), bytes.fromhex(h)))
            except ValueError:
                pass
    return out


def gen_decoder(ctx, rng, tier):
    scale = 1 if tier == 'quick' else 6
    stats = {}
    dgs = []

    def add(kind, dg):
        stats[kind] = stats.get(kind, 0) + 1
        dgs.append((kind, dg[:65535]))
    real = real_answers(ctx, rng)
    for ty, ce, dg in real:
        add('real:%s/%s' % (L.TYPE_NAMES[ty], chr(ce)), dg)
    # python-built carriers, all 7 x 5
    bases = []
    for ty in L.TYPES:
        for ce in L.CODEC_LETTERS:
            for n in (2, 40, 200, 900) + ((4094, 4095, 5000) if ty in (L.T_NULL, L.T_PRIVATE, L.T_TXT) and ce == ord('R') else ()):
                pl = bytes([0x80, rng.randrange(256)]) + bytes(rng.randrange(256) for _ in range(n))
                dg = L.data_reply(rng.randrange(65536), rng.choice(b'pP3v'), ty, pl, denc=ce)
                add('carrier:%s/%s' % (L.TYPE_NAMES[ty], chr(ce)), dg)
                if n == 40:
                    bases.append((ty, dg))
    # truncation at every length (one base per type; real answers too in thorough)
    for ty, dg in bases[::5] + ([(t, d) for t, c, d in real[::5]] if tier != 'quick' else []):
        for k in range(len(dg) + 1):
            add('truncate:%s' % L.TYPE_NAMES[ty], dg[:k])
    for ty, dg in bases:
        for _ in range(3 * scale):
            add('counts', L.hostile_counts(rng, dg))
        for _ in range(4 * scale):
            add('mutate', L.mutate(rng, dg))
    for t, c, dg in real:
        for _ in range(4 * scale):
            add('mutate-real', L.mutate(rng, dg))
        add('counts-real', L.hostile_counts(rng, dg))
    for _ in range(500 * scale):
        ty = rng.choice(L.TYPES)
        add('rdlength:%s' % L.TYPE_NAMES[ty], L.hostile_rdlength(rng, rng.randrange(65536), rng.choice(b'pP7'), ty))
    for _ in range(260 * scale):
        ty = rng.choice([L.T_MX, L.T_SRV])
        add('mx-records', L.hostile_mx(rng, rng.randrange(65536), ord('p'), ty))
    # the D8 shape: >= 17 names of 240+ chars, then one more; and every preference boundary
    for ty in (L.T_MX, L.T_SRV):
        for nrec in (16, 17, 18, 19, 30):
            for ln in (240, 246, 247, 250, 255):
                add('mx-long', L.hostile_mx(vlib.rng_for(0, 'mxl%d%d%d' % (ty, nrec, ln)), 77, ord('p'), ty, nrec=nrec, namelen=ln, mode=0))
        for nrec in (248, 249, 250, 251, 300):
            add('mx-many', L.reply(5, ord('p'), ty, [L.rr(ty, L.mx_rdata(10 * (i + 1), L.wname(b'h' * (1 + i % 7)), srv=(ty == L.T_SRV))) for i in range(nrec)]))
        for pref in (0, 5, 10, 2480, 2490, 2495, 2500, 2510, 5000, 24990, 25000, 65530, 65535):
            add('mx-pref', L.reply(6, ord('p'), ty, [L.rr(ty, L.mx_rdata(pref, L.wname(b'habcdefgh.xy'), srv=(ty == L.T_SRV)))]))
        add('mx-announce', L.hostile_mx(rng, 9, ord('p'), ty, nrec=3, announce=0x7fff))
        add('mx-announce', L.hostile_mx(rng, 9, ord('p'), ty, nrec=3, announce=0xffff))
    # one maximal answer (model cost is quadratic in the offset: only one)
    add('mx-64k', L.hostile_mx(vlib.rng_for(1, 'mx64k'), 3, ord('p'), L.T_MX, nrec=245, namelen=250, mode=0))
    for _ in range(300 * scale):
        add('txt-chunks', L.hostile_txt(rng, rng.randrange(65536), rng.choice(b'pP0')))
    for _ in range(500 * scale):
        ty = rng.choice(L.TYPES)
        add('compression:%s' % L.TYPE_NAMES[ty], L.hostile_compression(rng, rng.randrange(65536), rng.choice(b'pPa'), ty))
    for _ in range(300 * scale):
        add('random', L.random_bytes(rng))
    cases = []
    kinds = []
    for kind, dg in dgs:
        big = len(dg) > 30000
        for buflen in ((4096, 65536) if (kind.startswith(('mx', 'txt', 'rdlength', 'carrier')) and not big) else (rng.choice([4096, 65536]),)):
            cases.append('A %d %d %s' % (buflen, rng.randrange(5), dg.hex() if dg else '-'))
            kinds.append(kind)
    return cases, kinds, stats


def oracle_a(case, out):
    if out == '<NO-OUTPUT>':
        return 'no output (crash)'
    if 'GUARD-VIOLATED' in out:
        return 'read_dns_withq wrote past the caller buffer (guard byte overwritten)'
    f = out.split(' ')
    try:
        rv = int(f[0])
    except ValueError:
        return 'unparsable result %r' % out[:80]
    buflen = int(case.split(' ')[1])
    if rv > buflen:
        return 'read_dns_withq returned %d > buflen %d' % (rv, buflen)
    return None


def shrink_prefix(case, fails, budget=14):
    """shortest failing datagram prefix (A cases) by bisection, verified"""
    t = case.split(' ')
    if t[0] != 'A' or t[3] == '-':
        return case
    dg = bytes.fromhex(t[3])
    lo, hi = 0, len(dg)
    best = case
    while lo < hi and budget > 0:
        mid = (lo + hi) // 2
        c = 'A %s %s %s' % (t[1], t[2], dg[:mid].hex() or '-')
        budget -= 1
        if fails(c):
            hi = mid
            best = c
        else:
            lo = mid + 1
    return best


def stream_decoder(rep, ctx, findings):
    rng = vlib.rng_for(rep.seed, 'c06-dec')
    cases, kinds, stats = gen_decoder(ctx, rng, rep.tier)
    rep.cov['decoder_distribution'] = dict(sorted(stats.items()))
    rep.cov['decoder_cases'] = len(cases)
    impl = mod = None
    if 'wire' in ctx.exe:
        rc, impl, err = run_std(ctx.exe['wire'], cases, ctx.work, 'dec-impl')
        for i, (c, o) in enumerate(zip(cases, impl)):
            why = oracle_a(c, o)
            if why:
                def fails(cc):
                    r, so, se = run_one(ctx.exe['wire'], cc, ctx.work, 'shr')
                    return oracle_a(cc, so.strip() or '<NO-OUTPUT>') is not None
                sc = shrink_prefix(c, fails)
                findings.add('decoder:%s' % kinds[i].split(':')[0], why, dict(kind='input', driver='wire', case=sc[:200000],
                                                                           observed=o[:400], stream='decoder', full_case_len=len(c)))
                break
    if 'wire' in ctx.san:
        rep.cov['decoder_sanitizer_cases'] = len(cases)
        start = 0
        tries = 0
        while start < len(cases) and tries < 8:
            rc, sl, err = run_std(ctx.san['wire'], cases[start:], ctx.work, 'dec-san%d' % tries)
            idx = next((i for i, l in enumerate(sl) if l == '<NO-OUTPUT>'), None)
            if rc == 0 or idx is None:
                break
            tries += 1
            # with several shards the first missing output of any shard is a crasher
            c = cases[start + idx]
            r1, so, se = run_one(ctx.san['wire'], c, ctx.work, 'dec-one')
            reps = parse_reports(se)
            if r1 == 0 and not reps:
                start = start + idx + 1
                continue
            key = reps[0]['key'] if reps else 'crash:wire'
            what = ('%s at %s (%s)' % (reps[0]['msg'], reps[0]['loc'], reps[0]['func'])) if reps else 'sanitizer build exited %d: %s' % (r1, se[-300:])

            def fails(cc, key=key):
                r, so2, se2 = run_one(ctx.san['wire'], cc, ctx.work, 'shr')
                return any(x['key'] == key for x in parse_reports(se2)) or (key == 'crash:wire' and r != 0)
            sc = shrink_prefix(c, fails)
            findings.add(key, 'decoder stream (%s): %s' % (kinds[start + idx], what),
                         dict(kind='input', driver='wire.san', case=sc[:200000], observed=se[-2500:], stream='decoder'))
            start = start + idx + 1
    if ctx.model and impl is not None:
        # the extracted model reads lists by index (quadratic in the offset): datagrams above 20000
        # bytes are run on the implementation and under the sanitizers only
        sel = [i for i, c in enumerate(cases) if len(c) < 40100]
        mcases = [cases[i] for i in sel]
        mimpl = [impl[i] for i in sel]
        rc, mod, err = run_std(ctx.model, mcases, ctx.work, 'dec-model', timeout=900)
        d = vlib.first_diff(mcases, mimpl, mod)
        rep.cov['decoder_model_cases'] = len(mcases)
        rep.cov['decoder_model_agreement'] = len(mcases) if d is None else d
        if d is not None:
            ctx.broken.append(('correspondence:decoder', 'model and implementation disagree on %s case %r: impl=%r model=%r' % (
                kinds[sel[d]], mcases[d][:300], mimpl[d][-200:], mod[d][-200:])))
            findings.diff_cases.append(('wire', mcases[d]))
    return cases


# ------------------------------------------------------------------------------------------
# stream 2: tunnel

class HostileCliGen(clilib.CliGen):
    """CliGen with a larger hostile share: datagrams of the decoder generators as `D` events (ids
    0 match chunkid_prev / prev2 at the start of a history), odd payloads through the real server"""

    def hostile(self):
        r = self.rng
        k = r.randrange(10)
        first = self.first_char()
        qid = r.choice([0, 0, self.chunkid, (self.chunkid + 7727) & 0xffff, r.randrange(65536)])
        ty = r.choice(L.TYPES)
        if k < 4:
            return clilib.CliGen.hostile(self)
        if k == 4:
            dg = L.hostile_rdlength(r, qid, first, ty)
        elif k == 5:
            dg = L.hostile_mx(r, qid, first, r.choice([L.T_MX, L.T_SRV]), nrec=r.choice([1, 3, 17, 40]))
        elif k == 6:
            dg = L.hostile_txt(r, qid, first)
        elif k == 7:
            dg = L.hostile_compression(r, qid, first, ty)
        elif k == 8:
            pl = bytes([r.randrange(256), r.randrange(256)]) + bytes(r.randrange(256) for _ in range(r.choice([0, 1, 30, 300])))
            dg = L.data_reply(qid, first, ty, pl, denc=r.choice(L.CODEC_LETTERS))
        else:
            dg = L.mutate(r, L.data_reply(qid, first, ty, bytes(r.randrange(256) for _ in range(40)), denc=r.choice(L.CODEC_LETTERS)))
        dg = dg[:6000]
        self.events.append('D %d %s' % (self.now, dg.hex() if dg else '-'))
        self.stats['hostile'] += 1

    def build(self, nevents):
        # same event kinds as CliGen.build, with about a quarter of hostile datagrams
        r = self.rng
        while len(self.events) < nevents:
            x = r.random()
            if not self.dns:
                if x < 0.3:
                    self.tun()
                elif x < 0.6:
                    self.rawdg()
                elif x < 0.7:
                    self.timeout()
                else:
                    self.hostile()
            elif x < 0.15:
                self.tun()
            elif x < 0.32:
                self.answer(ackmode=r.choice([0, 1, 1, 1, 2]))
            elif x < 0.47:
                self.down_packet()
            elif x < 0.60:
                self.timeout()
            elif x < 0.64:
                self.events.append('A %d %d %d %d %d 0 %s' % (self.now, r.choice([0, 1]), self.first_char(), self.qtype, self.downenc,
                                                              r.choice([b'BADIP', b'x', b'BADIPx', bytes([0x80])]).hex()))
                self.stats['answer'] += 1
            elif x < 0.88:
                self.hostile()
            elif x < 0.92:
                self.rawdg()
            else:
                self.answer(payload=bytes(r.randrange(256) for _ in range(r.randrange(1, 50))), last=r.randrange(2) == 0,
                            seq=r.randrange(8), frag=r.randrange(16), ackmode=r.randrange(3))
            self.tick()
        return self.head() + ' ; ' + ' ; '.join(self.events[:nevents])


def gen_tunnel(rng, n, nevents):
    out = []
    stats = {}
    for _ in range(n):
        g = HostileCliGen(rng)
        # more hostile events: replace a share of the ordinary events afterwards
        line = g.build(nevents)
        out.append(line)
        for k, v in g.stats.items():
            stats[k] = stats.get(k, 0) + v
    return out, stats


def big_mx_tunnel_cases(rng):
    """two consecutive MX fragments of > 32K decoded bytes each (only MX/SRV can carry that much):
    the reassembly clamp MIN(read - 2, sizeof(inpkt.data) - inpkt.len) is what keeps inpkt.len <= 64K"""
    cases = []
    for ty in (L.T_MX, L.T_SRV):
        for denc in (ord('V'), ord('T')):
            items = []
            for frag in (0, 1, 2):
                b0 = 0x00
                b1 = (1 << 5) | (frag << 1) | 0
                per = 150 if denc == ord('T') else 208
                pl = bytes([b0, b1]) + bytes(rng.randrange(256) for _ in range(per * 215))
                dg = L.reply(0, ord('p'), ty, L.carrier_rrs(ty, denc, pl, percap=per))
                items.append(('=', dg[:65000]))
            cases.append(L.hs_case('tunnel', qtype=ty, uid=3, arg=len(items), items=items))
    return cases


def gen_tunnel_matched(rng, n):
    """matched (id = chunkid, first character 'p' or the userid digit) hostile replies through the real
    tunnel_dns, with real zlib (h_hsfuzz.c `tunnel` / `rawtunnel`)"""
    cases = []
    for _ in range(n):
        uid = rng.randrange(16)
        ty = rng.choice(L.TYPES)
        items = []
        seq = rng.randrange(8)
        frag = 0
        for _ in range(rng.choice([3, 8, 20])):
            first = rng.choice([ord('p'), ord('P'), ord('%x' % uid), ord(('%x' % uid).upper())])
            k = rng.randrange(9)
            b1 = (seq << 5) | (frag << 1) | (1 if rng.randrange(4) == 0 else 0)
            pl = bytes([rng.randrange(256), b1]) + bytes(rng.randrange(256) for _ in range(rng.choice([0, 1, 5, 200, 1200, 4090, 4094])))
            if k < 4:
                dg = L.data_reply(0, first, ty, pl, denc=rng.choice(L.CODEC_LETTERS))
                frag = (frag + 1) & 15
                if b1 & 1:
                    seq = (seq + 1) & 7
                    frag = 0
            elif k == 4:
                dg = L.hostile_rdlength(rng, 0, first, ty)
            elif k == 5:
                dg = L.hostile_mx(rng, 0, first, rng.choice([L.T_MX, L.T_SRV]), nrec=rng.choice([1, 5, 17, 60]))
            elif k == 6:
                dg = L.hostile_txt(rng, 0, first)
            elif k == 7:
                dg = L.hostile_compression(rng, 0, first, ty)
            else:
                dg = L.mutate(rng, L.data_reply(0, first, ty, pl[:300], denc=rng.choice(L.CODEC_LETTERS)))
            items.append((rng.choice('==='), dg[:20000], rng.randrange(5)))
        cases.append(L.hs_case('tunnel', qtype=ty, uid=uid, lazy=rng.randrange(2), arg=len(items), items=items))
    # raw-mode frames of all kinds
    hdr = bytes([0x10, 0xd1, 0x9e])
    for _ in range(max(4, n // 6)):
        uid = rng.randrange(16)
        items = []
        for _ in range(12):
            k = rng.randrange(6)
            if k == 0:
                fr = hdr + bytes([0x20 | uid]) + bytes(rng.randrange(256) for _ in range(rng.choice([0, 1, 10, 300, 4000])))
            elif k == 1:
                import zlib
                fr = hdr + bytes([0x20 | uid]) + zlib.compress(bytes(rng.randrange(256) for _ in range(rng.choice([1, 100, 1400]))))
            elif k == 2:
                import zlib
                fr = hdr + bytes([0x20 | uid]) + zlib.compress(bytes(70000))     # inflates beyond 64K
            elif k == 3:
                fr = hdr + bytes([rng.randrange(256)]) + bytes(rng.randrange(256) for _ in range(rng.randrange(20)))
            elif k == 4:
                fr = hdr[:rng.randrange(4)]
                keep = rng.randrange(2)
                if keep:
                    # right after a well-formed frame: the bytes it left in the receive buffer must not be parsed again
                    import zlib
                    items.append(('', hdr + bytes([0x20 | uid]) + zlib.compress(bytes(rng.randrange(256) for _ in range(40)))[:rng.choice([200, 30])], 0))
                    fr = hdr
                    items.append(('', fr, -1))          # residue -1: the receive buffer keeps what the previous datagram left
                    continue
            else:
                fr = bytes(rng.randrange(256) for _ in range(rng.randrange(0, 30)))
            items.append(('', fr, rng.randrange(5)))
        cases.append(L.hs_case('rawtunnel', uid=uid, arg=len(items), items=items))
    return cases


def stream_tunnel(rep, ctx, findings, model_cli):
    rng = vlib.rng_for(rep.seed, 'c06-tun')
    n, nev = (40, 80) if rep.tier == 'quick' else (400, 150)
    cases, stats = gen_tunnel(rng, n, nev)
    rep.cov['tunnel_histories'] = len(cases)
    rep.cov['tunnel_events'] = len(cases) * nev
    rep.cov['tunnel_distribution'] = stats
    impl = None
    if 'cli' in ctx.exe:
        rc, impl, err = run_std(ctx.exe['cli'], cases, ctx.work, 'tun-impl')
        if rc != 0:
            idx = next((i for i, l in enumerate(impl) if l == '<NO-OUTPUT>'), 0)
            findings.add('crash:tunnel', 'client history crashes the client: ' + err[-300:],
                         dict(kind='history', driver='cli', case=cases[idx][:300000], observed=err[-1500:], stream='tunnel'))
        for c, o in zip(cases, impl):
            m = re.findall(r' I(\d+)/', o)
            if any(int(x) > 65536 for x in m):
                findings.add('tunnel:inpkt.len', 'reassembly length exceeds sizeof(inpkt.data)',
                             dict(kind='history', driver='cli', case=c[:300000], observed=o[-300:], stream='tunnel'))
                break
    if 'cli' in ctx.san:
        rc, sl, err = run_std(ctx.san['cli'], cases, ctx.work, 'tun-san', env=dict(SAN_ENV, UBSAN_OPTIONS='print_stacktrace=1:halt_on_error=1'))
        rep.cov['tunnel_sanitizer_histories'] = len(cases)
        if rc != 0:
            idx = next((i for i, l in enumerate(sl) if l == '<NO-OUTPUT>'), None)
            if idx is not None:
                r1, so, se = run_one(ctx.san['cli'], cases[idx], ctx.work, 'tun-one')
                reps = parse_reports(se)
                key = reps[0]['key'] if reps else 'crash:cli'
                what = ('%s at %s (%s)' % (reps[0]['msg'], reps[0]['loc'], reps[0]['func'])) if reps else 'sanitizer build exited %d' % r1
                sc = shrink_history(cases[idx], lambda cc: any(x['key'] == key for x in parse_reports(run_one(ctx.san['cli'], cc, ctx.work, 'shr')[2])))
                findings.add(key, 'tunnel stream: ' + what, dict(kind='history', driver='cli.san', case=sc[:300000], observed=se[-2500:], stream='tunnel'))
    if model_cli and impl is not None:
        rc, mod, err = run_std(model_cli, cases, ctx.work, 'tun-model', timeout=900)
        d = vlib.first_diff(cases, impl, mod)
        rep.cov['tunnel_model_agreement'] = len(cases) if d is None else d
        if d is not None:
            a = impl[d].split(' ; ')
            b = mod[d].split(' ; ')
            ev = next((i for i in range(min(len(a), len(b))) if a[i] != b[i]), min(len(a), len(b)))
            ctx.broken.append(('correspondence:tunnel', 'client model and implementation disagree at event %d of history %r: impl=%r model=%r' % (
                ev, cases[d][:200], a[ev][-250:] if ev < len(a) else '-', b[ev][-250:] if ev < len(b) else '-')))
            findings.diff_cases.append(('cli', cases[d]))
    # matched hostile replies / raw frames / the 64K reassembly boundary: real tunnel_dns, real zlib
    mcases = gen_tunnel_matched(rng, 60 if rep.tier == 'quick' else 600) + big_mx_tunnel_cases(rng)
    rep.cov['tunnel_matched_cases'] = len(mcases)
    run_hf(rep, ctx, findings, mcases, 'tunm', 'tunnel-matched')
    return cases


def shrink_history(case, fails, budget=12):
    if ' ; ' not in case:
        return case
    head, *evs = case.split(' ; ')
    lo, hi = 1, len(evs)
    best = case
    while lo < hi and budget > 0:
        mid = (lo + hi) // 2
        c = ' ; '.join([head] + evs[:mid])
        budget -= 1
        if fails(c):
            hi = mid
            best = c
        else:
            lo = mid + 1
    return best


# ------------------------------------------------------------------------------------------
# stream 3: handshake

G_RE = re.compile(r'(-?\d+ qtype=\d+ up=\S+ down=.*|BAIL \d+ q=\d+)\s*$')
H_RE = re.compile(r'(rv=-?\d+ uid=-?\d+ seed=.*|BAIL \d+ q=\d+ left=\d+)\s*$')


def gen_handshake_g(rng, n):
    cases = []
    stats = dict(forced_qtype=0, auto_qtype=0, forced_downenc=0, raw_mode=0, autofrag=0)
    qtypes = [0, 10, 65399, 16, 33, 15, 5, 1]
    for i in range(n):
        qcase, acase = rng.choice([0, 0, 1, 2, 3]), rng.choice([0, 0, 1, 2, 3])
        q8, a8 = rng.choice([0, 0, 1, 2]), rng.choice([0, 0, 1, 2])
        qp, ap = rng.choice([0, 0, 1, 2]), rng.choice([0, 0, 1, 2])
        types = rng.choice([127, 127, 127, 126, 124, 96, 64, 4, 28, rng.randrange(1, 128)])
        sizelimit = rng.choice([0, 0, 0, 512, 300, 1200])
        edns = rng.randrange(2)
        rawmode = rng.randrange(2)
        rawok = rng.randrange(2)
        fuzz = rng.choice([50, 100, 200, 300, 500])
        qt = qtypes[i % len(qtypes)] if i < 3 * len(qtypes) else rng.choice(qtypes)
        denc = rng.choice([32, 32, ord('T'), ord('S'), ord('U'), ord('V'), ord('R')])
        lazy = rng.randrange(2)
        autofrag = rng.randrange(2)
        fragsize = rng.choice([100, 200, 500, 1000, 1200])
        maxlen = rng.choice([255, 255, 200, 100])
        npk = rng.choice([0, 1, 2])
        stats['forced_qtype' if qt else 'auto_qtype'] += 1
        stats['forced_downenc'] += denc != 32
        stats['raw_mode'] += rawmode
        stats['autofrag'] += autofrag
        cases.append('G %d %d %d %d %d %d %d %d %d %d %d %d %d %d %d %d %d %d %d %d' % (
            rng.randrange(1, 1 << 30), qcase, q8, qp, acase, a8, ap, types, sizelimit, edns, rawok, fuzz, qt, denc, lazy, rawmode,
            autofrag, fragsize, maxlen, npk))
    return cases, stats


def step_payloads(rng, step):
    """payloads a hostile server could send in this step (the expected strings and their edges)"""
    P = []
    if step == 'version':
        for tag in (b'VACK', b'VNAK', b'VFUL', b'VAC', b'vack'):
            for v in (b'\x00\x00\x00\x00', b'\x7f\xff\xff\xff', b'\x80\x00\x00\x00', b'\xff\xff\xff\xff', bytes(rng.randrange(256) for _ in range(4))):
                P.append(tag + v + bytes([rng.choice([0, 5, 15, 16, 127, 128, 255])]))
        P += [b'VACK', b'VACK\x00\x00\x00', b'VACK' + bytes(5) + bytes(4087), b'VACK' + bytes(5) + bytes(5000)]
    elif step == 'login':
        for nb in (-2147483648, -1, 0, 1, 8, 27, 30, 31, 32, 33, 64, 1000, 20000000):
            P.append(b'10.0.0.1-10.0.0.2-1130-%d' % nb)
            P.append(b'10.0.0.1-10.0.0.2-1130-%d\0' % nb)
        P += [b'LNAK', b'BADIP', b'LNA', b'10.0.0.1-10.0.0.2-1130', b'10.0.0.1-10.0.0.2--5-27', b'-' * 40, b'1' * 64 + b'-' + b'2' * 64 + b'-3-4',
              b'1' * 65 + b'-' + b'2' * 65 + b'-3-4', b'10.0.0.1-10.0.0.2-99999999999999999999-27', b'10.0.0.1 ;id-10.0.0.2-1130-27',
              b'10.0.0.1-10.0.0.2-1130-' + b'1' * 4073, b'9' * 4096, b'10.0.0.1-10.0.0.2-1130-27' + bytes(rng.randrange(1, 256) for _ in range(4071))]
    elif step == 'rawudp':
        P += [b'I\x7f\x00\x00\x01', b'I' + bytes(16), b'I', b'I' + bytes(3), b'I' + bytes(15), b'J\x7f\x00\x00\x01', b'I' + bytes(4095)]
    elif step in ('edns0', 'downenctest', 'downenc_auto', 'qtypetest', 'qtype_auto'):
        d = L.DOWNCODECCHECK1
        P += [d, d[:47], d + b'\0', d[:20] + b'x' + d[21:], b'', b'x', d * 80]
    elif step in ('upenctest', 'upenc_auto'):
        for pat in (b'aAbBcCdDeEfFgGhHiIjJkKlLmMnNoOpPqQrRsStTuUvVwWxXyYzZ+0129-', b'aA-Aaahhh-Drink-mal-ein-J\xe4germeister-', b'aA'):
            P += [b'zabc' + pat, b'zabc' + pat.upper(), b'zabc' + pat.lower(), b'zabc' + pat[:-1], b'zabc' + pat + b'x', b'zab']
        P += [b'zabc', b'zabcA', b'zabcaa', b'z' * 4096]
    elif step in ('switch_codec', 'switch_downenc', 'try_lazy', 'lazyoff'):
        P += [b'BADLEN', b'BADIP', b'BADCODEC', b'Lazy', b'Immediate', b'Base64', b'Base32', b'B', b'BADLE', b'%s%n%s%x', b'Immediat']
    elif step == 'autoprobe':
        for fs in (768, 1152, 384, 2, 1, 0, 2047):
            body = bytearray(fs if fs >= 3 else 3)
            body[0], body[1] = fs >> 8, fs & 0xff
            body[2] = 107
            v = 17
            for i in range(3, len(body)):
                body[i] = v
                v = (v + 107) & 0xff
            P += [bytes(body[:max(fs, 0)]) if fs >= 2 else bytes(body[:2]), bytes(body) + b'x', bytes(body[:-1]) if len(body) > 1 else b'', bytes(body[:2])]
        P += [b'BADIP', b'BADI', b'\x03']
    elif step == 'set_fragsize':
        P += [b'BADFRAG', b'BADIP', b'\x04\xb0', b'\x00', b'BADFRA']
    for n in (1, 2, 4, 5, 6, 8, 9, 4094, 4095, 4096, 4097):
        P.append(bytes(rng.choice(b'AB\xffz') for _ in range(n)))
    P.append(bytes(rng.randrange(256) for _ in range(rng.choice([3, 17, 300]))))
    return P


def reply_for(rng, first, payload, qtype=None, denc=None):
    qtype = qtype if qtype is not None else rng.choice(L.TYPES)
    denc = denc if denc is not None else rng.choice(L.CODEC_LETTERS)
    return L.data_reply(0, first, qtype, payload, denc=denc)


def gen_handshake_h(rng, tier):
    cases = []
    stats = {}

    def add(step, c):
        stats[step] = stats.get(step, 0) + 1
        cases.append(c)
    reps = 1 if tier == 'quick' else 4
    for step in L.STEPS:
        ch = ord(L.STEP_CHAR.get(step, 'v'))
        args = {'switch_codec': [5, 6, 26, 7], 'downenctest': [ord('S'), ord('R')], 'upenctest': [0, 2, 6], 'qtypetest': [1, 3],
                'set_fragsize': [1200], 'full': [0, 1, 2, 3]}.get(step, [0])
        pls = step_payloads(rng, step if step != 'full' else 'version')
        for _ in range(reps):
            for pl in pls:
                # as a raw NULL carrier (any length up to the 4096-byte rdata) and through a random type/codec
                for qt, de in ((L.T_NULL, ord('R')), (rng.choice(L.TYPES), rng.choice(L.CODEC_LETTERS))):
                    items = []
                    # noise before the fitting reply: wrong id, wrong first character, hostile datagrams
                    for _ in range(rng.choice([0, 0, 1, 3])):
                        k = rng.randrange(5)
                        if k == 0:
                            items.append(('', reply_for(rng, ch, pl[:200], qt, de)))          # id 0: does not match
                        elif k == 1:
                            items.append(('=', reply_for(rng, rng.choice(b'xqP'), pl[:200], qt, de)))
                        elif k == 2:
                            items.append(('@', L.hostile_compression(rng, 0, ch, rng.choice(L.TYPES))))
                        elif k == 3:
                            items.append(('@', L.mutate(rng, reply_for(rng, ch, pl[:300], qt, de))))
                        else:
                            items.append('T')
                    upper = rng.randrange(4) == 0
                    items.append(('@' if not upper else '=', reply_for(rng, ch if not upper else ord(chr(ch).upper()), pl, qt, de), rng.randrange(5)))
                    # a second, different reply for steps that retry
                    items.append(('@', reply_for(rng, ch, rng.choice(pls), qt, de)))
                    a = rng.choice(args)
                    qtype = rng.choice([10, 65399, 16, 33, 15, 5, 1]) if step != 'qtype_auto' else 0
                    denc = rng.choice([32, ord('T'), ord('S'), ord('U'), ord('V'), ord('R')])
                    add(step, L.hs_case(step, qtype=qtype, uid=rng.randrange(16), lazy=rng.randrange(2), downenc=denc,
                                        seed=rng.choice([0, 1, -1, 0x7fffffff, -0x80000000, rng.randrange(1 << 31)]), arg=a, items=items))
    # answers whose record type differs from the question type (dns_decode picks its branch by the question, the client's
    # post-processing by the record): NUL-free data of every length up to the caller's buffer and beyond
    for step in ('qtypetest', 'edns0', 'switch_codec', 'try_lazy', 'login', 'autoprobe', 'version'):
        ch = ord(L.STEP_CHAR[step])
        for qq in (L.T_NULL, L.T_PRIVATE, L.T_TXT):
            for at in (L.T_MX, L.T_SRV, L.T_CNAME, L.T_TXT, L.T_A):
                if at == qq:
                    continue
                for n in ((4096, 4095) if tier == 'quick' else (4096, 4095, 4097, 300, 5000)):
                    body = bytes(rng.randrange(1, 256) for _ in range(n))
                    if rng.randrange(2):
                        body = b'Haaaaaaaa\0' + body[10:]
                    if qq == L.T_TXT:
                        body = L.txt_rdata(b'r' + body[1:n - n // 252 - 1])
                    dg = L.reply(0, ch, qq, [L.rr(at, body)])
                    add('type-confusion', L.hs_case(step, qtype=qq, uid=rng.randrange(16), arg={'switch_codec': 6, 'qtypetest': 1}.get(step, 0),
                                                    items=[('@', dg), ('@', dg)]))
    # a server may assign any user-id byte in its version reply; the later steps run with what the client stored
    for step in ('autoprobe', 'set_fragsize', 'switch_codec', 'switch_downenc', 'try_lazy', 'rawudp', 'login'):
        ch = ord(L.STEP_CHAR[step])
        for uid in (128, 129, 200, 254, 255, 16, 127):
            pl = rng.choice(step_payloads(rng, step))
            add('wide-userid', L.hs_case(step, qtype=rng.choice([10, 16]), uid=uid, arg={'switch_codec': 6, 'set_fragsize': 700}.get(step, 0),
                                         items=[('@', reply_for(rng, ch, pl, L.T_NULL, ord('R'))), 'T', ('@', reply_for(rng, ch, pl, L.T_NULL, ord('R')))]))
    # raw login step of handshake_raw_udp: address reply, then raw frames on the socket
    for _ in range(30 * reps):
        seed = rng.choice([0, 5, 0x7fffffff, -0x80000000, rng.randrange(1 << 31)])
        items = [('@', reply_for(rng, ord('i'), b'I\x7f\x00\x00\x01', L.T_NULL, ord('R')))]
        for _ in range(4):
            k = rng.randrange(4)
            fr = bytes([0x10, 0xd1, 0x9e, rng.choice([0x10, 0x13, 0x20, 0xff])]) + bytes(rng.randrange(256) for _ in range(rng.choice([0, 15, 16, 17, 4092, 5000])))
            items.append(('', fr if k else bytes(rng.randrange(256) for _ in range(rng.randrange(30)))))
        add('rawudp-login', L.hs_case('rawudp', uid=rng.randrange(16), seed=seed, items=items))
    # full handshakes answered by a script of "everything fits" replies with hostile payloads
    for _ in range(60 * reps):
        items = []
        for _ in range(rng.choice([5, 20, 60])):
            pl = rng.choice(step_payloads(rng, rng.choice(list(L.STEP_CHAR))))
            items.append(('@', reply_for(rng, ord('v'), pl), rng.randrange(5)))
        add('full-scripted', L.hs_case('full', qtype=rng.choice([0, 10, 16, 5, 15]), uid=0, lazy=rng.randrange(2),
                                       downenc=rng.choice([32, ord('T'), ord('R')]), arg=rng.randrange(4), items=items))
    return cases, stats


def unmatched_pairs(rng, per_step):
    """(case with unmatched replies before a time-out, same case without them, description)"""
    pairs = []
    for step, chs in L.STEP_CHAR.items():
        ch = ord(chs)
        pls = step_payloads(rng, step)
        args = {'switch_codec': [5, 6, 26, 7], 'downenctest': [ord('S'), ord('R')], 'upenctest': [0, 2, 6], 'qtypetest': [1, 3],
                'set_fragsize': [1200]}.get(step, [0])
        for _ in range(per_step):
            pl = rng.choice(pls)
            qt, de = rng.choice([(L.T_NULL, ord('R')), (rng.choice(L.TYPES), rng.choice(L.CODEC_LETTERS))])
            kind = rng.randrange(3)
            if kind == 0:      # right first character, DNS id 0 (chunkid is never 0)
                noise, what = [('', reply_for(rng, ch, pl, qt, de))], 'the right name but a DNS id that was never sent'
            elif kind == 1:    # right id, wrong first character
                other = rng.choice([c for c in b'vlizysornxq' if c != ch and c != ch ^ 32])
                noise, what = [('=', reply_for(rng, other, pl, qt, de))], 'the DNS id of the query but another command letter'
            else:
                other = rng.choice([c for c in b'vlizysornxq' if c != ch and c != ch ^ 32])
                noise, what = [('', reply_for(rng, ch, pl, qt, de)), ('=', reply_for(rng, other, pl, qt, de))], 'a wrong id / another command letter'
            rest = ['T', ('@', reply_for(rng, ch, rng.choice(pls), qt, de)), 'T', 'T', 'T', 'T', 'T']
            kw = dict(qtype=rng.choice([10, 65399, 16, 33, 15, 5, 1]) if step != 'qtype_auto' else 0, uid=rng.randrange(16), lazy=rng.randrange(2),
                      downenc=rng.choice([32, ord('T'), ord('S'), ord('R')]), seed=rng.randrange(1 << 31), arg=rng.choice(args))
            pairs.append((L.hs_case(step, items=noise + rest, **kw), L.hs_case(step, items=rest, **kw), what))
    return pairs


def stale_tail_pairs(rng):
    """(case: an unfitting longer reply, then a fitting reply that is a proper prefix of one of the literals the step
    compares with; the same case without the unfitting reply; description).  A step that compares beyond the length of the
    reply reads what the earlier datagram left in its buffer."""
    pairs = []
    lits = {'switch_codec': [b'BADLEN', b'BADIP', b'BADCODEC'], 'switch_downenc': [b'BADLEN', b'BADIP', b'BADCODEC'],
            'try_lazy': [b'BADLEN', b'BADIP', b'BADCODEC', b'Lazy'], 'set_fragsize': [b'BADFRAG', b'BADIP'],
            'lazyoff': [b'Immediate'], 'autoprobe': [b'BADIP', b'\x03\x00', b'\x03\x00\x6b']}
    for step, ls in lits.items():
        ch = ord(L.STEP_CHAR[step])
        for lit in ls:
            for k in range(1, len(lit)):
                for qt, de in ((L.T_NULL, ord('R')), (L.T_TXT, ord('R')), (L.T_TXT, ord('T'))):
                    if qt == L.T_NULL and k < 2:
                        continue
                    stale = bytes(rng.choice(b'XYZ') for _ in range(k)) + lit[k:] + bytes(rng.choice([0, 1]))
                    # '' keeps DNS id 0 (never the id of a query); '=' carries the id of the query, so it gets a foreign first character
                    if rng.randrange(2):
                        noise = [('', reply_for(rng, ch, stale, qt, de))]
                    else:
                        noise = [('=', reply_for(rng, rng.choice([c for c in b'xqPw' if c != ch]), stale, qt, de))]
                    rest = [('@', reply_for(rng, ch, lit[:k], qt, de)), 'T', 'T', 'T', 'T', 'T', 'T']
                    kw = dict(qtype=qt, uid=rng.randrange(16), lazy=1, downenc=rng.choice([32, ord('S')]), seed=5,
                              arg={'switch_codec': 6, 'set_fragsize': 1200}.get(step, 0))
                    pairs.append((L.hs_case(step, items=noise + rest, **kw), L.hs_case(step, items=rest, **kw),
                                  '%r (the first %d bytes of %r) after an unfitting reply %r' % (lit[:k], k, lit, stale)))
    return pairs


def model_step_cases(rng, n):
    """scripts aimed at the case splits of coq/Handshake.v: the retry counters (a fitting reply at attempt k, after k-1 time-outs /
    empty / error replies), whole autodetect sequences answered step by step, the probe search answered for a size limit"""
    out = []
    d = L.DOWNCODECCHECK1
    pats = [b'aAbBcCdDeEfFgGhHiIjJkKlLmMnNoOpPqQrRsStTuUvVwWxXyYzZ+0129-', b'aAbBcCdDeEfFgGhHiIjJkKlLmMnNoOpPqQrRsStTuUvVwWxXyYzZ_0129-',
            b'aA-Aaahhh-Drink-mal-ein-J\xe4germeister-', b'aA-La-fl\xfbte-na\xefve-fran\xe7aise-est-retir\xe9-\xe0-Cr\xe8te',
            b'aAbBcCdDeEfFgGhHiIjJkKlLmMnNoOpPqQrRsStTuUvVwWxXyYzZ', b'aA0123456789' + bytes(range(0o274, 0o320)), b'aA' + bytes(range(0o320, 0o376))]

    def nx(ch):       # an error reply that fits: NXDOMAIN, no answer
        return ('@', L.reply(0, ch, L.T_NULL, [], flags=0x8403))

    def filler(ch):
        k = rng.randrange(5)
        return ['T', ('@', L.data_reply(0, ch, L.T_TXT, b'', denc=ord('T'))), ('', L.data_reply(0, ch, L.T_NULL, b'zz')),
                ('=', L.data_reply(0, ord('q'), L.T_NULL, b'zz')), 'T'][k]

    def probe_reply(fs, limit, corrupt=False):
        if fs > limit:
            return 'T'
        body = bytearray(fs)
        body[0], body[1] = fs >> 8, fs & 0xff
        if fs > 2:
            body[2] = 107
        v = rng.randrange(256)
        for i in range(3, fs):
            body[i] = v
            v = (v + 107) & 0xff
        if corrupt and fs > 40:
            body[33] ^= 0x20
        return ('@', L.data_reply(0, ord('r'), L.T_NULL, bytes(body)))

    def honest_full(qt, lazy, autofrag, denc):
        """the replies of a well-behaved server to client_handshake(raw_mode = 0), one per query, with random faults: a reply
        lost (the client retries), refused, or altered.  '=' items carry the right DNS id and their own command letter, so a
        reply that arrives for another step's query does not fit"""
        def rp(ch, payload, t=None):
            return ('=', L.data_reply(0, ord(ch), t or L.T_NULL, payload))
        it = []

        def maybe_lost(x, p=8):
            r = rng.randrange(p * 3)
            if r == 0:
                return ['T', x]
            if r == 1:
                return [('=', L.reply(0, ord('q'), L.T_NULL, [], flags=0x8403)), x]
            if r == 2:
                return ['T', 'T', x]
            return [x]
        if qt == 0:
            for _k in range(rng.choice([1, 1, 2, 4, 9])):
                it += rng.choice([[rp('y', d)], ['T'], [rp('y', d[:20])]])
        it += maybe_lost(rp('v', b'VACK' + bytes(rng.randrange(256) for _ in range(4)) + bytes([rng.randrange(16)])))
        login = rng.choice([b'10.0.0.1-10.0.0.2-1130-27', b'10.0.0.1-10.0.0.2-1130-27', b'172.16.0.1-172.16.0.9-1200-28', b'LNAK', b'BADIP',
                            b'10.0.0.1-10.0.0.2-70000-27', b'10.0.0.1-10.0.0.299-1130-27', b'garbage'])
        it += maybe_lost(rp('l', login))
        it += maybe_lost(rp('y', d if rng.randrange(4) else d[:30]))          # EDNS0 check
        upok = rng.choice([7, 7, 7, 5, 2, 0, 1])      # how many of the upstream patterns come back intact
        for j, k in enumerate([2, 3, 4, 5, 6, 0, 1]):
            body = pats[k] if (j < upok or (j >= 5 and rng.randrange(2))) else pats[k][:-1] + b'!'
            it += maybe_lost(rp('z', b'zabc' + body), 12)
        it += maybe_lost(rp('s', rng.choice([b'Base128', b'Base64', b'Base64u', b'BADCODEC', b'BADLEN'])))
        if denc == 32 and qt not in (10, 65399):
            for _k in range(4):
                it += maybe_lost(rp('y', d if rng.randrange(3) else d[:11]), 12)
        it += maybe_lost(rp('o', rng.choice([b'Base64', b'Base128', b'Raw', b'BADCODEC'])))
        if lazy:
            it += maybe_lost(rp('o', rng.choice([b'Lazy', b'Lazy', b'BADCODEC', b'Immediate'])))
        if autofrag:
            limit = rng.choice([200, 512, 1200, 4000])
            prop, rngw, mx = 768, 768, 0
            while rngw > 0 and (rngw >= 8 or mx < 300):
                x = probe_reply(prop, limit)
                if x == 'T':
                    it += ['T', 'T', 'T']
                    ok = False
                else:
                    it.append(('=', x[1]))
                    ok = True
                    mx = prop
                rngw >>= 1
                prop = prop + rngw if ok else prop - rngw
        it += maybe_lost(rp('n', bytes([4, 0])))
        return it + ['T'] * 6

    for _ in range(n):
        kind = rng.randrange(10)
        qt = rng.choice([10, 65399, 16, 33, 15, 5, 1])
        kw = dict(qtype=qt, uid=rng.randrange(16), lazy=rng.randrange(2), downenc=32, seed=rng.randrange(1 << 31))
        if kind == 0:      # retry counters of the five-attempt steps
            step = rng.choice(['version', 'switch_codec', 'switch_downenc', 'try_lazy', 'lazyoff', 'set_fragsize'])
            ch = ord(L.STEP_CHAR[step])
            good = {'version': b'VACK' + bytes(rng.randrange(256) for _ in range(5)), 'switch_codec': b'Base64', 'switch_downenc': b'Base64',
                    'try_lazy': b'Lazy', 'lazyoff': b'Immediate', 'set_fragsize': b'\x04\xb0'}[step]
            items = [filler(ch) if rng.randrange(3) else nx(ch) for _ in range(rng.randrange(7))] + [('@', L.data_reply(0, ch, L.T_NULL, good))] + ['T'] * 3
            out.append(L.hs_case(step, arg={'switch_codec': rng.choice([5, 6, 26, 7, 8]), 'set_fragsize': 1200}.get(step, 0), items=items, **kw))
        elif kind == 1:    # three-attempt tests
            step = rng.choice(['edns0', 'downenctest', 'upenctest', 'qtypetest'])
            ch = ord(L.STEP_CHAR[step])
            a = rng.randrange(7) if step == 'upenctest' else (rng.choice([1, 2, 3]) if step == 'qtypetest' else ord('S'))
            good = (b'zabc' + (pats[[0, 1, 2, 3, 4, 5][a]] if a < 6 else b'aA')) if step == 'upenctest' else d
            if rng.randrange(4) == 0:
                good = good[:-1] + bytes([good[-1] ^ 1])
            items = [filler(ch) if rng.randrange(3) else nx(ch) for _ in range(rng.randrange(5))] + [('@', L.data_reply(0, ch, L.T_NULL, good))] + ['T'] * 3
            out.append(L.hs_case(step, arg=a, items=items, **kw))
        elif kind == 2:    # upstream autodetect answered pattern by pattern; some patterns fail / swap case / are lost
            order = [2, 3, 4, 5, 6, 0, 1]
            items = []
            for k in order:
                r = rng.randrange(10)
                if r < 6:
                    items.append(('@', L.data_reply(0, ord('z'), L.T_NULL, b'zabc' + pats[k])))
                elif r == 6:
                    items.append(('@', L.data_reply(0, ord('z'), L.T_NULL, b'zabc' + pats[k].lower())))
                elif r == 7:
                    items.append(('@', L.data_reply(0, ord('z'), L.T_NULL, b'zabc' + pats[k][:-2] + b'xx')))
                elif r == 8:
                    items += ['T', 'T', 'T']
                else:
                    items.append(nx(ord('z')))
            out.append(L.hs_case('upenc_auto', items=items, **kw))
        elif kind == 3:    # downstream autodetect
            items = []
            for _k in range(4):
                r = rng.randrange(6)
                items += [[('@', L.data_reply(0, ord('y'), L.T_NULL, d))], [('@', L.data_reply(0, ord('y'), L.T_NULL, d))],
                          [('@', L.data_reply(0, ord('y'), L.T_NULL, d[:40]))], ['T', 'T', 'T'], [nx(ord('y'))], ['T', ('@', L.data_reply(0, ord('y'), L.T_NULL, d))]][r]
            out.append(L.hs_case('downenc_auto', items=items, **kw))
        elif kind == 4:    # query type autodetect: which (type, round) answers
            items = []
            works = {(t, r) for t in range(7) for r in range(3) if rng.randrange(4) == 0}
            for _k in range(21):
                items.append(rng.choice([('@', L.data_reply(0, ord('y'), L.T_NULL, d)), 'T', 'T', nx(ord('y')), ('@', L.data_reply(0, ord('y'), L.T_NULL, d[:30]))]))
            out.append(L.hs_case('qtype_auto', items=items, **dict(kw, qtype=0)))
        elif kind >= 8:    # the whole DNS-mode handshake answered by a well-behaved server, with faults
            q2 = rng.choice([0, 10, 16, 5, 15, 33])
            lz, af, de = rng.randrange(2), rng.randrange(2), rng.choice([32, 32, ord('T'), ord('S')])
            out.append(L.hs_case('full', qtype=q2, uid=0, lazy=lz, downenc=de, seed=rng.randrange(1 << 31), arg=2 * af,
                                 items=honest_full(q2, lz, af, de)))
        elif kind == 7 and rng.randrange(2):   # the raw-UDP attempt: address reply, then what arrives after each raw login
            import hashlib
            seed = rng.choice([0, 1, 5, 0x7fffffff, -0x80000000, -1, rng.randrange(1 << 31)])
            uid = rng.randrange(16)
            blk = bytearray((b'sesame' + bytes(32))[:32])
            sm = (seed - 1) & 0xffffffff
            for i in range(32):
                blk[i] ^= (sm >> (8 * (3 - i % 4))) & 255
            good = bytes([0x10, 0xd1, 0x9e, 0x10 | uid]) + hashlib.md5(bytes(blk)).digest() + bytes(rng.randrange(256) for _ in range(rng.choice([0, 0, 3])))
            junk = [('', bytes(rng.randrange(256) for _ in range(rng.choice([0, 3, 19, 20, 40])))), ('', good[:19]), ('', good[:4] + bytes(16)),
                    ('', b'\x10\xd1\x9e\x20' + good[4:]), 'T', ('', L.data_reply(0, ord('i'), L.T_NULL, b'I\x7f\x00\x00\x01'))]
            addr = rng.choice([b'I\x7f\x00\x00\x01', b'I' + bytes(16), b'I\x7f\x00\x00', b'J\x7f\x00\x00\x01', b'I\x7f\x00\x00\x01'])
            pre = [filler(ord('i')) for _ in range(rng.randrange(3))]
            mid = [rng.choice(junk) for _ in range(rng.choice([0, 0, 1, 3, 4, 5]))]
            items = pre + [('@', L.data_reply(0, ord('i'), L.T_NULL, addr))] + mid + [('', good)] + ['T'] * 5
            if rng.randrange(3):
                out.append(L.hs_case('rawudp', qtype=10, uid=uid, lazy=1, downenc=32, seed=seed, items=items))
            else:
                # the whole handshake with the raw attempt: version reply carrying this seed and user id, a login that succeeds
                sb = (seed & 0xffffffff).to_bytes(4, 'big')
                full = [('=', L.data_reply(0, ord('v'), L.T_NULL, b'VACK' + sb + bytes([uid]))),
                        ('=', L.data_reply(0, ord('l'), L.T_NULL, b'10.0.0.1-10.0.0.2-1130-27'))] + items
                out.append(L.hs_case('full', qtype=10, uid=0, lazy=rng.randrange(2), downenc=32, seed=0, arg=1 + 2 * rng.randrange(2), items=full + honest_full(10, 1, 0, 32)[2:]))
        elif kind == 7:    # login replies
            good = rng.choice([b'10.0.0.1-10.0.0.2-1130-27', b'192.168.99.1-192.168.99.7-200-30', b'10.0.0.1-10.0.0.2-1501-27', b'LNAK', b'BADIP',
                               b'10.0.0.1-10.0.0.2-1130-33', b'10.0.0.1-10.0.0.2-1130', b'1.2.3.4-5.6.7.8-1500-8\0trailing', b'a-b-1-2'])
            items = [filler(ord('l')) if rng.randrange(3) else nx(ord('l')) for _ in range(rng.randrange(6))] + [('@', L.data_reply(0, ord('l'), L.T_NULL, good))] + ['T'] * 3
            out.append(L.hs_case('login', items=items, **kw))
        else:              # fragment size search under a size limit / with corruption / with wrong acks
            limit = rng.choice([100, 200, 300, 512, 700, 1200, 1500, 4000, 2, 3, 50])
            prop, rngw, mx = 768, 768, 0
            items = []
            corrupt_at = rng.choice([None, None, None, 1, 3])
            step_no = 0
            while rngw > 0 and (rngw >= 8 or mx < 300) and step_no < 16:
                step_no += 1
                r = rng.randrange(10)
                pre = []
                if r == 0:
                    pre = ['T']
                elif r == 1:
                    pre = [('@', L.data_reply(0, ord('r'), L.T_NULL, b'BADIP'))]
                elif r == 2:
                    pre = [probe_reply(max(3, prop - 1), 5000)]      # an ack for another size
                it = probe_reply(prop, limit, corrupt=(corrupt_at == step_no))
                items += pre
                if it == 'T':
                    items += ['T'] * (3 - len(pre))
                    ok = False
                else:
                    items.append(it)
                    ok = True
                    if corrupt_at == step_no and prop > 40:
                        break
                if ok:
                    mx = prop
                rngw >>= 1
                prop = prop + rngw if ok else prop - rngw
            out.append(L.hs_case('autoprobe', items=items + ['T'] * 4, **kw))
    return out


def login_pairs(rng):
    """(c): an unterminated login reply R alone, and R after a longer reply that is not a login
    reply: a client that parses only the bytes of R sets the same tunnel parameters both times"""
    out = []
    for r in (b'10.0.0.1-10.0.0.2-1130-2', b'10.0.0.1-10.0.0.2-113-27', b'10.0.0.1-10.0.0.2-1-1'):
        prime = bytes(rng.choice(b'WXYZ') for _ in range(len(r))) + b'7' + bytes(8)
        a = L.hs_case('login', items=[('@', L.data_reply(0, ord('l'), L.T_NULL, r))])
        b = L.hs_case('login', items=[('@', L.data_reply(0, ord('l'), L.T_NULL, prime)), ('@', L.data_reply(0, ord('l'), L.T_NULL, r))])
        out.append((a, b))
    return out


def gen_namedec(rng, n):
    """N outlen hex: dns_namedec contract (writes at most outdatalen bytes)"""
    cases = []
    for _ in range(n):
        letter = rng.choice(b'hijktsuvrHIJKTSUVRx')
        body = bytes(rng.choice(b'abcdefghijklmnopqrstuvwxyz012345ABCDEF-+_.\xbc\xfd\x80\x00') for _ in range(rng.choice([0, 1, 3, 4, 5, 8, 60, 255, 300, 4095])))
        outlen = rng.choice([1, 2, 3, 7, 8, 16, 100, 4096, 65536])
        cases.append('N %d %s' % (outlen, (bytes([letter]) + body).hex()))
    return cases


class Findings:
    def __init__(self):
        self.items = {}
        self.order = []
        self.diff_cases = []
        self.counts = {}

    def add(self, key, what, replay):
        self.counts[key] = self.counts.get(key, 0) + 1
        if key not in self.items:
            self.items[key] = (what, replay)
            self.order.append(key)


def run_hf(rep, ctx, findings, cases, tag, stream):
    """H / N cases on the plain build (crash / hang / BAIL 999) and on the ASan + recovering-UBSan build"""
    out_plain = None
    if 'hf' in ctx.exe:
        res, events = run_stream_merged(ctx.exe['hf'], cases, ctx.work, tag + '-plain', H_RE)
        out_plain = res
        for ev in events:
            if ev['crash']:
                findings.add('crash:hsfuzz:%s' % ('hang' if 'hang' in ev['crash'] else 'plain'),
                             '%s stream: plain build %s' % (stream, ev['crash']),
                             dict(kind='input', driver='hf', case=cases[ev['index']][:300000] if ev['index'] < len(cases) else None,
                                  observed=ev.get('tail', '')[-1500:], stream=stream))
        for c, r in zip(cases, res):
            if r and r.startswith('BAIL 999'):
                findings.add('hang:handshake-step', '%s stream: the client keeps waiting (more than 400 time-outs)' % stream,
                             dict(kind='input', driver='hf', case=c[:300000], observed=r, stream=stream))
    if 'hf' in ctx.san:
        res, events = run_stream_merged(ctx.san['hf'], cases, ctx.work, tag + '-san', H_RE)
        for ev in events:
            idx = ev['index']
            c = cases[idx] if idx < len(cases) else None
            for r in ev['reports']:
                findings.add(r['key'], '%s stream: %s at %s in %s' % (stream, r['msg'], r['loc'], r['func']),
                             dict(kind='input', driver='hf.rec', case=c[:300000] if c else None, stream=stream,
                                  observed='%s: runtime error / ASan: %s (%s)' % (r['loc'], r['msg'], r['func'])))
            if ev['crash'] and not (ev['reports'] and 'ERROR: AddressSanitizer' in ev.get('tail', '')):
                findings.add('crash:hsfuzz:%s' % ('hang' if 'hang' in ev['crash'] else 'san'), '%s stream: sanitizer build %s' % (stream, ev['crash']),
                             dict(kind='input', driver='hf.rec', case=c[:300000] if c else None, observed=ev.get('tail', '')[-1500:], stream=stream))
    return out_plain


def shrink_h(case, key, ctx, budget=10):
    """drop script items while the same report key persists"""
    if not case or not case.startswith('H ') or 'hf' not in ctx.san:
        return case
    head, *items = case.split(' ; ')

    def fails(cc):
        r, so, se = run_one(ctx.san['hf'], cc, ctx.work, 'shr-h')
        return any(x['key'] == key for x in parse_reports(se + so))
    i = 0
    while i < len(items) and budget > 0 and len(items) > 1:
        cand = items[:i] + items[i + 1:]
        budget -= 1
        if fails(' ; '.join([head] + cand)):
            items = cand
        else:
            i += 1
    return ' ; '.join([head] + items)


def stream_handshake(rep, ctx, findings):
    rng = vlib.rng_for(rep.seed, 'c06-hs')
    # (1) scripted single steps
    hcases, hstats = gen_handshake_h(rng, rep.tier)
    ncases = gen_namedec(rng, 300 if rep.tier == 'quick' else 3000)
    rep.cov['handshake_step_cases'] = len(hcases)
    rep.cov['handshake_step_distribution'] = hstats
    rep.cov['namedec_contract_cases'] = len(ncases)
    run_hf(rep, ctx, findings, hcases, 'hsf', 'handshake-step')
    # N cases print no marker: separate stdout
    for exe, nm in ((ctx.exe.get('hf'), 'plain'), (ctx.san.get('hf'), 'san')):
        if not exe:
            continue
        rc, nl, err = run_std(exe, ncases, ctx.work, 'nd-' + nm, env=SAN_ENV)
        bad = next((i for i, l in enumerate(nl) if l == '<NO-OUTPUT>' or 'GUARD-VIOLATED' in l), None)
        if bad is not None:
            reps = parse_reports(err)
            findings.add(reps[0]['key'] if reps else 'dns_namedec:writes-past-outdatalen',
                         'dns_namedec wrote more than outdatalen bytes' + (': %s at %s' % (reps[0]['msg'], reps[0]['loc']) if reps else ''),
                         dict(kind='input', driver='hf' if nm == 'plain' else 'hf.rec', case=ncases[bad], observed=(nl[bad] + ' ' + err[-1500:]), stream='namedec'))
    # (1b) replies that do not match the query just sent (wrong DNS id, or wrong first name character) must be
    #      ignored by every handshake step: the outcome equals the outcome of the run without them
    if 'hf' in ctx.exe:
        upairs = unmatched_pairs(rng, 6 if rep.tier == 'quick' else 40)
        flat = [c for pr in upairs for c in pr[:2]]
        res, _ev = run_stream_merged(ctx.exe['hf'], flat, ctx.work, 'hsu-plain', H_RE)
        nun = 0
        for k, (a, b, what) in enumerate(upairs):
            ra, rb = res[2 * k], res[2 * k + 1]
            nun += 1
            if ra is None or rb is None or ra.startswith('BAIL') or rb.startswith('BAIL'):
                continue
            # 'left' counts unused script items and differs by construction
            if re.sub(r' left=\d+', '', ra) != re.sub(r' left=\d+', '', rb):
                findings.add('handshake:unmatched-reply-accepted',
                             'a reply with %s changed the outcome of the handshake step (it must be ignored): with it %r, without it %r' % (what, ra[:160], rb[:160]),
                             dict(kind='input', driver='hf', case=a, baseline_case=b, observed=ra[:300], expected=rb[:300], stream='handshake-step'))
                break
        rep.cov['handshake_unmatched_reply_pairs'] = nun
    # (1c) a fitting reply shorter than the literal a step compares it with, after an unfitting longer reply whose tail
    #      completes the literal: the earlier datagram must not take part in the comparison
    if 'hf' in ctx.exe:
        spairs = stale_tail_pairs(rng)
        flat = [c for pr in spairs for c in pr[:2]]
        res, _ev = run_stream_merged(ctx.exe['hf'], flat, ctx.work, 'hst-plain', H_RE)
        for k, (a, b, what) in enumerate(spairs):
            ra, rb = res[2 * k], res[2 * k + 1]
            if ra is None or rb is None or ra.startswith('BAIL') or rb.startswith('BAIL'):
                continue
            if re.sub(r' left=\d+', '', ra) != re.sub(r' left=\d+', '', rb):
                findings.add('handshake:short-reply-compared-with-stale-tail',
                             'the handshake step interprets the reply %s differently from the same reply alone (bytes of the earlier datagram '
                             'take part in the comparison): after it %r, alone %r' % (what, ra[:160], rb[:160]),
                             dict(kind='input', driver='hf', case=a, baseline_case=b, observed=ra[:300], expected=rb[:300], stream='handshake-step'))
                break
        rep.cov['handshake_stale_tail_pairs'] = len(spairs)
    # (1d) the sequencing model (coq/Handshake.v, extracted): every scripted step the model covers must end in the same state,
    #      with the same return value, number of queries sent and number of script items left
    if 'hf' in ctx.exe and getattr(ctx, 'model_hs', None):
        mc = list(hcases)
        for prs in (locals().get('upairs') or [], locals().get('spairs') or []):
            mc += [c for pr in prs for c in pr[:2]]
        aimed = model_step_cases(rng, 40 if rep.tier == 'quick' else 400)
        rep.cov['handshake_model_aimed_cases'] = len(aimed)
        mc += aimed
        rc, il, err = run_std(ctx.exe['hf'], mc, ctx.work, 'hsm-impl')
        rc2, ml, err2 = run_std(ctx.model_hs, mc, ctx.work, 'hsm-model', timeout=900)
        ncmp = 0
        per = {}
        for c, a, b in zip(mc, il, ml):
            if a.startswith('BAIL 999'):
                # more than 400 time-outs inside one step: C06_handshake_step_bounded allows at most 141 queries for the whole handshake
                findings.add('hang:handshake-step', 'the handshake step does not end: more than 400 select() time-outs after the script '
                             '(every step sends a bounded number of queries whatever the replies are)',
                             dict(kind='input', driver='hf', case=c, observed=a, expected=b, stream='handshake-step'))
                continue
            if b == 'SKIP' or a == '<NO-OUTPUT>':
                continue
            ncmp += 1
            st = c.split()[1]
            per[st] = per.get(st, 0) + 1
            if a != b:
                ctx.broken.append(('correspondence:handshake-step', 'handshake sequencing model and implementation disagree on %r: impl=%r model=%r' % (
                    c[:300], a[:200], b[:200])))
                findings.diff_cases.append(('hf', c))
                break
        rep.cov['handshake_model_agreement'] = ncmp
        rep.cov['handshake_model_steps'] = per
    # (2) stale bytes of an earlier reply parsed as part of the login reply
    if 'hf' in ctx.exe:
        for a, b in login_pairs(rng):
            ra = run_one(ctx.exe['hf'], a, ctx.work, 'lp-a')[1].strip()
            rb = run_one(ctx.exe['hf'], b, ctx.work, 'lp-b')[1].strip()
            sa = re.search(r'sys=\[(.*)\]', ra)
            sb = re.search(r'sys=\[(.*)\]', rb)
            if sa and sb and sa.group(1) != sb.group(1):
                findings.add('handshake_login:sscanf-unterminated-reply',
                             'the same login reply configures the tunnel differently after a longer earlier reply (sscanf reads the stale tail of in[]): alone %r, after it %r' % (
                                 sa.group(1)[-60:], sb.group(1)[-60:]),
                             dict(kind='input', driver='hf', case=b, baseline_case=a, observed=rb[-300:], expected=ra[-300:], stream='handshake-step'))
                break
        rep.cov['login_reply_pairs'] = 3
        # (3) the netmask loop of tun_setip runs netbits times
        t0 = time.time()
        c = L.hs_case('login', items=[('@', L.data_reply(0, ord('l'), L.T_NULL, b'10.0.0.1-10.0.0.2-1130-2147483647\0'))])
        r, so, se = run_one(ctx.exe['hf'], c, ctx.work, 'spin', timeout=60)
        dt = time.time() - t0
        rep.cov['tun_setip_netbits_2147483647_wall_s'] = round(dt, 2)
        if dt > 0.75 or r == 124:
            findings.add('tun_setip:netbits-loop', 'login reply with netmask field 2147483647: tun_setip loops 2^31 times (%.1f s of CPU in the plain -O0 build)' % dt,
                         dict(kind='input', driver='hf', case=c, observed='wall %.2fs: %s' % (dt, so.strip()[-200:]), stream='handshake-step'))
    # (3) the whole handshake against the real server through the fuzzing relay
    gcases, gstats = gen_handshake_g(rng, 220 if rep.tier == 'quick' else 3000)
    rep.cov['handshake_relay_cases'] = len(gcases)
    rep.cov['handshake_relay_distribution'] = gstats
    outcomes = {}
    if 'hs' in ctx.san:
        res, events = run_stream_merged(ctx.san['hs'], gcases, ctx.work, 'hsg-san', G_RE, timeout=400)
        for r in res:
            k = 'crash' if r is None else ('BAIL ' + r.split(' ')[1][:1] + 'xx' if r.startswith('BAIL') else 'rv=' + r.split(' ')[0])
            outcomes[k] = outcomes.get(k, 0) + 1
        for ev in events:
            idx = ev['index']
            c = gcases[idx] if idx < len(gcases) else None
            for r in ev['reports']:
                findings.add(r['key'], 'handshake through the fuzzing relay: %s at %s in %s' % (r['msg'], r['loc'], r['func']),
                             dict(kind='input', driver='hs.rec', case=c, stream='handshake-relay', observed='%s: %s (%s)' % (r['loc'], r['msg'], r['func'])))
            if ev['crash'] and not (ev['reports'] and 'ERROR: AddressSanitizer' in ev.get('tail', '')):
                findings.add('crash:handshake:%s' % ('hang' if 'hang' in ev['crash'] else 'san'), 'handshake through the fuzzing relay: %s' % ev['crash'],
                             dict(kind='input', driver='hs.rec', case=c, observed=ev.get('tail', '')[-1500:], stream='handshake-relay'))
        for c, r in zip(gcases, res):
            if r and r.startswith('BAIL 999'):
                findings.add('hang:handshake', 'handshake never ends (more than 3000 time-outs)', dict(kind='input', driver='hs.rec', case=c, observed=r, stream='handshake-relay'))
                break
    elif 'hs' in ctx.exe:
        res, events = run_stream_merged(ctx.exe['hs'], gcases, ctx.work, 'hsg-plain', G_RE, timeout=400)
        for ev in events:
            if ev['crash']:
                findings.add('crash:handshake:plain', 'handshake through the fuzzing relay: %s' % ev['crash'],
                             dict(kind='input', driver='hs', case=gcases[ev['index']], observed=ev.get('tail', '')[-1500:], stream='handshake-relay'))
    rep.cov['handshake_relay_outcomes'] = outcomes
    return hcases, gcases


# ------------------------------------------------------------------------------------------

def corpus_cases():
    out = []
    cp = os.path.join(vlib.VERIF, 'corpus', 'C06')
    if os.path.isdir(cp):
        for fn in sorted(os.listdir(cp)):
            for l in open(os.path.join(cp, fn)):
                l = l.strip()
                if l and not l.startswith('#'):
                    out.append(l)
    return out


def run_corpus(rep, ctx, findings):
    cs = corpus_cases()
    rep.cov['corpus_cases'] = len(cs)
    a = [c for c in cs if c.startswith('A ')]
    h = [c for c in cs if c.startswith(('H ', 'N '))]
    if a and 'wire' in ctx.san:
        for c in a:
            r, so, se = run_one(ctx.san['wire'], c, ctx.work, 'corp-a')
            for x in parse_reports(se):
                findings.add(x['key'], 'corpus: %s at %s (%s)' % (x['msg'], x['loc'], x['func']),
                             dict(kind='input', driver='wire.san', case=c[:200000], observed=se[-2500:], stream='corpus'))
            if r == 0 and 'wire' in ctx.exe and ctx.model:
                ri, si, _ = run_one(ctx.exe['wire'], c, ctx.work, 'corp-ai')
                rm, sm, _ = run_one(ctx.model, c, ctx.work, 'corp-am')
                if si.strip() != sm.strip():
                    ctx.broken.append(('correspondence:decoder', 'corpus case %r: impl=%r model=%r' % (c[:200], si.strip()[-200:], sm.strip()[-200:])))
    if h:
        run_hf(rep, ctx, findings, [c for c in h if c.startswith('H ')], 'corp-h', 'corpus')


def check(rep):
    t0 = time.time()
    ctx = vlib.prepare(rep, harnesses={}, sanitize=False, model='WIRE')
    build_all(ctx)
    ok, model_cli, lg = vlib.build_model_driver('CLI')
    if not ok:
        ctx.broken.append(('extraction:CLI', 'client model extraction / driver build failed: ' + lg[-300:]))
        model_cli = None
    ok, ctx.model_hs, lg = vlib.build_model_driver('HS')
    if not ok:
        ctx.broken.append(('extraction:HS', 'handshake model extraction / driver build failed: ' + lg[-300:]))
        ctx.model_hs = None
    rep.cov['setup_wall_s'] = round(time.time() - t0, 1)
    rep.cov['rule'] = ('corpus first; three streams (decoder A-cases, tunnel histories + matched hostile replies, handshake: single steps with '
                       'scripted replies + whole handshakes through a fuzzing relay against the real server); implementation first '
                       '(plain build: guard bytes / lengths / crash / hang), then ASan+UBSan builds (any report is a finding, keyed by '
                       'function and class), then the extracted model (WIRE for A-cases, CLI for histories) must agree line by line. '
                       'distinct = distinct case lines; non-trivial = every case carries at least one datagram')
    findings = Findings()
    run_corpus(rep, ctx, findings)
    t1 = time.time()
    dcases = stream_decoder(rep, ctx, findings)
    rep.cov['decoder_wall_s'] = round(time.time() - t1, 1)
    t1 = time.time()
    tcases = stream_tunnel(rep, ctx, findings, model_cli)
    rep.cov['tunnel_wall_s'] = round(time.time() - t1, 1)
    t1 = time.time()
    hcases, gcases = stream_handshake(rep, ctx, findings)
    rep.cov['handshake_wall_s'] = round(time.time() - t1, 1)
    allc = dcases + tcases + hcases + gcases
    rep.cov['evaluations'] = (len(allc) + rep.cov.get('tunnel_matched_cases', 0) + rep.cov.get('namedec_contract_cases', 0) +
                              2 * rep.cov.get('handshake_unmatched_reply_pairs', 0) + 2 * rep.cov.get('handshake_stale_tail_pairs', 0) +
                              rep.cov.get('handshake_model_aimed_cases', 0))
    rep.cov['distinct_nontrivial'] = len(set(allc))
    rep.cov['samples'] = [c[:300] for c in (dcases[:2] + dcases[len(dcases) // 2:len(dcases) // 2 + 2] + tcases[:1] + hcases[:2] + gcases[:2])]
    rep.cov['traces_validated_against_impl'] = (rep.cov.get('decoder_model_agreement', 0) + rep.cov.get('tunnel_model_agreement', 0) +
                                                rep.cov.get('handshake_model_agreement', 0))
    rep.cov['finding_counts'] = findings.counts
    rep.cov['trusted_base'] = rep.cov.get('trusted_base', []) + [
        'gcc 12 -O1 -fsanitize=address,undefined (ASan halts; UBSan recovers in the handshake builds so that all reports are collected)',
        'zlib contract: compress2 with *destLen = 64K reports at most 64K (hypothesis of C06_state_bounds)',
        'handshake functions of client.c: the retry / time-out sequencing of the steps built on handshake_waitdns is modelled (coq/Handshake.v) and '
        'compared on scripted replies (all steps, handshake_login, handshake_raw_udp, client_handshake); their buffer handling is observed by sanitizers only']
    for key in findings.order:
        what, replay = findings.items[key]
        if replay.get('driver', '').startswith('hf') and key.startswith(('ubsan:', 'asan:')) and replay.get('case'):
            replay = dict(replay, case=shrink_h(replay['case'], key, ctx))
        replay.setdefault('kind', 'input')
        replay['occurrences'] = findings.counts.get(key, 1)
        rep.add_violation(key, what, replay)
    # a broken proof / correspondence is reported unless a concrete finding of the same stream explains it
    # (findings of the handshake streams, which have no model, explain nothing about the decoder / tunnel diff)
    explained = {findings.items[k][1].get('stream') for k in findings.order
                 if not any(f.get('property') == rep.id and f.get('status') == 'known' and f.get('key') == k
                            for f in vlib.known_findings().get('findings', []))}
    for key, text in ctx.broken:
        stream = key.split(':')[1] if key.startswith('correspondence:') else None
        if stream is not None and stream in explained:
            rep.notes.append('%s: %s' % (key, text[:400]))
            continue
        rep.add_violation(key, text, dict(kind='proof' if key == 'proof' else 'correspondence', broken=text), concrete=False)
    return rep


def replay(rp):
    rep = vlib.Report('C06', 'quick', rp.get('seed', 1))
    ctx = vlib.prepare(rep, harnesses={}, sanitize=False, prove_it=False, model='WIRE')
    drv = rp.get('driver') or ''
    name = drv.split('.')[0]
    case = rp.get('case')
    if not case or name not in SPECS:
        print('replay names a broken obligation, not an input:', rp.get('broken') or rp.get('what'))
        return 1
    build_all(ctx, which=(name,))
    bad = 0
    print('key  :', rp.get('key'))
    print('case :', case[:400] + (' ...' if len(case) > 400 else ''))
    for label, exe in (('impl', ctx.exe.get(name)), ('sanitizer', ctx.san.get(name))):
        if not exe:
            continue
        r, so, se = run_one(exe, case, ctx.work, 'replay')
        reps = parse_reports(se)
        print('%-9s: rc=%d %s' % (label, r, so.strip()[-300:]))
        for x in reps:
            print('           %s: %s (%s) [%s]' % (x['loc'], x['msg'], x['func'], x['key']))
            bad = 1
        if r != 0 or 'GUARD-VIOLATED' in so:
            bad = 1
    if rp.get('baseline_case') and ctx.exe.get(name):
        r, so, se = run_one(ctx.exe[name], rp['baseline_case'], ctx.work, 'replay-b')
        r2, so2, se2 = run_one(ctx.exe[name], case, ctx.work, 'replay-c')
        sa, sb = re.search(r'sys=\[(.*)\]', so), re.search(r'sys=\[(.*)\]', so2)
        print('baseline : %s' % (sa.group(1) if sa else so.strip()[-200:]))
        print('primed   : %s' % (sb.group(1) if sb else so2.strip()[-200:]))
        if sa and sb and sa.group(1) != sb.group(1):
            bad = 1
    if name in ('wire', 'cli'):
        ok, m, lg = (True, ctx.model, '') if name == 'wire' else vlib.build_model_driver('CLI')
        if ok and m:
            r, so, se = run_one(m, case, ctx.work, 'replay-m')
            print('model    : %s' % so.strip()[-300:])
    print('verdict  :', 'violation reproduced' if bad else 'ok')
    return 1 if bad else 0
