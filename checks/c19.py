"""C19 -- login response follows the documented challenge-response for all inputs.
Proof: coq/Properties_C19.v (Md5.v, Login.v, LoginProofs.v, LoginGlue.v, LoginGlueProofs.v).
Correspondence: the real login_calculate / md5_* (src/login.c, src/md5.c), the real
send_raw_udp_login / handshake_raw_udp (src/client.c) and handle_raw_login (src/iodined.c)
against the extracted model, on the same generated cases.
Glue between the version reply and the login: the real handshake_version on scripted version
replies followed by the real handshake_login / send_raw_udp_login (HV), the whole real
client_handshake in raw mode (HF), the real 'V' branch of handle_null_request with a scripted
rand() followed by the real login handler (SV), and the logins the real client sent fed to the
real server (end to end) -- all against the model and against the independent formula.
Implementation oracle (independent of the model): hashlib.md5 over the documented formula
  MD5( first 32 bytes of the zero-padded password  xor  8 x big-endian 32-bit challenge ),
raw login = the same with challenge+1 (client -> server) and challenge-1 (server -> client),
both modulo 2^32."""
import re
import os, hashlib
import vlib
import mainlib
from vlib import hexs

M32 = 1 << 32
BOUNDARY_SEEDS = [0, 1, 2, 15, 0x7ffffffe, 0x7fffffff, 0x80000000, 0x80000001, 0xfffffffe, 0xffffffff,
                  0x01020304, 0xff000000, 0x00ff0000, 0x0000ff00, 0x000000ff, 0x80808080, 0x00000100]
# C int overflow (undefined behaviour, wraps with gcc): seed+1 at INT_MAX, seed-1 at INT_MIN.
UB_UP = 0x7fffffff
UB_DOWN = 0x80000000

vlib.HARNESSES['c19'] = dict(harness=['hmain.c', 'h_c19.c'], repo=vlib.PURE_SRCS, wraps=['time', 'md5_append'])
vlib.HARNESSES['c19cli'] = dict(harness=['hmain.c', 'h_c19cli.c'], repo=vlib.PURE_SRCS,
                                wraps=['time', 'sendto', 'select', 'recvfrom', 'recv', 'system'])
vlib.HARNESSES['c19srv'] = dict(harness=['hmain.c', 'h_c19srv.c'], repo=vlib.PURE_SRCS, wraps=['time', 'sendto', 'rand'])
HARNESS_OF = {'L': 'c19', 'M': 'c19', 'M2': 'c19', 'CU': 'c19cli', 'CR': 'c19cli', 'SR': 'c19srv',
              'HV': 'c19cli', 'HF': 'c19cli', 'SV': 'c19srv', 'SN': 'c19srv'}
KEY_OF = {'L': 'login_calculate', 'M': 'md5', 'M2': 'md5', 'CU': 'raw:client.c:send_raw_udp_login',
          'CR': 'raw:client.c:handshake_raw_udp', 'SR': 'raw:iodined.c:handle_raw_login',
          'HV': 'glue:client.c:handshake_version', 'HF': 'glue:client.c:client_handshake',
          'SV': 'glue:iodined.c:version_reply', 'SN': 'glue:iodined.c:version_nak'}
# challenges for the version-reply glue: the sign bit of every byte and of the whole word
PROTO = 0x00000502      # doc/proto_00000502.txt
GLUE_CHALLENGES = ([0x00000080, 0x000000ff, 0x7fffffff, 0x80000000, 0xffffffff, 0, 1, 0x7f, 0x100, 0x7f7f7f7f, 0x80808080,
                    0x01020304, 0xfffffffe, 0x7ffffffe, 0x80000001, 0xffffff80, 0xffffff7f] +
                   [b << (8 * k) for k in range(4) for b in (0x80, 0x7f, 0xff, 0x81)] +
                   [sum((0x80 if (m >> k) & 1 else 0x7f) << (8 * k) for k in range(4)) for m in range(16)])


# ---- the documented formula, from doc/proto_00000502.txt (never from the model) -------------
def doc_block(pw, seed):
    p32 = (bytes(pw) + bytes(32))[:32]
    chal = (seed % M32).to_bytes(4, 'big') * 8
    return bytes(a ^ b for a, b in zip(p32, chal))


def doc_login(pw, seed):
    return hashlib.md5(doc_block(pw, seed)).digest()


def unh(h):
    return b'' if h == '-' else bytes.fromhex(h)


# ---- case generation ----------------------------------------------------------------------
def gen_password(rng, n=None):
    if n is None:
        m = rng.randrange(8)
        if m == 0:
            n = rng.choice([0, 1, 3, 4, 5, 30, 31, 32, 33, 34, 39, 40])
        else:
            n = rng.randrange(0, 41)
    f = rng.randrange(8)
    if f == 0:
        return bytes([0xff]) * n
    if f == 1:
        return bytes(n)
    if f == 2:      # printable, as typed on a command line
        return bytes(rng.choice(b'abcdefghijklmnopqrstuvwxyzABCDEFGHIJKLMNOPQRSTUVWXYZ0123456789 !#%&/()=-_') for _ in range(n))
    if f == 3:      # only bytes >= 0x80 (negative as signed char)
        return bytes(rng.randrange(0x80, 0x100) for _ in range(n))
    if f == 4:      # NUL bytes inside
        b = bytearray(rng.randrange(256) for _ in range(n))
        for _ in range(rng.randrange(1, 4)):
            if n:
                b[rng.randrange(n)] = 0
        return bytes(b)
    return bytes(rng.randrange(256) for _ in range(n))


def gen_seed(rng):
    m = rng.randrange(6)
    if m == 0:
        return rng.choice(BOUNDARY_SEEDS)
    if m == 1:
        return 1 << rng.randrange(32)
    if m == 2:
        return (rng.choice([0, 0x7fffffff, 0x80000000, 0xffffffff]) + rng.randrange(-3, 4)) % M32
    return rng.randrange(M32)


def flip(h, rng):
    b = bytearray(h)
    if b:
        i = rng.randrange(len(b))
        b[i] ^= 1 << rng.randrange(8)
    return bytes(b)


def gen_cases(seed, tier):
    rng = vlib.rng_for(seed, 'c19')
    mult = 10 if tier == 'quick' else 200
    cases = []
    stats = dict(corpus=0, login_boundary_grid=0, login_random=0, login_byte_flips=0, login_short_buflen=0,
                 md5_all_lengths=0, md5_random=0, md5_split=0, raw_client_up=0, raw_server=0, raw_client_check=0)
    cp = os.path.join(vlib.VERIF, 'corpus', 'C19')
    if os.path.isdir(cp):
        for fn in sorted(os.listdir(cp)):
            for l in open(os.path.join(cp, fn)):
                l = l.strip()
                if l and not l.startswith('#'):
                    cases.append(l)
                    stats['corpus'] += 1
    # every boundary seed x passwords of every length 0..40
    for s in BOUNDARY_SEEDS:
        for n in range(0, 41):
            if tier == 'quick' and s not in (0, 1, 0x7fffffff, 0x80000000, 0xffffffff) and n not in (0, 1, 4, 31, 32, 33, 40):
                continue
            cases.append('L 16 %s %d' % (hexs(gen_password(rng, n)), s))
            stats['login_boundary_grid'] += 1
    # single-bit seeds with a fixed password: each challenge bit reaches the block
    base = bytes(range(0x41, 0x41 + 40))
    for k in range(32):
        cases.append('L 16 %s %d' % (hexs(base), 1 << k))
        stats['login_boundary_grid'] += 1
    # one-byte changes of a 40-byte password: bytes 0..31 matter, 32..39 do not
    for _ in range(2 * mult):
        pw = gen_password(rng, 40)
        s = gen_seed(rng)
        cases.append('L 16 %s %d' % (hexs(pw), s))
        for i in range(40):
            q = bytearray(pw)
            q[i] ^= rng.choice([1, 0x80, 0xff, 1 << rng.randrange(8)])
            cases.append('L 16 %s %d' % (hexs(q), s))
            stats['login_byte_flips'] += 1
    for _ in range(1500 * mult):
        cases.append('L %d %s %d' % (rng.choice([16, 16, 16, 17, 32, 64]), hexs(gen_password(rng)), gen_seed(rng)))
        stats['login_random'] += 1
    for bl in list(range(0, 16)) + [15] * 5:
        cases.append('L %d %s %d' % (bl, hexs(gen_password(rng)), gen_seed(rng)))
        stats['login_short_buflen'] += 1
    # MD5 proper: every length 0..200 once (all padding cases), then random
    for n in range(0, 201):
        cases.append('M %s' % hexs(bytes(rng.randrange(256) for _ in range(n))))
        stats['md5_all_lengths'] += 1
    for _ in range(300 * mult):
        n = rng.choice([rng.randrange(0, 201), rng.choice([55, 56, 57, 63, 64, 65, 119, 120, 121, 127, 128, 129])])
        f = rng.randrange(4)
        msg = bytes(n) if f == 0 else bytes([0xff]) * n if f == 1 else bytes(rng.randrange(256) for _ in range(n))
        cases.append('M %s' % hexs(msg))
        stats['md5_random'] += 1
    for _ in range(200 * mult):
        n = rng.randrange(0, 201)
        msg = bytes(rng.randrange(256) for _ in range(n))
        cases.append('M2 %d %s' % (rng.randrange(0, n + 1), hexs(msg)))
        stats['md5_split'] += 1
    # raw login, client -> server
    for s in BOUNDARY_SEEDS:
        cases.append('CU %s %d' % (hexs(gen_password(rng)), s))
        stats['raw_client_up'] += 1
    for _ in range(300 * mult):
        cases.append('CU %s %d' % (hexs(gen_password(rng)), gen_seed(rng)))
        stats['raw_client_up'] += 1

    # server: accepts exactly login(seed+1), answers login(seed-1)
    def sr(pw, s):
        up, down = doc_login(pw, s + 1), doc_login(pw, s - 1)
        k = rng.randrange(8)
        if k <= 2:
            pkt = up
        elif k == 3:
            pkt = up + bytes(rng.randrange(256) for _ in range(rng.randrange(1, 9)))
        elif k == 4:
            pkt = rng.choice([down, doc_login(pw, s)])
        elif k == 5:
            pkt = flip(up, rng)
        elif k == 6:
            pkt = up[:rng.choice([0, 1, 15])]
        else:
            pkt = bytes(rng.randrange(256) for _ in range(16))
        return 'SR %s %d %s' % (hexs(pw), s, hexs(pkt))

    # client: accepts exactly login(seed-1)
    def cr(pw, s):
        up, down = doc_login(pw, s + 1), doc_login(pw, s - 1)
        k = rng.randrange(8)
        if k <= 2:
            h = down
        elif k == 3:
            h = down + bytes(rng.randrange(256) for _ in range(rng.randrange(1, 9)))
        elif k == 4:
            h = rng.choice([up, doc_login(pw, s)])
        elif k == 5:
            h = flip(down, rng)
        elif k == 6:
            h = down[:rng.choice([0, 1, 15])]
        else:
            h = bytes(rng.randrange(256) for _ in range(16))
        return 'CR %s %d %s' % (hexs(pw), s, hexs(h))

    for s in BOUNDARY_SEEDS:
        pw = gen_password(rng)
        cases.append('SR %s %d %s' % (hexs(pw), s, hexs(doc_login(pw, s + 1))))
        cases.append('SR %s %d %s' % (hexs(pw), s, hexs(doc_login(pw, s - 1))))
        cases.append('CR %s %d %s' % (hexs(pw), s, hexs(doc_login(pw, s - 1))))
        cases.append('CR %s %d %s' % (hexs(pw), s, hexs(doc_login(pw, s + 1))))
        stats['raw_server'] += 2
        stats['raw_client_check'] += 2
    for _ in range(400 * mult):
        cases.append(sr(gen_password(rng), gen_seed(rng)))
        stats['raw_server'] += 1
    for _ in range(300 * mult):
        cases.append(cr(gen_password(rng), gen_seed(rng)))
        stats['raw_client_check'] += 1

    # ---- glue: version reply -> login -------------------------------------------------------
    def glue_seed():
        m = rng.randrange(8)
        if m == 0:
            return rng.choice(GLUE_CHALLENGES)
        if m == 1:      # every byte: bit 7 set or clear at random, low bits random
            return sum(((0x80 if rng.randrange(2) else 0) | rng.randrange(0x80)) << (8 * k) for k in range(4))
        if m == 2:      # low byte >= 0x80
            return (rng.randrange(1 << 24) << 8) | rng.randrange(0x80, 0x100)
        if m == 3:
            return gen_seed(rng)
        return rng.randrange(M32)

    def vack(s, uid):
        return b'VACK' + (s % M32).to_bytes(4, 'big') + bytes([uid])

    def raw_answer(pw, s):
        up, down = doc_login(pw, s + 1), doc_login(pw, s - 1)
        k = rng.randrange(8)
        if k <= 3:
            return down
        if k == 4:
            return down + bytes(rng.randrange(256) for _ in range(rng.randrange(1, 9)))
        if k == 5:
            return rng.choice([up, doc_login(pw, s), flip(down, rng)])
        if k == 6:
            return down[:rng.choice([1, 15])]
        return bytes(rng.randrange(256) for _ in range(16))

    def hv(pw, rep, kind=None):
        stats['glue_client_version_login'] += 1
        kd = kind or rng.choice('NT')
        if rng.randrange(3) == 0:
            # lower case: the first login reply is text the client cannot use ("BADLEN"): it retries, and the login it sends again
            # (the one reported) must still be the documented response
            kd = kd.lower()
            stats['glue_client_login_retry'] = stats.get('glue_client_login_retry', 0) + 1
        return 'HV %s %s %s' % (hexs(pw), hexs(rep), kd)

    def hf(pw, rep, ans, kind=None):
        stats['glue_client_full_handshake'] += 1
        return 'HF %s %s %s %s' % (hexs(pw), hexs(rep), kind or rng.choice('NT'), hexs(ans))

    def sv(pw, s, uid, login, kind=None):
        stats['glue_server_version_login'] += 1
        kd = kind or rng.choice('NT')
        if rng.randrange(3) == 0:
            # lower case: a second version request from the same address (a relay re-sending it, or another client behind the same
            # relay) arrives between the version reply and the login; the challenge handed out first stays the one the login is
            # checked against
            kd = kd.lower()
            stats['glue_server_second_version_before_login'] = stats.get('glue_server_second_version_before_login', 0) + 1
        line = 'SV %s %d %d %s %s' % (hexs(pw), s % M32, uid, kd, hexs(login))
        if rng.randrange(3):
            # then the raw login of the same session: challenge+1 up (sometimes a wrong one), challenge-1 expected back
            k = rng.randrange(6)
            raw = doc_login(pw, s + 1) if k <= 3 else (doc_login(pw, s) if k == 4 else flip(doc_login(pw, s + 1), rng))
            if rng.randrange(8) == 0:
                raw = raw + bytes(rng.randrange(256) for _ in range(rng.randrange(1, 5)))
            line += ' ' + hexs(raw)
            stats['glue_server_raw_after_login'] = stats.get('glue_server_raw_after_login', 0) + 1
        return line

    def srv_login(pw, s):
        k = rng.randrange(8)
        if k <= 3:
            return doc_login(pw, s)
        if k == 4:
            return rng.choice([doc_login(pw, s + 1), doc_login(pw, s - 1), doc_login(pw, s | 0xffffff00), doc_login(pw, s & 0xff)])
        if k == 5:
            return flip(doc_login(pw, s), rng)
        if k == 6:
            return doc_login(pw, s)[:rng.choice([1, 15])]
        return bytes(rng.randrange(256) for _ in range(16))

    for k in ('glue_client_version_login', 'glue_client_full_handshake', 'glue_server_version_login', 'glue_client_malformed_reply',
              'glue_server_version_mismatch'):
        stats[k] = 0
    fixed = b'iodine is the shit'
    for i, s in enumerate(GLUE_CHALLENGES):
        for kind in 'NT':
            pw = fixed if kind == 'N' else gen_password(rng)
            cases.append(hv(pw, vack(s, i % 16), kind))
            cases.append(hf(pw, vack(s, (i + 5) % 16), doc_login(pw, s - 1), kind))
            cases.append(hf(pw, vack(s, (i + 9) % 16), doc_login(pw, s + 1), kind))
            cases.append(sv(pw, s, i % 16, doc_login(pw, s), kind))
            cases.append(sv(pw, s, (i + 3) % 16, doc_login(pw, s | 0xffffff00) if s & 0x80 else doc_login(pw, s + 1), kind))
    for _ in range(100 * mult):
        pw, s = gen_password(rng), glue_seed()
        cases.append(hv(pw, vack(s, rng.randrange(16))))
    for _ in range(40 * mult):
        pw, s = gen_password(rng), glue_seed()
        cases.append(hf(pw, vack(s, rng.randrange(16)), raw_answer(pw, s)))
    for _ in range(80 * mult):
        pw, s = gen_password(rng), glue_seed()
        cases.append(sv(pw, s, rng.randrange(16), srv_login(pw, s)))
    # version messages that are not the server's version (every byte position with bit 7 set / clear)
    for v in GLUE_CHALLENGES + [rng.randrange(M32) for _ in range(6 * mult)] + [PROTO ^ (1 << k) for k in range(32)]:
        if v != PROTO:
            cases.append('SN %s %s' % (hexs(v.to_bytes(4, 'big') + bytes(rng.randrange(256) for _ in range(2))), rng.choice('NT')))
            stats['glue_server_version_mismatch'] += 1
    for n in (1, 2, 3, 4):      # too short to carry a version ("read > 4")
        cases.append('SN %s N' % hexs(PROTO.to_bytes(4, 'big')[:n]))
        stats['glue_server_version_mismatch'] += 1
    # replies handshake_version must not take a challenge from, over-long replies, userids >= 0x80
    for _ in range(12 * mult):
        pw, s = gen_password(rng), glue_seed()
        k = rng.randrange(8)
        if k == 0:
            rep = rng.choice([b'VNAK', b'VFUL']) + s.to_bytes(4, 'big') + bytes([rng.randrange(16)])
        elif k == 1:
            rep = vack(s, 3)[:rng.randrange(1, 9)]
        elif k == 2:
            rep = vack(s, rng.randrange(16)) + bytes(rng.randrange(256) for _ in range(rng.randrange(1, 20)))
        elif k == 3:
            rep = rng.choice([b'vack', b'VACk', b'VAC\0', b'LNAK', b'\xd6ACK']) + s.to_bytes(4, 'big') + b'\x01'
        elif k == 4:
            rep = vack(s, rng.randrange(0x10, 0x100))
        elif k == 5:
            rep = bytes(rng.randrange(256) for _ in range(rng.randrange(1, 24)))
        else:
            rep = vack(s, rng.randrange(16))
        stats['glue_client_malformed_reply'] += 1
        cases.append(rng.choice([hv(pw, rep), hf(pw, rep, raw_answer(pw, s))]))
    return cases, stats


# ---- implementation-level oracle -----------------------------------------------------------
def oracle(case, out):
    """None if the implementation's output is what the protocol document prescribes."""
    t = case.split(' ')
    if out == '<NO-OUTPUT>' or out.startswith(('BAD', 'UNKNOWN', 'NO-')):
        return 'no usable result: ' + out[:120]
    if t[0] == 'L':
        buflen, pw, s = int(t[1]), unh(t[2]), int(t[3])
        if buflen < 16:
            return None if out == 'UNTOUCHED' else 'output buffer of %d bytes was written: %s' % (buflen, out)
        if 'GUARD-VIOLATED' in out:
            return 'login_calculate wrote beyond 16 bytes'
        f = out.split(' ')
        if len(f) != 2:
            return 'unparsable result ' + out[:80]
        want = doc_login(pw, s)
        if unh(f[0]) != want:
            blk = unh(f[1]) if f[1] != 'NO-MD5-APPEND' else None
            if blk is not None and blk != doc_block(pw, s):
                diff = [i for i in range(min(len(blk), 32)) if blk[i] != doc_block(pw, s)[i]]
                return ('login response %s differs from MD5(pass32 xor 8 x challenge) = %s: the %d bytes hashed differ from '
                        'the documented block at offsets %s' % (f[0], want.hex(), len(blk), diff[:12] or 'length'))
            return 'login response %s differs from MD5(pass32 xor 8 x challenge) = %s although the hashed block is the documented one (MD5 itself)' % (f[0], want.hex())
        if f[1] != 'NO-MD5-APPEND' and unh(f[1]) != doc_block(pw, s):
            return 'bytes handed to MD5 differ from the documented block'
        return None
    if t[0] in ('M', 'M2'):
        msg = unh(t[-1])
        want = hashlib.md5(msg).hexdigest()
        return None if out == want else 'md5 of a %d-byte message is %s, RFC 1321 gives %s' % (len(msg), out, want)
    if t[0] == 'CU':
        pw, s = unh(t[1]), int(t[2])
        want = doc_login(pw, s + 1).hex()
        if out == want:
            return None
        other = 'login(challenge-1)' if out == doc_login(pw, s - 1).hex() else 'login(challenge)' if out == doc_login(pw, s).hex() else 'something else'
        return 'client raw login carries %s = %s, the document prescribes login(challenge+1) = %s' % (out, other, want)
    if t[0] == 'SR':
        pw, s, pkt = unh(t[1]), int(t[2]), unh(t[3])
        up, down = doc_login(pw, s + 1), doc_login(pw, s - 1)
        want = ('REPLY ' + down.hex()) if (len(pkt) >= 16 and pkt[:16] == up) else 'NONE'
        if out == want:
            return None
        return 'server raw login: got %r for a %s datagram, the document prescribes %r' % (
            out, 'login(challenge+1)' if pkt[:16] == up else 'login(challenge-1)' if pkt[:16] == down else 'non-matching', want)
    if t[0] == 'CR':
        pw, s, h = unh(t[1]), int(t[2]), unh(t[3])
        up, down = doc_login(pw, s + 1), doc_login(pw, s - 1)
        want = '%s %s' % (up.hex(), 'ACCEPT' if (len(h) >= 16 and h[:16] == down) else 'REJECT')
        if out == want:
            return None
        return 'client raw handshake: got %r for a server answer carrying %s, the document prescribes %r' % (
            out, 'login(challenge-1)' if h[:16] == down else 'login(challenge+1)' if h[:16] == up else 'a non-matching hash', want)
    if t[0] in ('HV', 'HF'):
        pw, rep = unh(t[1]), unh(t[2])
        if len(rep) < 9 or rep[:4] != b'VACK':
            return None if out == 'rv=1' else ('handshake_version took a challenge from a reply that is not a 9-byte VACK (%s): %s' % (rep[:12].hex(), out[:160]))
        s = int.from_bytes(rep[4:8], 'big')
        uid = rep[8] - 256 if rep[8] >= 0x80 else rep[8]
        f = dict(x.split('=', 1) for x in out.split(' ') if '=' in x)
        where = 'challenge 0x%08x in the VACK reply' % s
        if f.get('rv') != '0':
            return 'client did not accept a well-formed VACK reply (%s): %s' % (where, out[:160])
        if 'dns' not in f or 'raw' not in f or 'luid' not in f:
            return 'client sent no usable login after the version reply (%s): %s' % (where, out[:200])
        if f.get('uid') != str(uid) or f.get('luid') != str(rep[8]):
            return 'client took userid %s / sends userid byte %s for userid byte %d of the reply' % (f.get('uid'), f.get('luid'), rep[8])
        want = doc_login(pw, s).hex()
        if f['dns'] != want:
            other = next(('0x%08x' % c for c in (s | 0xffffff00, s | 0xffff0000, s | 0xff000000, s & 0xff, s + 1, s - 1,
                                                 int.from_bytes(rep[4:8], 'little')) if doc_login(pw, c).hex() == f['dns']), None)
            return ('DNS login of the client for %s is %s%s, the document prescribes MD5(pass32 xor 8 x challenge) = %s' % (
                where, f['dns'], ' = the response for challenge ' + other if other else '', want))
        want = doc_login(pw, s + 1).hex()
        if f['raw'] != want:
            other = next(('0x%08x' % (c % M32) for c in ((s | 0xffffff00) + 1, s, s - 1) if doc_login(pw, c).hex() == f['raw']), None)
            return ('raw login of the client for %s is %s%s, the document prescribes login(challenge+1) = %s' % (
                where, f['raw'], ' = the response for challenge ' + other if other else '', want))
        if t[0] == 'HV' and f.get('seed') != str(s):
            return ('handshake_version stored seed 0x%08x for %s' % (int(f.get('seed', '0')) % M32, where))
        if t[0] == 'HF':
            ans = unh(t[4])
            wc = 'RAW' if (len(ans) >= 16 and ans[:16] == doc_login(pw, s - 1)) else 'DNS'
            if f.get('conn') != wc:
                return ('client_handshake ends in %s mode for %s and a server raw answer that %s login(challenge-1); expected %s' % (
                    f.get('conn'), where, 'is' if wc == 'RAW' else 'is not', wc))
        return None
    if t[0] == 'SV':
        pw, r, uid, login = unh(t[1]), int(t[2]), int(t[3]), unh(t[5])
        login = (login + bytes(16))[:16]
        ok = login == doc_login(pw, r)
        want = 'reply=%s seed=%d rand_calls=1 login=%s auth=%d' % (
            (b'VACK' + r.to_bytes(4, 'big') + bytes([uid])).hex(), r, 'ACCEPT' if ok else 'LNAK', 1 if ok else 0)
        if len(t) >= 7:
            raw = unh(t[6])
            rawok = ok and len(raw) >= 16 and raw[:16] == doc_login(pw, r + 1)
            want_raw = doc_login(pw, r - 1).hex() if rawok else 'NONE'
            if out == want + ' raw=' + want_raw:
                return None
            if out.startswith(want + ' raw='):
                return ('raw login after the DNS login of the same session (challenge 0x%08x from the version reply, login %s): the server '
                        'answers %s to the raw login %s; the document prescribes %s (MD5 with challenge+1 towards the server, '
                        'challenge-1 back)' % (r, 'accepted' if ok else 'refused', out.split(' raw=')[1], 'for challenge+1' if
                                               raw[:16] == doc_login(pw, r + 1) else 'that is not for challenge+1', want_raw))
            want = want + ' raw=' + want_raw
        if out == want:
            return None
        f = dict(x.split('=', 1) for x in out.split(' ') if '=' in x)
        if f.get('reply') != want.split(' ')[0][6:]:
            return ('version reply of the server for rand() = 0x%08x, user %d is %s; the document prescribes VACK + big-endian challenge + userid = %s' % (
                r, uid, f.get('reply'), want.split(' ')[0][6:]))
        return 'server with challenge 0x%08x: got %r, expected %r (login %s the documented response)' % (r, out[:200], want, 'is' if ok else 'is not')
    if t[0] == 'SN':
        want = 'reply=%s rand_calls=0' % (b'VNAK' + PROTO.to_bytes(4, 'big') + b'\0').hex()
        return None if out == want else ('server answer to the version message %s: %r, the document prescribes VNAK + the server version: %r' % (t[1], out[:120], want))
    return 'unknown case kind'


def e2e_cases(cases, impl, limit):
    """the login the real client sent (HV results) for a well-formed server reply, handed to the real
    server whose rand() returns that challenge: SV cases that must all end in ACCEPT"""
    out = []
    for c, o in zip(cases, impl):
        t = c.split(' ')
        if t[0] != 'HV' or not o.startswith('rv=0 '):
            continue
        rep = unh(t[2])
        if len(rep) != 9 or rep[:4] != b'VACK' or rep[8] >= 16:
            continue
        f = dict(x.split('=', 1) for x in o.split(' ') if '=' in x)
        if 'dns' not in f or 'luid' not in f:
            continue
        out.append('SV %s %d %s %s %s' % (t[1], int.from_bytes(rep[4:8], 'big'), f['luid'], t[3], f['dns']))
        if len(out) >= limit:
            break
    return out


def san_summary(err):
    import re
    m = re.findall(r'(SUMMARY: [^\n]*|[^\n]*runtime error: [^\n]*|ERROR: AddressSanitizer[^\n]*)', err)
    return ' / '.join(list(dict.fromkeys(x.strip()[:200] for x in m))[:2]) if m else err[-300:]


def kind(case):
    return case.split(' ', 1)[0]


def nontrivial(case):
    t = case.split(' ')
    if t[0] in ('HV', 'HF', 'SV', 'SN'):
        return True
    return t[-1] != '-' and not (t[0] == 'L' and t[2] == '-')


def ub_case(case):
    """raw-login cases in which a C that computes seed+1 / seed-1 on an int would overflow (the tree
    does it on unsigned int; the sanitizer build runs these cases too)."""
    t = case.split(' ')
    if t[0] == 'CU':
        return int(t[2]) == UB_UP
    if t[0] in ('SR', 'CR'):
        return int(t[2]) in (UB_UP, UB_DOWN)
    return False


def run_sharded(exe, cases, workdir, tag, shards=16, timeout=1800):
    """Like vlib.parallel_run_cases, but every shard writes to its own file: with pipes the
    shards block on a full pipe until the parent gets to them, i.e. they run one after another
    (the extracted model prints about 1 MB per shard)."""
    import subprocess, time
    os.makedirs(workdir, exist_ok=True)
    n = len(cases)
    if n == 0:
        return 0, [], ''
    shards = max(1, min(shards, n // 200 + 1))
    size = (n + shards - 1) // shards
    env = dict(os.environ)
    env['ASAN_OPTIONS'] = 'detect_leaks=0:abort_on_error=0:halt_on_error=1'
    env['UBSAN_OPTIONS'] = 'print_stacktrace=1:halt_on_error=1'
    procs = []
    for i in range(shards):
        part = cases[i * size:(i + 1) * size]
        if not part:
            continue
        cp = os.path.join(workdir, '%s.%d.cases' % (tag, i))
        with open(cp, 'w') as f:
            f.write('\n'.join(part) + '\n')
        fo, fe = open(cp + '.out', 'wb'), open(cp + '.err', 'wb')
        p = subprocess.Popen(['bash', '-c', 'ulimit -s unlimited 2>/dev/null; exec "$0" "$1"', exe, cp], stdout=fo, stderr=fe, env=env)
        procs.append((p, len(part), cp, fo, fe))
    lines, rc, err = [], 0, ''
    deadline = time.time() + timeout
    for p, cnt, cp, fo, fe in procs:
        try:
            p.wait(timeout=max(1, deadline - time.time()))
        except subprocess.TimeoutExpired:
            p.kill()
            p.wait()
            rc = 124
            err += 'TIMEOUT in shard %s\n' % cp
        fo.close()
        fe.close()
        ls = open(cp + '.out', 'rb').read().decode('latin-1').split('\n')
        if ls and ls[-1] == '':
            ls.pop()
        if p.returncode not in (0, None):
            if rc == 0:
                rc = p.returncode
            err += open(cp + '.err', 'rb').read().decode('latin-1')[-3000:]
        if len(ls) < cnt:
            ls += ['<NO-OUTPUT>'] * (cnt - len(ls))
        lines += ls[:cnt]
    return rc, lines, err


def run_impl(ctx, exes, cases, tag):
    """Runs each case on the harness that handles its kind; returns (lines aligned with cases, problems)."""
    res = [None] * len(cases)
    problems = []
    for h in ('c19', 'c19cli', 'c19srv'):
        idx = [i for i, c in enumerate(cases) if HARNESS_OF.get(kind(c)) == h]
        if not idx:
            continue
        if h not in exes:
            for i in idx:
                res[i] = '<NO-OUTPUT>'
            continue
        rc, lines, err = run_sharded(exes[h], [cases[i] for i in idx], ctx.work, '%s.%s' % (tag, h))
        for i, l in zip(idx, lines):
            res[i] = l
        if rc != 0:
            bad = next((cases[i] for i, l in zip(idx, lines) if l == '<NO-OUTPUT>'), None)
            problems.append((h, rc, err, bad))
    for i, c in enumerate(cases):
        if res[i] is None:
            res[i] = 'UNKNOWN-CASE'
    return res, problems


def check(rep):
    hs = ('c19', 'c19cli', 'c19srv', 'climain', 'srvmain')
    vlib.HARNESSES['climain'] = mainlib.CLIMAIN
    vlib.HARNESSES['srvmain'] = mainlib.SRVMAIN
    ctx = vlib.prepare(rep, harnesses=hs, sanitize=True)
    cases, stats = gen_cases(rep.seed, rep.tier)
    rep.cov['rule'] = ('corpus first (tests/login.c vector, RFC 1321 suite); login_calculate: every boundary challenge '
                       '(0,1,2^31-1,2^31,2^32-1,...) x password lengths 0..40, single-bit challenges, one-byte changes at each of 40 '
                       'password offsets, random passwords (all byte values, NULs inside, >=0x80, 0xff, printable) x boundary/random '
                       'challenges, buflen 0..15; md5: every message length 0..200 + padding boundaries + split appends; raw login: '
                       'client send_raw_udp_login, server handle_raw_login and client handshake_raw_udp with matching, opposite-direction, '
                       'same-seed, bit-flipped, short, over-long and random hashes. Glue version reply -> login: the real '
                       'handshake_version on VACK replies (NULL and TXT answers) carrying 0x80, 0xff, 0x7fffffff, 0x80000000, 0xffffffff, '
                       '0x80/0x7f/0xff/0x81 at each byte position, all 16 sign-bit patterns of the four bytes, random challenges (bit 7 of '
                       'every byte set/clear, low byte >= 0x80, uniform), then the first login query of the real handshake_login and the '
                       'datagram of send_raw_udp_login (HV); the whole real client_handshake in raw mode with matching / non-matching server '
                       'raw answers (HF); VNAK, VFUL, short, over-long, wrong-tag, userid >= 0x80 and random replies; the real version handler '
                       'with rand() scripted to the same challenges and the real login handler on matching / off-by-one / sign-extended / '
                       'flipped / short / random hashes (SV), and on version messages other than the version of the server (SN: VNAK reply, rand() not called); the logins the real client sent handed to the real server (end to end). '
                       'Oracle: hashlib.md5 over the documented formula. '
                       'distinct = distinct case lines; non-trivial = non-empty password/message')
    rep.cov['input_distribution'] = stats
    rep.cov['evaluations'] = len(cases)
    rep.cov['distinct_nontrivial'] = len(set(c for c in cases if nontrivial(c)))
    rep.cov['samples'] = [c[:300] for c in (cases[0:2] + cases[400:402] + [c for c in cases if kind(c) == 'M'][100:101] +
                                            [c for c in cases if kind(c) == 'CU'][:1] + [c for c in cases if kind(c) == 'SR'][40:42] +
                                            [c for c in cases if kind(c) == 'CR'][40:42] + [c for c in cases if kind(c) == 'HV'][:2] +
                                            [c for c in cases if kind(c) == 'HF'][:1] + [c for c in cases if kind(c) == 'SV'][:1])]
    rep.cov['exhaustive'] = False
    rep.notes.append('send_raw_udp_login / handshake_raw_udp / handle_raw_login compute challenge+1 and challenge-1 on unsigned int '
                     '((int) ((unsigned int) seed + 1)); the sanitizer build runs the raw-login cases at INT_MAX / INT_MIN as well, where a '
                     'plain int seed + 1 / seed - 1 would be reported (signed overflow).  The reassembly of the challenge in '
                     'handshake_version is checked for int-shift overflow both by the proof (cli_payload_defined) and by the sanitizer build.')
    if ctx.consts is not None and 'C19_GLUE_ERROR' in (ctx.consts or {}):
        ctx.broken.append(('translator:c19-glue', 'version reply / challenge reassembly no longer has the shape the model is generated from: ' +
                           ctx.consts['C19_GLUE_ERROR']))
    rep.cov['trusted_base'] = rep.cov['trusted_base'] + [
        'hashlib.md5 (OpenSSL) as the implementation-level oracle, formula transcribed from doc/proto_00000502.txt',
        'link-time interposers (--wrap=md5_append, sendto, select, recvfrom, recv, time) pass data through unchanged',
        'link-time interposers --wrap=rand (scripted challenge) and --wrap=system (tun_setip / tun_setmtu of a successful login)',
        'char is signed, int is 32-bit two\'s complement, conversions uint32_t -> int and int -> char keep the low bits (gcc, x86-64); '
        'the model states these conversions explicitly',
        'the DNS transport of the 9-byte version reply is the repository\'s own dns_encode / dns_decode (properties C09/C10)']
    impl = None
    if ctx.exe:
        impl, problems = run_impl(ctx, ctx.exe, cases, 'impl')
        for h, rc, err, bad in problems:
            ctx.broken.append(('impl-crash:' + h, 'implementation harness %s exited with %d on case %r: %s' % (h, rc, bad, err[-300:])))
        seen = set()
        for c, o in zip(cases, impl):
            if HARNESS_OF.get(kind(c)) not in ctx.exe or KEY_OF.get(kind(c)) in seen:
                continue
            why = oracle(c, o)
            if why:
                seen.add(KEY_OF.get(kind(c)))
                rep.add_violation(KEY_OF.get(kind(c), 'c19'), why, dict(kind='input', driver=HARNESS_OF[kind(c)], case=c, observed=o, expected=why))
        # end to end: what the real client sent, into the real server holding the same challenge
        if 'c19srv' in ctx.exe and 'c19cli' in ctx.exe:
            ee = e2e_cases(cases, impl, 300 if rep.tier == 'quick' else 6000)
            eo, problems = run_impl(ctx, ctx.exe, ee, 'e2e')
            rep.cov['input_distribution']['glue_end_to_end'] = len(ee)
            for h, rc, err, bad in problems:
                ctx.broken.append(('impl-crash:' + h, 'implementation harness %s exited with %d on case %r: %s' % (h, rc, bad, err[-300:])))
            for c, o in zip(ee, eo):
                if ' login=ACCEPT auth=1' not in o:
                    t = c.split(' ')
                    hvc = next((x for x in cases if x.startswith('HV %s %s ' % (t[1], (b'VACK' + int(t[2]).to_bytes(4, 'big') + bytes([int(t[3])])).hex()))), None)
                    rep.add_violation('glue:end-to-end', 'the real server with challenge 0x%08x (rand() value) rejects the login %s the real client '
                                      'sent after receiving that challenge in the version reply: %s; documented response %s' % (
                                          int(t[2]), t[5], o[:160], doc_login(unh(t[1]), int(t[2])).hex()),
                                      dict(kind='input', driver='c19srv', case=c, client_case=hvc, observed=o, expected='login=ACCEPT'))
                    break
            cases = cases + ee
            impl = impl + eo
            rep.cov['evaluations'] = len(cases)
            rep.cov['distinct_nontrivial'] = len(set(c for c in cases if nontrivial(c)))
        if ctx.san:
            sl, problems = run_impl(ctx, ctx.san, cases, 'san')
            rep.cov['sanitizer_cases'] = len(cases)
            rep.cov['sanitizer_cases_at_int_overflow_seeds'] = len([c for c in cases if ub_case(c)])
            for h, rc, err, bad in problems:
                rep.add_violation('sanitizer:' + h, 'ASan/UBSan report in %s on case %r: %s' % (h, (bad or '?')[:160], san_summary(err)),
                                  dict(kind='input', driver=h + '.san', case=bad, observed=err[-3000:]))
    if ctx.model and impl is not None:
        import time
        t0 = time.time()
        # the model has no second client: a lower-case SV kind (second version request in between) is predicted by the plain case
        mcases = [re.sub(r'^(SV \S+ \S+ \S+) ([nt]) ', lambda m: '%s %s ' % (m.group(1), m.group(2).upper()), c) for c in cases]
        mcases = [re.sub(r'^(HV \S+ \S+) ([nt])$', lambda m: '%s %s' % (m.group(1), m.group(2).upper()), c) for c in mcases]
        rc, mod, err = run_sharded(ctx.model, mcases, ctx.work, 'model')
        rep.cov['model_wall_s'] = round(time.time() - t0, 2)
        if rc != 0:
            ctx.broken.append(('model-crash', 'extracted model exited with %d: %s' % (rc, err[-300:])))
        d = vlib.first_diff(cases, impl, mod)
        rep.cov['traces_validated_against_impl'] = len(cases) if d is None else d
        if d is not None:
            ctx.broken.append(('correspondence', 'model and implementation disagree on case %r: impl=%r model=%r' % (
                cases[d][:300], impl[d][:200], mod[d][:200])))
    mainlib.password_stage(rep, ctx)
    if not rep.violations:
        ctx.report_broken()
    return rep


def replay(rp):
    rep = vlib.Report('C19', 'quick', rp.get('seed', 1))
    case = rp.get('case')
    if not case:
        print('replay names a broken obligation, not an input:', rp.get('broken'))
        return 1
    h = HARNESS_OF.get(kind(case), 'c19')
    san = str(rp.get('driver', '')).endswith('.san')
    if rp.get('client_case'):
        # end to end: the real client on the version reply, its login into the real server
        ctx = vlib.prepare(rep, harnesses=('c19cli', 'c19srv'), sanitize=False, prove_it=False)
        if 'c19cli' not in ctx.exe or 'c19srv' not in ctx.exe:
            print('harness does not build')
            return 1
        cp = os.path.join(ctx.work, 'replay.cases')
        open(cp, 'w').write(rp['client_case'] + '\n')
        rc, co, err = vlib.run_cases(ctx.exe['c19cli'], cp)
        ee = e2e_cases([rp['client_case']], co[:1], 1) if co else []
        print('client case:', rp['client_case'][:300])
        print('client     :', co[0][:300] if co else err)
        if not ee:
            print('the client sent no login for this version reply')
            return 1
        open(cp, 'w').write(ee[0] + '\n')
        rc, so, err = vlib.run_cases(ctx.exe['c19srv'], cp)
        print('server case:', ee[0][:300])
        print('server     :', so[0][:300] if so else err)
        ok = bool(so) and ' login=ACCEPT auth=1' in so[0]
        print('end to end :', 'login accepted' if ok else 'the server rejects the login the client sent for its own challenge')
        return 0 if ok else 1
    ctx = vlib.prepare(rep, harnesses=(h,), sanitize=san, prove_it=False)
    cp = os.path.join(ctx.work, 'replay.cases')
    open(cp, 'w').write(case + '\n')
    rc, impl, err = vlib.run_cases(ctx.exe[h], cp) if h in ctx.exe else (1, [], 'harness does not build')
    rc2, mod, err2 = vlib.run_cases(ctx.model, cp) if ctx.model else (0, ['-'], '')
    print('case :', case[:400])
    print('impl :', impl[0][:300] if impl else err)
    print('model:', mod[0][:300] if mod else err2)
    why = oracle(case, impl[0]) if impl else 'crash'
    print('oracle:', why or 'ok')
    if san and h in ctx.san:
        rc3, sl, err3 = vlib.run_cases(ctx.san[h], cp)
        print('sanitizer build: exit %d %s' % (rc3, san_summary(err3) if rc3 else 'clean'))
        if rc3:
            why = why or 'sanitizer report'
    return 1 if why else 0
