"""C19 -- login response follows the documented challenge-response for all inputs.
Proof: coq/Properties_C19.v (Md5.v, Login.v, LoginProofs.v).
Correspondence: the real login_calculate / md5_* (src/login.c, src/md5.c), the real
send_raw_udp_login / handshake_raw_udp (src/client.c) and handle_raw_login (src/iodined.c)
against the extracted model, on the same generated cases.
Implementation oracle (independent of the model): hashlib.md5 over the documented formula
  MD5( first 32 bytes of the zero-padded password  xor  8 x big-endian 32-bit challenge ),
raw login = the same with challenge+1 (client -> server) and challenge-1 (server -> client),
both modulo 2^32."""
import os, hashlib
import vlib
from vlib import hexs

M32 = 1 << 32
BOUNDARY_SEEDS = [0, 1, 2, 15, 0x7ffffffe, 0x7fffffff, 0x80000000, 0x80000001, 0xfffffffe, 0xffffffff,
                  0x01020304, 0xff000000, 0x00ff0000, 0x0000ff00, 0x000000ff, 0x80808080, 0x00000100]
# C int overflow (undefined behaviour, wraps with gcc): seed+1 at INT_MAX, seed-1 at INT_MIN.
UB_UP = 0x7fffffff
UB_DOWN = 0x80000000

vlib.HARNESSES['c19'] = dict(harness=['hmain.c', 'h_c19.c'], repo=vlib.PURE_SRCS, wraps=['time', 'md5_append'])
vlib.HARNESSES['c19cli'] = dict(harness=['hmain.c', 'h_c19cli.c'], repo=vlib.PURE_SRCS,
                                wraps=['time', 'sendto', 'select', 'recvfrom', 'recv'])
vlib.HARNESSES['c19srv'] = dict(harness=['hmain.c', 'h_c19srv.c'], repo=vlib.PURE_SRCS, wraps=['time', 'sendto'])
HARNESS_OF = {'L': 'c19', 'M': 'c19', 'M2': 'c19', 'CU': 'c19cli', 'CR': 'c19cli', 'SR': 'c19srv'}
KEY_OF = {'L': 'login_calculate', 'M': 'md5', 'M2': 'md5', 'CU': 'raw:client.c:send_raw_udp_login',
          'CR': 'raw:client.c:handshake_raw_udp', 'SR': 'raw:iodined.c:handle_raw_login'}


# ---- the documented formula, from doc/proto_00000502.txt (never from the model) -------------
def doc_block(pw, seed):
    p32 = (bytes(pw) + bytes(32))[:32]
    chal = (seed % M32).to_bytes(4, 'big') * 8
    return bytes(a ^ b for a, b in zip(p32, chal))


def doc_login(pw, seed):
    return hashlib.md5(doc_block(pw, seed)).digest()


def unh(h):
    return b'' if h == '-' else bytes.fromhex(h)


# ---- case generation ----------------------------------------------------------------------
def gen_password(rng, n=None):
    if n is None:
        m = rng.randrange(8)
        if m == 0:
            n = rng.choice([0, 1, 3, 4, 5, 30, 31, 32, 33, 34, 39, 40])
        else:
            n = rng.randrange(0, 41)
    f = rng.randrange(8)
    if f == 0:
        return bytes([0xff]) * n
    if f == 1:
        return bytes(n)
    if f == 2:      # printable, as typed on a command line
        return bytes(rng.choice(b'abcdefghijklmnopqrstuvwxyzABCDEFGHIJKLMNOPQRSTUVWXYZ0123456789 !#%&/()=-_') for _ in range(n))
    if f == 3:      # only bytes >= 0x80 (negative as signed char)
        return bytes(rng.randrange(0x80, 0x100) for _ in range(n))
    if f == 4:      # NUL bytes inside
        b = bytearray(rng.randrange(256) for _ in range(n))
        for _ in range(rng.randrange(1, 4)):
            if n:
                b[rng.randrange(n)] = 0
        return bytes(b)
    return bytes(rng.randrange(256) for _ in range(n))


def gen_seed(rng):
    m = rng.randrange(6)
    if m == 0:
        return rng.choice(BOUNDARY_SEEDS)
    if m == 1:
        return 1 << rng.randrange(32)
    if m == 2:
        return (rng.choice([0, 0x7fffffff, 0x80000000, 0xffffffff]) + rng.randrange(-3, 4)) % M32
    return rng.randrange(M32)


def flip(h, rng):
    b = bytearray(h)
    if b:
        i = rng.randrange(len(b))
        b[i] ^= 1 << rng.randrange(8)
    return bytes(b)


def gen_cases(seed, tier):
    rng = vlib.rng_for(seed, 'c19')
    mult = 10 if tier == 'quick' else 200
    cases = []
    stats = dict(corpus=0, login_boundary_grid=0, login_random=0, login_byte_flips=0, login_short_buflen=0,
                 md5_all_lengths=0, md5_random=0, md5_split=0, raw_client_up=0, raw_server=0, raw_client_check=0)
    cp = os.path.join(vlib.VERIF, 'corpus', 'C19')
    if os.path.isdir(cp):
        for fn in sorted(os.listdir(cp)):
            for l in open(os.path.join(cp, fn)):
                l = l.strip()
                if l and not l.startswith('#'):
                    cases.append(l)
                    stats['corpus'] += 1
    # every boundary seed x passwords of every length 0..40
    for s in BOUNDARY_SEEDS:
        for n in range(0, 41):
            if tier == 'quick' and s not in (0, 1, 0x7fffffff, 0x80000000, 0xffffffff) and n not in (0, 1, 4, 31, 32, 33, 40):
                continue
            cases.append('L 16 %s %d' % (hexs(gen_password(rng, n)), s))
            stats['login_boundary_grid'] += 1
    # single-bit seeds with a fixed password: each challenge bit reaches the block
    base = bytes(range(0x41, 0x41 + 40))
    for k in range(32):
        cases.append('L 16 %s %d' % (hexs(base), 1 << k))
        stats['login_boundary_grid'] += 1
    # one-byte changes of a 40-byte password: bytes 0..31 matter, 32..39 do not
    for _ in range(2 * mult):
        pw = gen_password(rng, 40)
        s = gen_seed(rng)
        cases.append('L 16 %s %d' % (hexs(pw), s))
        for i in range(40):
            q = bytearray(pw)
            q[i] ^= rng.choice([1, 0x80, 0xff, 1 << rng.randrange(8)])
            cases.append('L 16 %s %d' % (hexs(q), s))
            stats['login_byte_flips'] += 1
    for _ in range(1500 * mult):
        cases.append('L %d %s %d' % (rng.choice([16, 16, 16, 17, 32, 64]), hexs(gen_password(rng)), gen_seed(rng)))
        stats['login_random'] += 1
    for bl in list(range(0, 16)) + [15] * 5:
        cases.append('L %d %s %d' % (bl, hexs(gen_password(rng)), gen_seed(rng)))
        stats['login_short_buflen'] += 1
    # MD5 proper: every length 0..200 once (all padding cases), then random
    for n in range(0, 201):
        cases.append('M %s' % hexs(bytes(rng.randrange(256) for _ in range(n))))
        stats['md5_all_lengths'] += 1
    for _ in range(300 * mult):
        n = rng.choice([rng.randrange(0, 201), rng.choice([55, 56, 57, 63, 64, 65, 119, 120, 121, 127, 128, 129])])
        f = rng.randrange(4)
        msg = bytes(n) if f == 0 else bytes([0xff]) * n if f == 1 else bytes(rng.randrange(256) for _ in range(n))
        cases.append('M %s' % hexs(msg))
        stats['md5_random'] += 1
    for _ in range(200 * mult):
        n = rng.randrange(0, 201)
        msg = bytes(rng.randrange(256) for _ in range(n))
        cases.append('M2 %d %s' % (rng.randrange(0, n + 1), hexs(msg)))
        stats['md5_split'] += 1
    # raw login, client -> server
    for s in BOUNDARY_SEEDS:
        cases.append('CU %s %d' % (hexs(gen_password(rng)), s))
        stats['raw_client_up'] += 1
    for _ in range(300 * mult):
        cases.append('CU %s %d' % (hexs(gen_password(rng)), gen_seed(rng)))
        stats['raw_client_up'] += 1

    # server: accepts exactly login(seed+1), answers login(seed-1)
    def sr(pw, s):
        up, down = doc_login(pw, s + 1), doc_login(pw, s - 1)
        k = rng.randrange(8)
        if k <= 2:
            pkt = up
        elif k == 3:
            pkt = up + bytes(rng.randrange(256) for _ in range(rng.randrange(1, 9)))
        elif k == 4:
            pkt = rng.choice([down, doc_login(pw, s)])
        elif k == 5:
            pkt = flip(up, rng)
        elif k == 6:
            pkt = up[:rng.choice([0, 1, 15])]
        else:
            pkt = bytes(rng.randrange(256) for _ in range(16))
        return 'SR %s %d %s' % (hexs(pw), s, hexs(pkt))

    # client: accepts exactly login(seed-1)
    def cr(pw, s):
        up, down = doc_login(pw, s + 1), doc_login(pw, s - 1)
        k = rng.randrange(8)
        if k <= 2:
            h = down
        elif k == 3:
            h = down + bytes(rng.randrange(256) for _ in range(rng.randrange(1, 9)))
        elif k == 4:
            h = rng.choice([up, doc_login(pw, s)])
        elif k == 5:
            h = flip(down, rng)
        elif k == 6:
            h = down[:rng.choice([0, 1, 15])]
        else:
            h = bytes(rng.randrange(256) for _ in range(16))
        return 'CR %s %d %s' % (hexs(pw), s, hexs(h))

    for s in BOUNDARY_SEEDS:
        pw = gen_password(rng)
        cases.append('SR %s %d %s' % (hexs(pw), s, hexs(doc_login(pw, s + 1))))
        cases.append('SR %s %d %s' % (hexs(pw), s, hexs(doc_login(pw, s - 1))))
        cases.append('CR %s %d %s' % (hexs(pw), s, hexs(doc_login(pw, s - 1))))
        cases.append('CR %s %d %s' % (hexs(pw), s, hexs(doc_login(pw, s + 1))))
        stats['raw_server'] += 2
        stats['raw_client_check'] += 2
    for _ in range(400 * mult):
        cases.append(sr(gen_password(rng), gen_seed(rng)))
        stats['raw_server'] += 1
    for _ in range(300 * mult):
        cases.append(cr(gen_password(rng), gen_seed(rng)))
        stats['raw_client_check'] += 1
    return cases, stats


# ---- implementation-level oracle -----------------------------------------------------------
def oracle(case, out):
    """None if the implementation's output is what the protocol document prescribes."""
    t = case.split(' ')
    if out == '<NO-OUTPUT>' or out.startswith(('BAD', 'UNKNOWN', 'NO-')):
        return 'no usable result: ' + out[:120]
    if t[0] == 'L':
        buflen, pw, s = int(t[1]), unh(t[2]), int(t[3])
        if buflen < 16:
            return None if out == 'UNTOUCHED' else 'output buffer of %d bytes was written: %s' % (buflen, out)
        if 'GUARD-VIOLATED' in out:
            return 'login_calculate wrote beyond 16 bytes'
        f = out.split(' ')
        if len(f) != 2:
            return 'unparsable result ' + out[:80]
        want = doc_login(pw, s)
        if unh(f[0]) != want:
            blk = unh(f[1]) if f[1] != 'NO-MD5-APPEND' else None
            if blk is not None and blk != doc_block(pw, s):
                diff = [i for i in range(min(len(blk), 32)) if blk[i] != doc_block(pw, s)[i]]
                return ('login response %s differs from MD5(pass32 xor 8 x challenge) = %s: the %d bytes hashed differ from '
                        'the documented block at offsets %s' % (f[0], want.hex(), len(blk), diff[:12] or 'length'))
            return 'login response %s differs from MD5(pass32 xor 8 x challenge) = %s although the hashed block is the documented one (MD5 itself)' % (f[0], want.hex())
        if f[1] != 'NO-MD5-APPEND' and unh(f[1]) != doc_block(pw, s):
            return 'bytes handed to MD5 differ from the documented block'
        return None
    if t[0] in ('M', 'M2'):
        msg = unh(t[-1])
        want = hashlib.md5(msg).hexdigest()
        return None if out == want else 'md5 of a %d-byte message is %s, RFC 1321 gives %s' % (len(msg), out, want)
    if t[0] == 'CU':
        pw, s = unh(t[1]), int(t[2])
        want = doc_login(pw, s + 1).hex()
        if out == want:
            return None
        other = 'login(challenge-1)' if out == doc_login(pw, s - 1).hex() else 'login(challenge)' if out == doc_login(pw, s).hex() else 'something else'
        return 'client raw login carries %s = %s, the document prescribes login(challenge+1) = %s' % (out, other, want)
    if t[0] == 'SR':
        pw, s, pkt = unh(t[1]), int(t[2]), unh(t[3])
        up, down = doc_login(pw, s + 1), doc_login(pw, s - 1)
        want = ('REPLY ' + down.hex()) if (len(pkt) >= 16 and pkt[:16] == up) else 'NONE'
        if out == want:
            return None
        return 'server raw login: got %r for a %s datagram, the document prescribes %r' % (
            out, 'login(challenge+1)' if pkt[:16] == up else 'login(challenge-1)' if pkt[:16] == down else 'non-matching', want)
    if t[0] == 'CR':
        pw, s, h = unh(t[1]), int(t[2]), unh(t[3])
        up, down = doc_login(pw, s + 1), doc_login(pw, s - 1)
        want = '%s %s' % (up.hex(), 'ACCEPT' if (len(h) >= 16 and h[:16] == down) else 'REJECT')
        if out == want:
            return None
        return 'client raw handshake: got %r for a server answer carrying %s, the document prescribes %r' % (
            out, 'login(challenge-1)' if h[:16] == down else 'login(challenge+1)' if h[:16] == up else 'a non-matching hash', want)
    return 'unknown case kind'


def san_summary(err):
    import re
    m = re.findall(r'(SUMMARY: [^\n]*|[^\n]*runtime error: [^\n]*|ERROR: AddressSanitizer[^\n]*)', err)
    return ' / '.join(list(dict.fromkeys(x.strip()[:200] for x in m))[:2]) if m else err[-300:]


def kind(case):
    return case.split(' ', 1)[0]


def nontrivial(case):
    t = case.split(' ')
    return t[-1] != '-' and not (t[0] == 'L' and t[2] == '-')


def ub_case(case):
    """raw-login cases in which the C evaluates seed+1 at INT_MAX or seed-1 at INT_MIN."""
    t = case.split(' ')
    if t[0] == 'CU':
        return int(t[2]) == UB_UP
    if t[0] in ('SR', 'CR'):
        return int(t[2]) in (UB_UP, UB_DOWN)
    return False


def run_sharded(exe, cases, workdir, tag, shards=16, timeout=1800):
    """Like vlib.parallel_run_cases, but every shard writes to its own file: with pipes the
    shards block on a full pipe until the parent gets to them, i.e. they run one after another
    (the extracted model prints about 1 MB per shard)."""
    import subprocess, time
    os.makedirs(workdir, exist_ok=True)
    n = len(cases)
    if n == 0:
        return 0, [], ''
    shards = max(1, min(shards, n // 200 + 1))
    size = (n + shards - 1) // shards
    env = dict(os.environ)
    env['ASAN_OPTIONS'] = 'detect_leaks=0:abort_on_error=0:halt_on_error=1'
    env['UBSAN_OPTIONS'] = 'print_stacktrace=1:halt_on_error=1'
    procs = []
    for i in range(shards):
        part = cases[i * size:(i + 1) * size]
        if not part:
            continue
        cp = os.path.join(workdir, '%s.%d.cases' % (tag, i))
        with open(cp, 'w') as f:
            f.write('\n'.join(part) + '\n')
        fo, fe = open(cp + '.out', 'wb'), open(cp + '.err', 'wb')
        p = subprocess.Popen(['bash', '-c', 'ulimit -s unlimited 2>/dev/null; exec "$0" "$1"', exe, cp], stdout=fo, stderr=fe, env=env)
        procs.append((p, len(part), cp, fo, fe))
    lines, rc, err = [], 0, ''
    deadline = time.time() + timeout
    for p, cnt, cp, fo, fe in procs:
        try:
            p.wait(timeout=max(1, deadline - time.time()))
        except subprocess.TimeoutExpired:
            p.kill()
            p.wait()
            rc = 124
            err += 'TIMEOUT in shard %s\n' % cp
        fo.close()
        fe.close()
        ls = open(cp + '.out', 'rb').read().decode('latin-1').split('\n')
        if ls and ls[-1] == '':
            ls.pop()
        if p.returncode not in (0, None):
            if rc == 0:
                rc = p.returncode
            err += open(cp + '.err', 'rb').read().decode('latin-1')[-3000:]
        if len(ls) < cnt:
            ls += ['<NO-OUTPUT>'] * (cnt - len(ls))
        lines += ls[:cnt]
    return rc, lines, err


def run_impl(ctx, exes, cases, tag):
    """Runs each case on the harness that handles its kind; returns (lines aligned with cases, problems)."""
    res = [None] * len(cases)
    problems = []
    for h in ('c19', 'c19cli', 'c19srv'):
        idx = [i for i, c in enumerate(cases) if HARNESS_OF.get(kind(c)) == h]
        if not idx:
            continue
        if h not in exes:
            for i in idx:
                res[i] = '<NO-OUTPUT>'
            continue
        rc, lines, err = run_sharded(exes[h], [cases[i] for i in idx], ctx.work, '%s.%s' % (tag, h))
        for i, l in zip(idx, lines):
            res[i] = l
        if rc != 0:
            bad = next((cases[i] for i, l in zip(idx, lines) if l == '<NO-OUTPUT>'), None)
            problems.append((h, rc, err, bad))
    for i, c in enumerate(cases):
        if res[i] is None:
            res[i] = 'UNKNOWN-CASE'
    return res, problems


def check(rep):
    hs = ('c19', 'c19cli', 'c19srv')
    ctx = vlib.prepare(rep, harnesses=hs, sanitize=True)
    cases, stats = gen_cases(rep.seed, rep.tier)
    rep.cov['rule'] = ('corpus first (tests/login.c vector, RFC 1321 suite); login_calculate: every boundary challenge '
                       '(0,1,2^31-1,2^31,2^32-1,...) x password lengths 0..40, single-bit challenges, one-byte changes at each of 40 '
                       'password offsets, random passwords (all byte values, NULs inside, >=0x80, 0xff, printable) x boundary/random '
                       'challenges, buflen 0..15; md5: every message length 0..200 + padding boundaries + split appends; raw login: '
                       'client send_raw_udp_login, server handle_raw_login and client handshake_raw_udp with matching, opposite-direction, '
                       'same-seed, bit-flipped, short, over-long and random hashes. Oracle: hashlib.md5 over the documented formula. '
                       'distinct = distinct case lines; non-trivial = non-empty password/message')
    rep.cov['input_distribution'] = stats
    rep.cov['evaluations'] = len(cases)
    rep.cov['distinct_nontrivial'] = len(set(c for c in cases if nontrivial(c)))
    rep.cov['samples'] = [c[:300] for c in (cases[0:2] + cases[400:402] + [c for c in cases if kind(c) == 'M'][100:101] +
                                            [c for c in cases if kind(c) == 'CU'][:1] + [c for c in cases if kind(c) == 'SR'][40:42] +
                                            [c for c in cases if kind(c) == 'CR'][40:42])]
    rep.cov['exhaustive'] = False
    rep.notes.append('observation (not counted as a violation): client.c:1284 / iodined.c:1939 evaluate seed + 1 and client.c:1505 / '
                     'iodined.c:1951 evaluate seed - 1 on a C int; at seed = INT_MAX resp. INT_MIN this is signed overflow (UBSan: '
                     '"2147483647 + 1 cannot be represented in type int").  gcc/x86-64 wraps, both peers then agree, and the plain build is '
                     'checked at those seeds; the sanitizer run leaves exactly those raw-login cases out.')
    rep.cov['trusted_base'] = rep.cov['trusted_base'] + [
        'hashlib.md5 (OpenSSL) as the implementation-level oracle, formula transcribed from doc/proto_00000502.txt',
        'link-time interposers (--wrap=md5_append, sendto, select, recvfrom, recv, time) pass data through unchanged',
        'C int seed+1 / seed-1 at INT_MAX / INT_MIN is signed overflow (undefined); gcc on x86-64 wraps, which the model states explicitly']
    impl = None
    if ctx.exe:
        impl, problems = run_impl(ctx, ctx.exe, cases, 'impl')
        for h, rc, err, bad in problems:
            ctx.broken.append(('impl-crash:' + h, 'implementation harness %s exited with %d on case %r: %s' % (h, rc, bad, err[-300:])))
        seen = set()
        for c, o in zip(cases, impl):
            if HARNESS_OF.get(kind(c)) not in ctx.exe or KEY_OF.get(kind(c)) in seen:
                continue
            why = oracle(c, o)
            if why:
                seen.add(KEY_OF.get(kind(c)))
                rep.add_violation(KEY_OF.get(kind(c), 'c19'), why, dict(kind='input', driver=HARNESS_OF[kind(c)], case=c, observed=o, expected=why))
        if ctx.san:
            sub = [c for c in cases if not ub_case(c)]
            sl, problems = run_impl(ctx, ctx.san, sub, 'san')
            rep.cov['sanitizer_cases'] = len(sub)
            rep.cov['sanitizer_excluded_signed_overflow_cases'] = len(cases) - len(sub)
            for h, rc, err, bad in problems:
                rep.add_violation('sanitizer:' + h, 'ASan/UBSan report in %s on case %r: %s' % (h, (bad or '?')[:120], san_summary(err)),
                                  dict(kind='input', driver=h + '.san', case=bad, observed=err[-3000:]))
    if ctx.model and impl is not None:
        import time
        t0 = time.time()
        rc, mod, err = run_sharded(ctx.model, cases, ctx.work, 'model')
        rep.cov['model_wall_s'] = round(time.time() - t0, 2)
        if rc != 0:
            ctx.broken.append(('model-crash', 'extracted model exited with %d: %s' % (rc, err[-300:])))
        d = vlib.first_diff(cases, impl, mod)
        rep.cov['traces_validated_against_impl'] = len(cases) if d is None else d
        if d is not None:
            ctx.broken.append(('correspondence', 'model and implementation disagree on case %r: impl=%r model=%r' % (
                cases[d][:300], impl[d][:200], mod[d][:200])))
    if not rep.violations:
        ctx.report_broken()
    return rep


def replay(rp):
    rep = vlib.Report('C19', 'quick', rp.get('seed', 1))
    case = rp.get('case')
    if not case:
        print('replay names a broken obligation, not an input:', rp.get('broken'))
        return 1
    h = HARNESS_OF.get(kind(case), 'c19')
    san = str(rp.get('driver', '')).endswith('.san')
    ctx = vlib.prepare(rep, harnesses=(h,), sanitize=san, prove_it=False)
    cp = os.path.join(ctx.work, 'replay.cases')
    open(cp, 'w').write(case + '\n')
    rc, impl, err = vlib.run_cases(ctx.exe[h], cp) if h in ctx.exe else (1, [], 'harness does not build')
    rc2, mod, err2 = vlib.run_cases(ctx.model, cp) if ctx.model else (0, ['-'], '')
    print('case :', case[:400])
    print('impl :', impl[0][:300] if impl else err)
    print('model:', mod[0][:300] if mod else err2)
    why = oracle(case, impl[0]) if impl else 'crash'
    print('oracle:', why or 'ok')
    if san and h in ctx.san:
        rc3, sl, err3 = vlib.run_cases(ctx.san[h], cp)
        print('sanitizer build: exit %d %s' % (rc3, san_summary(err3) if rc3 else 'clean'))
        if rc3:
            why = why or 'sanitizer report'
    return 1 if why else 0
