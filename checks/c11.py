"""C11 -- automatic negotiation only selects settings that actually work on the path.
Proof (partial: decision logic + alphabet coverage): coq/Properties_C11.v (Relay.v, Negotiate.v,
NegotiateProofs.v).  The retry / time-out sequencing of the handshake is validated here only.

Runs: the REAL client_handshake followed by real tunnelling of random packets both ways against
the REAL server in one process (harness/h_handshake.c), through an in-path relay from the family
  {query names: case keep/lower/upper/random x 8-bit clean/strip/reject x punct keep/mangle '+'/'_'}
  x {answer names+text: the same 36} x {allowed record types: non-empty prefixes of the "served
  most widely first" order A,CNAME,MX,SRV,TXT,PRIVATE,NULL and of the client's preference order}
  x {answer size limit none/4096/1232/512} x {EDNS0 honoured or not},
for autodetected and forced -T / -O, raw UDP possible or not.

Oracle on the implementation (written from the property text and the relay parameters, not from
the model):
  (i)   rv = 0  =>  every offered packet was delivered intact, both ways;
  (ii)  the path passes Base32 names and >= 512-byte answers for an allowed record type the
        server supports (every family member does; for forced -T the type must be allowed, for
        forced -O the forced codec must survive the answer side)  =>  rv = 0;
  (iii) deterministic members: (rv, qtype, upstream codec, downstream codec, EDNS0, raw/DNS,
        server-side fragment size) = the prediction of the extracted Negotiate.negotiate.
"""
import os, itertools, collections, subprocess, time
from concurrent.futures import ThreadPoolExecutor
import vlib
import mainlib

HS = vlib.tu_harness(['hmain.c', 'h_handshake.c', 'wire_net.c', 'wire_srv.c', 'wire_cli.c'], 'server',
                     ['sendto', 'recvfrom', 'recv', 'recvmsg', 'time', 'write_tun', 'read_tun', 'system', 'rand', 'sleep',
                      'select', 'errx', 'err', 'exit'])
HS['repo'] = vlib.COMMON_SRCS + ['user.c', 'fw_query.c', 'util.c']

TYPES = [10, 65399, 16, 33, 15, 5, 1]           # NULL PRIVATE TXT SRV MX CNAME A (client preference order = mask bit order)
TNAME = {10: 'NULL', 65399: 'PRIVATE', 16: 'TXT', 33: 'SRV', 15: 'MX', 5: 'CNAME', 1: 'A', 65432: 'UNSET'}
MASKS_SERVED_FIRST = [0x40, 0x60, 0x70, 0x78, 0x7c, 0x7e, 0x7f]
MASKS_PREFERRED_FIRST = [0x01, 0x03, 0x07, 0x0f, 0x1f, 0x3f, 0x7f]
MASKS = MASKS_SERVED_FIRST + MASKS_PREFERRED_FIRST[:-1]
LIMITS = [0, 4096, 1232, 512]
LETTERS = [84, 83, 85, 86, 82]                  # T S U V R
XF = list(itertools.product(range(4), range(3), range(3)))      # (case, 8-bit, punct)

KEY_PLUS_RAW = 'downenc-raw-txt-plus-mangle'
KEY_FORCED_REJECT = 'forced-raw-8bit-reject-tiny-fragsize'
KEY_FORCED_BROKEN = 'forced-downenc-broken-codec-small-fragsize'
KEY_LUCKY = 'forced-downenc-lucky-tiny-probe'


class Case:
    __slots__ = ('seed', 'q', 'a', 'mask', 'limit', 'edns', 'rawok', 'qtype', 'downenc', 'lazy', 'rawmode', 'autofrag',
                 'fragsize', 'maxlen', 'npkts', 'block', 'occupied')

    def __init__(self, seed, q, a, mask, limit, edns, rawok=0, qtype=0, downenc=32, lazy=1, rawmode=0, autofrag=1, fragsize=0,
                 maxlen=255, npkts=3, block='auto', occupied=0):
        self.occupied = occupied
        self.seed, self.q, self.a, self.mask, self.limit, self.edns = seed, q, a, mask, limit, edns
        self.rawok, self.qtype, self.downenc, self.lazy, self.rawmode = rawok, qtype, downenc, lazy, rawmode
        self.autofrag, self.fragsize, self.maxlen, self.npkts, self.block = autofrag, fragsize, maxlen, npkts, block

    def line(self):
        return 'G %d %d %d %d %d %d %d %d %d %d %d 0 %d %d %d %d %d %d %d %d%s' % (
            self.seed, self.q[0], self.q[1], self.q[2], self.a[0], self.a[1], self.a[2], self.mask, self.limit, self.edns,
            self.rawok, self.qtype, self.downenc, self.lazy, self.rawmode, self.autofrag, self.fragsize, self.maxlen, self.npkts,
            '/%d' % self.occupied if self.occupied else '')

    def model_key(self):
        """the part of the case the model's prediction depends on"""
        return 'G 0 %d %d %d %d %d %d %d %d %d %d 0 %d %d 0 %d %d %d %d 0' % (
            self.q[0], self.q[1], self.q[2], self.a[0], self.a[1], self.a[2], self.mask, self.limit, self.edns,
            self.rawok, self.qtype, self.downenc, self.rawmode, self.autofrag, self.fragsize, self.maxlen)

    def deterministic(self):
        return self.q[0] != 3 and self.a[0] != 3


def parse_case(line):
    v = line.split()
    occ = 0
    if '/' in v[-1]:
        v[-1], o = v[-1].split('/')
        occ = int(o)
    n = [int(x) for x in v[1:]]
    return _with_occupied(occ, Case(n[0], tuple(n[1:4]), tuple(n[4:7]), n[7], n[8], n[9], n[10], n[12], n[13], n[14], n[15], n[16], n[17], n[18],
                n[19] if len(n) > 19 else 0, 'replay'))


def _with_occupied(occ, c):
    c.occupied = occ
    return c


# ---- the relay, re-stated independently (h_handshake.c xform) for the oracle's predicates -------
def xform(c, x):
    cs, e8, pu = x
    if c >= 0x80:
        if e8 == 2:
            return None
        if e8 == 1:
            c &= 0x7f
    if pu == 1 and c == 0x2b:
        c = 0x2d
    if pu == 2 and c == 0x5f:
        c = 0x2d
    if cs == 1 and 0x41 <= c <= 0x5a:
        c += 32
    elif cs == 2 and 0x61 <= c <= 0x7a:
        c -= 32
    return c


LOWER = list(range(0x61, 0x7b))
UPPER = list(range(0x41, 0x5b))
DIGITS = list(range(0x30, 0x3a))
WIRE = {84: LOWER + list(range(0x30, 0x36)), 83: LOWER + UPPER + DIGITS + [0x2d, 0x2b], 85: LOWER + UPPER + DIGITS + [0x2d, 0x5f],
        86: LOWER + UPPER + DIGITS + list(range(188, 254)), 82: list(range(256))}


def survives(letter, ty, x):
    """does downstream codec `letter` carried by record type ty survive answer transformer x?
    (random case: only the case-insensitive Base32 and binary records are safe)"""
    if ty in (10, 65399):
        return True
    if letter in (32, 84) or (letter == 82 and ty != 16):
        return True                     # Base32 text: no 8-bit, no punctuation, decoded case-insensitively
    if x[0] == 3:
        return False
    return all(xform(c, x) == c for c in WIRE[letter])


def best_type(c):
    """first allowed type in the client's preference order that the server's 'Y' handler serves"""
    for i, t in enumerate(TYPES):
        if c.mask & (1 << i) and t != 65399:
            return t
    return None


def must_succeed(c):
    """(ii): the parameters promise a working Base32 path for the requested settings"""
    if c.qtype == 0:
        ty = best_type(c)
        if ty is None:
            return False
    else:
        ty = c.qtype
        if not c.mask & (1 << TYPES.index(ty)):
            return False
    if c.rawmode and c.rawok:
        return True
    if c.downenc != 32 and not survives(c.downenc, ty, c.a):
        return False
    return True


def effective_type(c):
    return best_type(c) if c.qtype == 0 else c.qtype


def plus_raw_member(c):
    """the known exception: answers {case keep, 8-bit clean, mangle '+'}, TXT selected, -O autodetected"""
    return c.downenc == 32 and c.a == (0, 0, 1) and effective_type(c) == 16 and not (c.rawmode and c.rawok)


def parse_out(o):
    f = o.split()
    if not f or f[0] == 'BAIL' or not f[0].lstrip('-').isdigit():
        return None
    kv = dict(x.split('=', 1) for x in f[1:] if '=' in x)
    r = dict(rv=int(f[0]), kv=kv, up=None, down=None)
    if '|' in f:
        i = f.index('|')
        r['up'] = tuple(int(x) for x in f[i + 2].split('/'))
        r['down'] = tuple(int(x) for x in f[i + 4].split('/'))
    return r


def oracle(c, out):
    """returns (key, text) of a violation of (i)/(ii), or None"""
    r = parse_out(out)
    cls = 'T=%s O=%s' % ('auto' if c.qtype == 0 else TNAME.get(c.qtype, c.qtype), 'auto' if c.downenc == 32 else chr(c.downenc))
    if r is None:
        return ('handshake-aborted', 'client_handshake did not return (%s) for %s' % (out[:80], cls))
    kv = r['kv']
    if r['rv'] == 0:
        lost = (r['up'] is None or r['up'][0] != r['up'][1] or r['down'] is None or r['down'][0] != r['down'][1]) and c.npkts > 0
        if lost:
            what = ('handshake returned 0 with qtype=%s up=%s down=%s srvfrag=%s but packets were lost: up %s down %s (%s)' % (
                TNAME.get(int(kv.get('qtype', 0)), kv.get('qtype')), kv.get('up'), kv.get('down'), kv.get('srvfrag'), r['up'], r['down'], cls))
            if plus_raw_member(c) and kv.get('down') == 'R':
                return (KEY_PLUS_RAW, what)
            if c.downenc != 32:
                ty = int(kv.get('qtype', 0))
                if c.downenc == 82 and ty == 16 and c.a[1] == 2:
                    return (KEY_FORCED_REJECT, what)
                if not survives(c.downenc, ty, c.a):
                    # partial alteration (drops or random flips): a 3-4 byte probe can pass by luck
                    if c.a[0] == 3 or c.a[1] == 2:
                        return (KEY_LUCKY, what)
                    return (KEY_FORCED_BROKEN, what)
            return ('negotiated-settings-lose-packets', what)
        return None
    if must_succeed(c):
        what = 'handshake failed (rv=%d, qtype=%s up=%s down=%s) on a path that passes Base32 for an allowed type (%s)' % (
            r['rv'], TNAME.get(int(kv.get('qtype', 0)), kv.get('qtype')), kv.get('up'), kv.get('down'), cls)
        if plus_raw_member(c) and kv.get('down') == 'R':
            return (KEY_PLUS_RAW, what)
        return ('fallback-failed', what)
    return None


def comparable(c):
    """(iii) applies: the downstream codec, if forced, is intact on the path (otherwise the outcome
    depends on the server's random probe bytes).  Random-case members are predicted with the oracle
    that flips every letter (a real test without a visible flip has probability < 2^-30)."""
    if plus_raw_member(c):
        return False
    ty = effective_type(c)
    if ty is None or (c.qtype and not c.mask & (1 << TYPES.index(ty))):
        return True
    if c.downenc != 32 and not survives(c.downenc, ty, c.a):
        return False
    return True


def impl_view(out):
    r = parse_out(out)
    if r is None:
        return ('BAIL',)
    kv = r['kv']
    return (r['rv'], kv.get('qtype'), kv.get('up'), kv.get('down'), kv.get('edns'), kv.get('conn'),
            kv.get('srvfrag') if r['rv'] == 0 else '-')


def model_view(out):
    f = out.split()
    if not f or not f[0].isdigit():
        return ('MODEL?', out[:60])
    kv = dict(x.split('=', 1) for x in f[1:] if '=' in x)
    rv = int(f[0])
    return (rv, kv.get('qtype'), kv.get('up'), kv.get('down'), kv.get('edns'), kv.get('conn'), kv.get('frag') if rv == 0 else '-')


# ---- case generation ----------------------------------------------------------------------------
def pairwise(rng, doms, tries=40):
    """greedy pairwise covering array over the value lists doms"""
    need = set()
    for i, j in itertools.combinations(range(len(doms)), 2):
        for a in doms[i]:
            for b in doms[j]:
                need.add((i, a, j, b))
    rows = []
    while need:
        best, bestn = None, -1
        for _ in range(tries):
            row = [rng.choice(d) for d in doms]
            # seed the candidate with one uncovered pair
            i, a, j, b = rng.choice(sorted(need)) if rng.random() < 0.7 else (0, row[0], 1, row[1])
            row[i], row[j] = a, b
            n = sum(1 for (i2, j2) in itertools.combinations(range(len(doms)), 2) if (i2, row[i2], j2, row[j2]) in need)
            if n > bestn:
                best, bestn = row, n
        rows.append(best)
        for (i2, j2) in itertools.combinations(range(len(doms)), 2):
            need.discard((i2, best[i2], j2, best[j2]))
    return rows


def gen_cases(seed, tier):
    rng = vlib.rng_for(seed, 'c11')
    cases = []
    stats = collections.Counter()
    npk = 3

    def add(block, **kw):
        c = Case(rng.randrange(1, 1 << 30), block=block, npkts=npk, **kw)
        cases.append(c)
        stats[block] += 1

    cp = os.path.join(vlib.VERIF, 'corpus', 'C11')
    if os.path.isdir(cp):
        for fn in sorted(os.listdir(cp)):
            for l in open(os.path.join(cp, fn)):
                l = l.strip()
                if l.startswith('G '):
                    c = parse_case(l)
                    c.block = 'corpus'
                    cases.append(c)
                    stats['corpus'] += 1
    ident = (0, 0, 0)
    if tier == 'quick':
        doms = [list(range(4)), list(range(3)), list(range(3)), list(range(4)), list(range(3)), list(range(3)), MASKS, LIMITS, [0, 1]]
        for row in pairwise(rng, doms):
            add('auto-pairwise', q=tuple(row[0:3]), a=tuple(row[3:6]), mask=row[6], limit=row[7], edns=row[8])
        # every member of each side against the transparent other side, TXT resp. host-name types best
        for x in XF:
            add('auto-each-query-side', q=x, a=ident, mask=rng.choice(MASKS), limit=rng.choice(LIMITS), edns=rng.randrange(2))
            add('auto-each-answer-side', q=ident, a=x, mask=rng.choice([0x7c, 0x7e, 0x78, 0x60]), limit=rng.choice(LIMITS), edns=rng.randrange(2))
        forced_members = [ident, (0, 1, 1), (1, 2, 2), (2, 0, 0), (0, 0, 1), (0, 2, 0), (3, 0, 0)]
        mask_of = lambda: rng.choice([0x7f, 0x7c, 0x70, 0x60])
        lims = [0, 512]
    else:
        k = 0
        nonull = MASKS_SERVED_FIRST[:-1]        # NULL (binary RDATA, untouched by the relay) not served: the answer side matters
        for q in XF:
            for a in XF:
                # 4 paths per pair of members: two without NULL, one with NULL, one from the whole list
                add('auto-all-members', q=q, a=a, mask=nonull[k % 6], limit=LIMITS[(k + k // 4) % 4], edns=k % 2)
                add('auto-all-members', q=q, a=a, mask=nonull[(k // 6 + 3) % 6], limit=LIMITS[(k + 2 + k // 4) % 4], edns=(k + 1) % 2)
                add('auto-all-members', q=q, a=a, mask=MASKS_PREFERRED_FIRST[k % 7], limit=LIMITS[(k + 1 + k // 4) % 4], edns=(k // 2) % 2)
                add('auto-all-members', q=q, a=a, mask=MASKS[(k * 5 + 2) % len(MASKS)], limit=LIMITS[(k + 3 + k // 4) % 4], edns=(k // 3) % 2)
                k += 1
        # every mask x limit x edns on a few members
        for x in (ident, (1, 1, 1), (2, 2, 2), (0, 2, 1), (3, 1, 2)):
            for m in MASKS:
                for lim in LIMITS:
                    for ed in (0, 1):
                        add('auto-all-paths', q=x, a=x, mask=m, limit=lim, edns=ed)
        forced_members = [x for x in XF]
        mask_of = lambda: rng.choice([0x7f, 0x7e, 0x7c, 0x78, 0x70, 0x60, 0x40])
        lims = LIMITS
    # forced -T (each of the 7 types), -O autodetected
    for t in TYPES:
        for x in forced_members:
            add('forced-T', q=rng.choice(XF) if tier != 'quick' else ident, a=x, mask=rng.choice([0x7f, 1 << TYPES.index(t), 0x7f & ~(1 << TYPES.index(t))]),
                limit=rng.choice(lims), edns=rng.randrange(2), qtype=t)
    # forced -O (each letter), -T autodetected and forced
    for l in LETTERS:
        for x in forced_members:
            add('forced-O', q=ident if tier == 'quick' else rng.choice(XF), a=x, mask=mask_of(), limit=rng.choice(lims), edns=rng.randrange(2), downenc=l)
            add('forced-T-O', q=ident, a=x, mask=0x7f, limit=rng.choice(lims), edns=rng.randrange(2), downenc=l, qtype=rng.choice(TYPES))
    # raw UDP mode requested, possible or not
    for x in forced_members[:7]:
        for rawok in (0, 1):
            add('raw-mode', q=x, a=x, mask=rng.choice(MASKS), limit=rng.choice(lims), edns=rng.randrange(2), rawmode=1, rawok=rawok)
    # the client is not the first one: user ids 9, 10, 15 (written as a hex digit in data queries) behind relays that rewrite letter case
    for occ in (9, 10, 12, 15):
        for qc in (0, 1, 2, 3):
            add('high-userid', q=(qc, 0, 0), a=rng.choice([ident, (1, 0, 0), (2, 0, 0)]), mask=rng.choice([0x7f, 0x7c, 0x60]), limit=rng.choice(lims),
                edns=rng.randrange(2), occupied=occ)
    # other command-line settings: legacy (non-lazy) mode, shorter query names, given fragment size
    for x in forced_members[:7]:
        add('options', q=x, a=x, mask=rng.choice(MASKS), limit=rng.choice(lims), edns=rng.randrange(2), lazy=0)
        # (likewise upstream: 16 fragments of a Base32 name must carry a 1250-byte compressed packet: -M >= ~150)
        add('options', q=x, a=x, mask=rng.choice(MASKS), limit=rng.choice(lims), edns=rng.randrange(2), maxlen=rng.choice([180, 200, 230]))
        # (a packet needs <= 16 fragments: -m below ~80 cannot carry the 1240-byte test packets whatever the path)
        # ... and a given -m must be a size the record type the path leads to can carry at all: one host name (CNAME / A answers) holds
        # about 180 bytes in Base64 and 150 in Base32, so 200 is only given where a multi-name or binary type is served
        mk = rng.choice(MASKS)
        fs = rng.choice([100, 130, 200])
        if mk & 0x1f == 0 and fs > 130:
            fs = 130
        add('options', q=x, a=x, mask=mk, limit=0, edns=1, autofrag=0, fragsize=fs)
    return cases, dict(stats)


# ---- running --------------------------------------------------------------------------------------
def run_pool(exe, lines, workdir, tag, chunk=24, workers=16, timeout=1500):
    """runs case lines in chunks on a pool of processes; returns (rc, result lines, stderr tail)"""
    os.makedirs(workdir, exist_ok=True)
    chunks = [lines[i:i + chunk] for i in range(0, len(lines), chunk)]
    res = [None] * len(chunks)
    errs = []
    rcs = []

    def one(i):
        cp = os.path.join(workdir, '%s.%d.cases' % (tag, i))
        with open(cp, 'w') as f:
            f.write('\n'.join(chunks[i]) + '\n')
        try:
            p = subprocess.run(['bash', '-c', 'ulimit -s unlimited 2>/dev/null; exec "$0" "$1"', exe, cp], stdout=subprocess.PIPE,
                               stderr=subprocess.PIPE, timeout=timeout)
            out = p.stdout.decode('latin-1').split('\n')
            rc = p.returncode
            err = p.stderr.decode('latin-1')[-1500:]
        except subprocess.TimeoutExpired:
            out, rc, err = [], 124, 'TIMEOUT'
        if out and out[-1] == '':
            out.pop()
        if len(out) < len(chunks[i]):
            out += ['<NO-OUTPUT>'] * (len(chunks[i]) - len(out))
        res[i] = out[:len(chunks[i])]
        if rc != 0:
            rcs.append(rc)
            errs.append(err)
    with ThreadPoolExecutor(max_workers=workers) as ex:
        list(ex.map(one, range(len(chunks))))
    flat = [l for r in res for l in r]
    return (rcs[0] if rcs else 0), flat, '\n'.join(errs)[-3000:]


def check(rep):
    ctx = vlib.prepare(rep, harnesses={'hs': HS, 'climain': mainlib.CLIMAIN}, sanitize=False)
    cases, stats = gen_cases(rep.seed, rep.tier)
    lines = [c.line() for c in cases]
    rep.cov['rule'] = ('G cases (fuzz = 0) of harness/h_handshake.c: quick = pairwise covering array over {query case, 8-bit, punct, answer case, '
                       '8-bit, punct, type mask (13 prefix sets), size limit (4), EDNS0} + each of the 36 members on either side + forced -T '
                       '(7 types) / forced -O (5 letters) / raw mode / legacy mode / -M / -m blocks; thorough = all 36 x 36 members x 4 '
                       '(mask, limit, edns) combinations, all paths on 5 members, forced blocks over all 36 answer-side members. Oracle (i)/(ii) '
                       'on the real client; (iii) model prediction on deterministic members. distinct = distinct case lines; non-trivial = '
                       'relay not the identity or non-default options')
    rep.cov['input_distribution'] = stats
    rep.cov['evaluations'] = len(cases)
    rep.cov['distinct_nontrivial'] = len(set(l for c, l in zip(cases, lines)
                                             if c.q != (0, 0, 0) or c.a != (0, 0, 0) or c.mask != 0x7f or c.limit or c.qtype or c.downenc != 32))
    rep.cov['samples'] = lines[:3] + lines[len(lines) // 2:len(lines) // 2 + 3] + lines[-3:]
    rep.cov['exhaustive'] = False
    rep.cov['claim'] = ('proof, partial: decision logic (Negotiate.v) + alphabet coverage of the source test patterns over the relay family + '
                        'payload survival via C07 proved; retry/time-out sequencing, lazy/raw sub-handshakes and the message-level meaning of '
                        'bounce/downcheck/probe validated by these runs only; answer-size monotonicity is hypothesis C09_size_monotone '
                        '(proved here for NULL/PRIVATE)')
    rep.cov['trusted_base'] = rep.cov['trusted_base'] + [
        'harness/h_handshake.c relay (character-wise xform; NOTIMP for refused types; size limit; OPT stripping), virtual clock, select hook',
        'tools/gen_consts.py c11_constants anchors (test patterns, chain structure, switch numbering, autoprobe constants, probe pattern)']
    rep.assumptions.append('relay family = h_handshake.c semantics (8-bit, then punctuation, then case, per label/text byte; NULL/PRIVATE RDATA, '
                           'question section and length bytes untouched)')
    rep.notes.append('outside the property\'s type sets: a path that serves ONLY type PRIVATE never negotiates (server \'Y\' handler serves '
                     'codec R only for NULL/TXT, iodined.c handle_null_request), forced -T PRIVATE works; C11_fallback carries the '
                     'hypothesis "some served type other than PRIVATE"')
    if ctx.consts is not None and 'C11_ERROR' in (ctx.consts or {}):
        ctx.broken.append(('translator:c11', 'handshake decision structure no longer matches the model: ' + ctx.consts['C11_ERROR']))
    impl = None
    if 'hs' in ctx.exe:
        t0 = time.time()
        # corpus cases (witnesses of the listed findings, whose outcome depends on the server's rand()
        # sequence) each run in a fresh process; the generated cases in chunks
        ncorp = sum(1 for c in cases if c.block == 'corpus')
        rc0, impl0, err0 = run_pool(ctx.exe['hs'], lines[:ncorp], ctx.work, 'corpus', chunk=1) if ncorp else (0, [], '')
        rc, impl, err = run_pool(ctx.exe['hs'], lines[ncorp:], ctx.work, 'impl', chunk=60)
        impl = impl0 + impl
        rc, err = (rc0 or rc), (err0 + err)
        rep.cov['impl_wall_s'] = round(time.time() - t0, 2)
        if rc != 0:
            bad = next((l for l, o in zip(lines, impl) if o == '<NO-OUTPUT>'), None)
            rep.add_violation('impl-crash', 'handshake harness exited with %d on case %r: %s' % (rc, bad, err[-300:]),
                              dict(kind='input', case=bad, observed=err[-2000:]))
        dist = collections.Counter()
        frag = collections.Counter()
        okc = failc = 0
        seen = {}
        for c, l, o in zip(cases, lines, impl):
            r = parse_out(o)
            if r is not None:
                kv = r['kv']
                if r['rv'] == 0:
                    okc += 1
                    dist['%s/%s/%s%s' % (TNAME.get(int(kv['qtype']), kv['qtype']), kv['up'], kv['down'], '' if kv.get('conn') == '1' else '/rawudp')] += 1
                    f = int(kv.get('srvfrag', 0))
                    frag['<100' if f < 100 else '100-199' if f < 200 else '200-511' if f < 512 else '512-1199' if f < 1200 else '>=1200'] += 1
                else:
                    failc += 1
            v = oracle(c, o)
            if v:
                key, what = v
                seen.setdefault(key, 0)
                seen[key] += 1
                if seen[key] == 1:
                    rep.add_violation(key, what + '; case: ' + l, dict(kind='input', case=l, observed=o, block=c.block))
        rep.cov['negotiated_distribution'] = dict(dist.most_common())
        rep.cov['fragsize_distribution'] = dict(frag)
        rep.cov['handshakes_ok'] = okc
        rep.cov['handshakes_failed'] = failc
        rep.cov['oracle_hits'] = seen
        # the PRIVATE-only observation (evidence note only)
        pl = 'G 1 0 0 0 0 0 0 2 0 1 0 0 0 32 1 0 1 0 255 1'
        _, po, _ = run_pool(ctx.exe['hs'], [pl], ctx.work, 'private', chunk=1)
        rep.notes.append('PRIVATE-only path: %s -> %s' % (pl, po[0] if po else '?'))
    if ctx.model and impl is not None:
        t0 = time.time()
        idx = [i for i, c in enumerate(cases) if comparable(c)]
        keys = sorted(set(cases[i].model_key() for i in idx))
        rc, mout, err = run_pool(ctx.model, keys, ctx.work, 'model', chunk=6)
        rep.cov['model_wall_s'] = round(time.time() - t0, 2)
        rep.cov['model_evaluations'] = len(keys)
        if rc != 0:
            ctx.broken.append(('model-crash', 'extracted model exited with %d: %s' % (rc, err[-300:])))
        pred = dict(zip(keys, mout))
        agree = 0
        first = None
        for i in idx:
            iv = impl_view(impl[i])
            mv = model_view(pred[cases[i].model_key()])
            if iv == mv:
                agree += 1
            elif first is None:
                first = (lines[i], impl[i], pred[cases[i].model_key()], iv, mv)
        rep.cov['traces_validated_against_impl'] = agree
        rep.cov['model_comparable_cases'] = len(idx)
        if first is not None:
            l, io, mo, iv, mv = first
            text = ('negotiated settings differ from the model prediction on a deterministic member: case %r impl=%r model=%r (%d of %d '
                    'comparable cases disagree)' % (l, iv, mv, len(idx) - agree, len(idx)))
            # a disagreement is a concrete input: the real client does something the proved decision logic does not
            rep.add_violation('model-mismatch', text, dict(kind='input', case=l, observed=io, expected=mo))
    second_session_stage(rep, ctx)
    mainlib.settings_stage(rep, ctx)
    if not rep.violations:
        ctx.report_broken()
    return rep


def second_session_stage(rep, ctx):
    """GG cases: a first client negotiates over one path and falls silent; 61+ s later the server hands its slot to a second
    client that negotiates over ANOTHER path.  What the second client settles on must survive its path exactly as if the
    server were fresh: same oracle (i)/(ii) and same model prediction as for the G case of the second session alone."""
    if 'hs' not in ctx.exe:
        return
    rng = vlib.rng_for(rep.seed, 'c11-second')
    ident = (0, 0, 0)
    n = 24 if rep.tier == 'quick' else 240
    firsts, seconds = [], []
    for k in range(n):
        # first session: a clean or nearly clean path (ends on the highest codecs), sometimes a forced type / codec
        a = Case(rng.randrange(1, 1 << 30), q=ident, a=ident, mask=rng.choice([0x7f, 0x7e, 0x7c, 0x60]), limit=rng.choice([0, 4096]),
                 edns=1, qtype=rng.choice([0, 0] + TYPES), downenc=rng.choice([32, 32] + list(LETTERS)), npkts=1, block='second-session')
        # second session: a restrictive path on the query side and/or the answer side
        b = Case(rng.randrange(1, 1 << 30), q=rng.choice([(1, 0, 0), (2, 0, 0), (1, 1, 1), (0, 1, 0), (1, 2, 2), (0, 0, 1), ident]),
                 a=rng.choice([ident, (1, 1, 1), (2, 0, 0), (0, 1, 0), (1, 2, 2)]), mask=rng.choice(MASKS), limit=rng.choice(LIMITS),
                 edns=rng.randrange(2), npkts=3, block='second-session')
        if not b.deterministic():
            continue
        firsts.append(a)
        seconds.append(b)
    lines = ['GG' + a.line()[1:] + b.line()[1:] for a, b in zip(firsts, seconds)]
    rc, impl, err = run_pool(ctx.exe['hs'], lines, ctx.work, 'second', chunk=4)
    if rc != 0:
        bad = next((l for l, o in zip(lines, impl) if o == '<NO-OUTPUT>'), None)
        rep.add_violation('impl-crash', 'handshake harness exited with %d on case %r: %s' % (rc, bad, err[-300:]),
                          dict(kind='input', case=bad, observed=err[-2000:]))
    # the same second sessions alone on a fresh server (reference of the implementation itself) and in the model
    rc1, alone, err1 = run_pool(ctx.exe['hs'], [b.line() for b in seconds], ctx.work, 'second-alone', chunk=8)
    pred = {}
    if ctx.model:
        keys = sorted(set(b.model_key() for b in seconds if comparable(b)))
        rc2, mout, err2 = run_pool(ctx.model, keys, ctx.work, 'second-model', chunk=6)
        pred = dict(zip(keys, mout))
    okc = 0
    for a, b, l, o, oa in zip(firsts, seconds, lines, impl, alone):
        v = oracle(b, o)
        if v and not oracle(b, oa):
            key, what = v
            rep.add_violation('second-session:' + key, 'second client on a slot the server took back from a silent first client: ' + what +
                              '; alone on a fresh server the same session is fine (%s); case: %s' % (oa[:120], l),
                              dict(kind='input', case=l, observed=o, expected=oa, block='second-session'))
            break
        if comparable(b) and b.model_key() in pred:
            iv, mv = impl_view(o), model_view(pred[b.model_key()])
            if iv != mv and impl_view(oa) == mv:
                rep.add_violation('second-session:model-mismatch', 'second client on a re-used slot negotiates %r, the model (and the same session '
                                  'on a fresh server) %r; case: %s' % (iv, mv, l), dict(kind='input', case=l, observed=o, expected=pred[b.model_key()]))
                break
        r = parse_out(o)
        if r is not None and r['rv'] == 0:
            okc += 1
    rep.cov['second_session'] = dict(cases=len(lines), handshakes_ok=okc)
    rep.cov['evaluations'] = rep.cov.get('evaluations', 0) + 2 * len(lines)
    rep.cov['rule'] += ('. Second-session stage: %d GG cases -- a first client over a clean path (highest codecs) falls silent, the clock passes '
                        'the 60 s slot time-out, a second client negotiates over a restrictive path on the SAME server: oracle (i)/(ii) and the '
                        'model prediction of the second session alone must hold' % len(lines))


def replay(rp):
    rep = vlib.Report('C11', 'quick', rp.get('seed', 1))
    case = rp.get('case')
    if not case:
        print('replay names a broken obligation, not an input:', rp.get('broken'))
        return 1
    ctx = vlib.prepare(rep, harnesses={'hs': HS}, sanitize=False, prove_it=False)
    c = parse_case(case)
    if 'hs' not in ctx.exe:
        print('harness does not build')
        return 1
    _, impl, err = run_pool(ctx.exe['hs'], [case], ctx.work, 'replay', chunk=1)
    mod = ['-']
    if ctx.model:
        _, mod, _ = run_pool(ctx.model, [c.model_key()], ctx.work, 'replaym', chunk=1)
    print('case :', case)
    print('impl :', impl[0] if impl else err)
    print('model:', mod[0] if mod else '-')
    v = oracle(c, impl[0]) if impl else ('crash', 'crash')
    if not v and comparable(c) and ctx.model and impl_view(impl[0]) != model_view(mod[0]):
        v = ('model-mismatch', 'impl %r model %r' % (impl_view(impl[0]), model_view(mod[0])))
    print('oracle:', v or 'ok')
    return 1 if v else 0
