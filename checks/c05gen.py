"""c05gen.py -- hostile server histories for C05 (server survives arbitrary datagrams).

Built on srvlib.HistGen (same history line format, same light client emulation): 1-3 healthy
"guardian" sessions in assorted handshake / transfer states whose life cycle the generator
tracks exactly (slot number, challenge, address, last accepted packet), interleaved with a
hostile stream made of the classes listed in CLASSES.  Every event carries a class label, and
"probe" pairs (two healthy pings of an established guardian, back to back) mark where the
liveness oracle of checks/c05.py looks.  The generator only builds inputs."""
import os
import vlib
import srvlib
from srvlib import enc, dotify, dns_query, login_stub, b32c, rand_after_seed

RAWHDR = bytes([0x10, 0xd1, 0x9e])
HUGE = [500, 4096, 65000, 65535, 65536]
QTYPES_ALL = srvlib.HistGen.QTYPES + [2, 28, 255]
LETTERS = bytes(range(65, 91)) + bytes(range(97, 123))
DLEN_BOUNDS = [1, 2, 3, 4, 5, 6, 7, 15, 16, 17, 18]
CMD_CHARS = b'vlisoyrnpz0a'          # one representative per handler (data: '0', 'a')
MAXLINE_SAFE = 900000
N_QUICK = 150
# tun packets shorter than 24 bytes and upstream packets that uncompress to fewer than 24 bytes: tunnel_tun() /
# handle_full_packet() look at the IPv4 destination (bytes 20..23 of the buffer) whatever the length is
SHORT_PKTS = True
SKIP_CLASSES = set(x for x in os.environ.get('C05_SKIP_CLASSES', '').split(',') if x)   # development aid, recorded in the evidence
STATES = ['pre_version', 'versioned', 'logged_in', 'codec_switched', 'lazy', 'mid_upstream', 'downstream_pending', 'raw']
PROBEABLE = ('logged_in', 'codec_switched', 'lazy', 'mid_upstream', 'downstream_pending', 'raw')

CLASSES = [
    'healthy', 'probe', 'stock_hostile',
    'random_bytes', 'mutate_valid', 'truncate_sweep', 'header_games', 'compression', 'labels', 'name_truncated_after',
    'high_bytes_header', 'high_bytes_payload', 'cmd_letters', 'userids', 'domain_len', 'data_headers', 'login_len',
    'fragsize_N', 'fragsize_big_tun', 'probe_R', 'raw_frames', 'raw_login', 'tun_sizes', 'tun_short', 'upstream_short', 'tun_client_to_client',
    'forwarding', 'reassembly', 'qtypes_longnames', 'timejump_small', 'timejump_big', 'expired_traffic', 'reclaim_V',
    'stale_raw3', 'raw_uid_bounds', 'pointer_at_len_bind', 'cmd_arg_sweep',
]


class Sweeps:
    """counters shared by all histories of one run: systematic sweeps continue across histories"""

    def __init__(self):
        self.c = {}

    def next(self, name, n):
        v = self.c.get(name, 0)
        self.c[name] = v + 1
        return v % n


def name_to_labels(name):
    """labels whose dotted concatenation (as readname builds it) is exactly `name`: empty pieces
    (leading / doubled / trailing dots) become dots inside a neighbouring label; pieces over 191
    bytes (0xc0.. would be a compression pointer) are split"""
    labels = []
    cur = None
    for p in name.split(b'.'):
        if cur is None:
            cur = p
        elif cur == b'' or p == b'':
            cur = cur + b'.' + p
        else:
            labels.append(cur)
            cur = p
    if cur:
        labels.append(cur)
    res = []
    for lab in labels:
        while len(lab) > 191:
            res.append(lab[:191])
            lab = lab[191:]
        if lab:
            res.append(lab)
    return res


def wire(qid, qtype, labels, flags=0x0100, qd=1, an=0, ns=0, ar=0, root=True, typeclass=True, qclass=1, tail=b''):
    out = bytearray([qid >> 8 & 255, qid & 255, flags >> 8 & 255, flags & 255, qd >> 8 & 255, qd & 255,
                     an >> 8 & 255, an & 255, ns >> 8 & 255, ns & 255, ar >> 8 & 255, ar & 255])
    for lab in labels:
        out.append(len(lab) & 255)
        out += lab
    if root:
        out.append(0)
    if typeclass:
        out += bytes([qtype >> 8 & 255, qtype & 255, qclass >> 8 & 255, qclass & 255])
    out += tail
    return bytes(out)


EDNS = bytes([0, 0, 41, 16, 0, 0, 0, 128, 0, 0, 0])


class Guardian(srvlib.Session):
    def __init__(self, gen, addr, state):
        srvlib.Session.__init__(self, gen, addr)
        self.state = state
        self.last = None          # time of the last packet the server accepted for this session
        self.vtime = None
        self.tun_ip = None
        self.home = addr
        self.locked = False


class C05Gen(srvlib.HistGen):
    def __init__(self, rng, sweeps, flavour='mixed'):
        srvlib.HistGen.__init__(self, rng, adversarial=0.0)
        self.sw = sweeps
        self.flavour = flavour
        self.meta = []            # class label per event
        self.probes = []          # (first event index, last event index, 'fam:ip:port' as printed, kind)
        self.cur = 'healthy'
        self.counts = {}
        self.huge_left = 4
        self.guards = []
        self.hostile_since_probe = 0
        self.probe_gap = rng.choice([3, 4, 5])

    def emit_dgram(self, addr, dg, seed=None, dest=True):
        # the harness' injection buffer holds 65536 bytes (the size of the server's receive buffer): never more
        return srvlib.HistGen.emit_dgram(self, addr, dg[:65536], seed, dest)

    # ---- bookkeeping ---------------------------------------------------------------------------
    def sync(self):
        while len(self.meta) < len(self.events):
            self.meta.append(self.cur)
            self.counts[self.cur] = self.counts.get(self.cur, 0) + 1
            if self.cur not in ('healthy', 'probe'):
                self.hostile_since_probe += 1

    def do(self, cls, fn, *a, **kw):
        self.sync()
        old = self.cur
        self.cur = cls
        try:
            return fn(*a, **kw)
        finally:
            self.sync()
            self.cur = old

    def size_pick(self, small_hi=70):
        r = self.rng
        if self.huge_left > 0 and r.random() < 0.12:
            self.huge_left -= 1
            return r.choice(HUGE)
        return r.randrange(0, small_hi + 1)

    def rbytes(self, n, lo=0, hi=256):
        r = self.rng
        if n > 2000:
            # cheap for the huge sizes
            seed = r.randrange(1 << 30)
            return bytes(((i * 1103515245 + seed) >> 7) & 255 for i in range(n)) if lo == 0 and hi == 256 else bytes(lo + ((i * 7 + seed) % (hi - lo)) for i in range(n))
        return bytes(r.randrange(lo, hi) for _ in range(n))

    def addr_out(self, a):
        """address as the harness / model driver print it"""
        return '%d:%s:%d' % (2 if a[0] == 4 else 10, a[1].hex(), a[2])

    def src_variant(self, g):
        """a source address for hostile traffic aimed at guardian g"""
        r = self.rng
        k = r.randrange(6)
        a = g.addr
        if k <= 2:
            return a
        if k == 3:
            return (a[0], a[1], (a[2] + 1) & 65535 or 1)          # same IP, other port
        if k == 4:
            return self.other_addr(a)
        return (6, bytes([0x20, 1, 0xd, 0xb8] + [0] * 11 + [0x99]), 5300) if a[0] == 4 else (4, bytes([203, 0, 113, 9]), 5300)

    def dom_labels(self):
        return [l for l in self.domain.split(b'.') if l]

    def hostile_name(self, data, dots=True):
        """data part (any bytes but NUL handled by caller) + '.' + topdomain"""
        if dots and len(data) > 60:
            data = dotify(data)
            if data.endswith(b'.'):
                data = data[:-1]
        return data + b'.' + self.domain

    def hq(self, name, qtype=None, qid=None, addr=None, dest=None, labels=None, **kw):
        """emit a DNS query datagram with full control over the wire form"""
        r = self.rng
        if qtype is None:
            qtype = self.qtype
        if qid is None:
            qid = self.next_id() or 1
        if addr is None:
            addr = self.any_addr()
        if labels is None:
            labels = name_to_labels(name)
        if 'tail' not in kw and r.randrange(3) and kw.get('typeclass', True):
            kw['tail'] = EDNS
            kw.setdefault('ar', 1)
        dg = wire(qid, qtype, labels, **kw)
        self.emit_dgram(addr, dg, dest=(r.randrange(2) == 0) if dest is None else dest)
        return dg

    def any_addr(self):
        r = self.rng
        if self.guards and r.randrange(4):
            return self.src_variant(r.choice(self.guards))
        return (4, bytes([198, 18, r.randrange(4), r.randrange(256)]), r.choice([53, 1024, 40000, 65535]))

    def target_uid(self):
        """a userid to aim at: authenticated guardian, unauthenticated guardian, free slot, out of range"""
        r = self.rng
        k = r.randrange(8)
        if k <= 3 and self.guards:
            g = r.choice(self.guards)
            if g.uid is not None:
                return g.uid, g
        if k == 4:
            return r.randrange(16), None
        if k == 5:
            return r.choice([15, 16, 17, 31, 127, 128, 129, 200, 254, 255]), None
        if k == 6:
            return self.nusers - 1 + r.choice([0, 1]), None
        return r.randrange(256), None

    def guard_of(self, uid):
        for g in self.guards:
            if g.uid == uid:
                return g
        return None

    def cmc3(self):
        v = self.rng.randrange(32768)
        return b32c(v >> 10) + b32c(v >> 5) + b32c(v)

    # ---- valid query data parts (everything before ".topdomain") -------------------------------------
    def d_version(self, proto=0x502):
        rs = self.rng.randrange(65536)
        return b'v' + enc(0, bytes([(proto >> 24) & 255, (proto >> 16) & 255, (proto >> 8) & 255, proto & 255, rs >> 8, rs & 255]))

    def d_login(self, uid, h, extra=None):
        rs = self.rng.randrange(65536)
        return b'l' + enc(0, bytes([uid & 255]) + h + (bytes([rs >> 8, rs & 255]) if extra is None else extra))

    def d_ping(self, uid, dn=None):
        rs = self.rng.randrange(65536)
        if dn is None:
            dn = self.rng.randrange(256)
        return b'p' + enc(0, bytes([uid & 255, dn, rs >> 8, rs & 255]))

    def d_data(self, uidc, up_seq, up_frag, dn_seq, dn_frag, last, payload_enc, cmc=None):
        if cmc is None:
            cmc = self.rng.choice(b'abcdefghijklmnopqrstuvwxyz0123456789')
        hdr = uidc + b32c(((up_seq & 7) << 2) | ((up_frag & 15) >> 2)) + b32c(((up_frag & 3) << 3) | (dn_seq & 7)) + \
            b32c(((dn_frag & 15) << 1) | (1 if last else 0)) + bytes([cmc])
        return hdr + payload_enc

    def d_valid(self, kind, uid=None, g=None):
        """a well-formed data part of the given kind for userid uid"""
        r = self.rng
        if uid is None:
            uid, g = self.target_uid()
        codec = g.codec if g else 0
        if kind == 'v':
            return self.d_version(r.choice([0x502, 0x502, 0x501, 0x503, 0]))
        if kind == 'l':
            seed = g.seed if g else r.randrange(1 << 31)
            return self.d_login(uid, login_stub(self.password, seed))
        if kind == 'p':
            return self.d_ping(uid)
        if kind == 'd':
            return self.d_data(('%x' % (uid & 15)).encode(), r.randrange(8), r.randrange(16), r.randrange(8), r.randrange(16),
                               r.randrange(2), enc(codec, self.rbytes(r.choice([1, 5, 30, 100]))))
        if kind == 's':
            return b's' + b32c(uid) + b32c(r.choice([5, 6, 26, 7])) + self.cmc3()
        if kind == 'o':
            return b'o' + b32c(uid) + bytes([r.choice(b'tsuvriTSUVRI')]) + self.cmc3()
        if kind == 'n':
            fs = r.choice([2, 100, 200, 1200])
            rs = r.randrange(65536)
            return b'n' + enc(0, bytes([uid & 255, fs >> 8, fs & 255, rs >> 8, rs & 255]))
        if kind == 'i':
            return b'i' + b32c(uid) + self.cmc3()
        if kind == 'y':
            return b'y' + bytes([r.choice(b'tsuvrTSUVR')]) + b32c(1) + self.cmc3()
        if kind == 'r':
            fs = r.choice([2, 100, 500, 1000, 2047])
            return b'r' + b32c(((uid & 15) << 1) | ((fs >> 10) & 1)) + b32c(fs >> 5) + b32c(fs) + b'd' + enc(codec, self.rbytes(r.choice([12, 40, 100])))
        return b'z' + self.rbytes(r.randrange(1, 60), 0x21, 0x7f).replace(b'.', b'x')

    KINDS = ['v', 'l', 'p', 'd', 's', 'o', 'n', 'i', 'y', 'r', 'z']

    def valid_dgram(self, kind=None, uid=None, g=None, qtype=None, edns=None):
        r = self.rng
        if kind is None:
            kind = r.choice(self.KINDS)
        name = self.hostile_name(self.d_valid(kind, uid, g))
        return dns_query(self.next_id() or 1, self.qtype if qtype is None else qtype, name,
                         edns0=r.randrange(2) == 0 if edns is None else edns)

    # ---- guardians: exact life cycle -------------------------------------------------------------------
    def g_version(self, g, slot):
        g.rs = (g.rs + 1) & 0xffff
        data = bytes([0, 0, 5, 2, g.rs >> 8, g.rs & 255])
        seed = self.rng.randrange(1 << 31)
        g.addr = g.home
        self.emit_query(g.addr, srvlib.qname(b'v', enc(0, data), self.domain), qid=self.next_id() or 1, seed=seed)
        g.uid = slot
        g.seed = rand_after_seed(seed)
        g.auth = False
        g.codec = 0
        g.raw = False
        g.locked = False
        g.addr = g.home
        g.up_seq = g.up_frag = g.dn_seq = g.dn_frag = 0
        g.vtime = g.last = self.now
        g.tun_ip = self.tun_ips[slot]
        self.stats['version'] += 1

    def g_login(self, g):
        self.login(g, good=True)
        g.last = self.now

    def alive(self, g):
        return g.uid is not None and g.auth and g.last is not None and self.now - g.last <= 60

    def g_ping(self, g, fresh_ack=False):
        """a ping the server must accept"""
        if self.qid == 0 or ((self.qid + 7727) & 0xffff) == 0:
            self.qid = 1
        if fresh_ack:
            g.dn_frag = (g.dn_frag + 1) & 15
        self.ping(g)
        g.last = self.now

    def g_raw_ping(self, g):
        self.emit_dgram(g.addr, RAWHDR + bytes([0x30 | (g.uid & 15)]))
        self.stats['raw'] += 1
        g.last = self.now

    def probe(self, g):
        """liveness probe: two fresh pings back to back (in lazy mode the second one releases the first)"""
        self.sync()
        i0 = len(self.events)
        if g.raw and self.rng.randrange(2):
            self.do('probe', self.g_raw_ping, g)
            kind = 'rawping'
        else:
            self.do('probe', self.g_ping, g)
            self.do('probe', self.g_ping, g)
            kind = 'ping'
        self.probes.append((i0, len(self.events) - 1, self.addr_out(g.addr), kind))
        self.hostile_since_probe = 0
        self.probe_gap = self.rng.choice([3, 4, 5])

    def maybe_probe(self, force=False):
        cands = [g for g in self.guards if self.alive(g)]
        if not cands:
            return
        stale = [g for g in cands if self.now - g.last >= 40]
        if stale:
            for g in stale:
                self.probe(g)
            return
        if force or self.hostile_since_probe >= self.probe_gap:
            self.probe(self.rng.choice(cands))

    def setup_guardians(self, states):
        r = self.rng
        n = min(len(states), self.nusers)
        for k in range(n):
            fam = 4 if r.randrange(6) else 6
            ip = bytes([192, 0, 2, 10 + 2 * k]) if fam == 4 else bytes([0x20, 1, 0xd, 0xb8] + [0] * 11 + [2 * k + 1])
            g = Guardian(self, (fam, ip, 4000 + k), states[k])
            self.guards.append(g)
            self.sessions.append(g)
        slot = 0
        for g in self.guards:
            if g.state == 'pre_version':
                continue
            self.do('healthy', self.g_version, g, slot)
            slot += 1
            self.tick()
        for g in self.guards:
            st = g.state
            if st in ('pre_version', 'versioned'):
                continue
            self.do('healthy', self.g_login, g)
            self.tick()
            if st == 'codec_switched':
                self.do('healthy', self.g_codec, g, r.choice([1, 2, 3]))
                self.do('healthy', self.g_downenc, g, r.choice(b'SUVRT'))
            elif st == 'lazy':
                self.do('healthy', self.g_downenc, g, ord('l'))
            elif st == 'mid_upstream':
                if r.randrange(2):
                    self.do('healthy', self.g_codec, g, r.choice([1, 3]))
                for _ in range(r.randrange(1, 4)):
                    self.do('healthy', self.g_frag, g, last=False)
            elif st == 'downstream_pending':
                if r.randrange(2):
                    self.do('healthy', self.g_fragsize, g, r.choice([50, 200, 1200]))
                self.do('healthy', self.g_ping, g)
                for _ in range(r.randrange(1, 4)):
                    self.do('healthy', self.tun, g.tun_ip, r.choice([60, 300, 1400]))
            elif st == 'raw':
                self.do('healthy', self.g_raw_login, g)
            elif r.randrange(3) == 0:
                self.do('healthy', self.g_fragsize, g, r.choice([100, 1200, 4000]))
            self.tick()

    def g_codec(self, g, codec):
        bits = {0: 5, 1: 6, 2: 26, 3: 7}[codec]
        self.emit_query(g.addr, b's' + b32c(g.uid) + b32c(bits) + self.cmc3() + b'.' + self.domain)
        self.stats['option'] += 1
        if not (self.check_ip == 0 and g.locked):
            g.codec = codec

    def g_downenc(self, g, letter):
        self.emit_query(g.addr, b'o' + b32c(g.uid) + bytes([letter]) + self.cmc3() + b'.' + self.domain)
        self.stats['option'] += 1

    def g_fragsize(self, g, fs):
        rs = self.rng.randrange(65536)
        self.emit_query(g.addr, srvlib.qname(b'n', enc(0, bytes([g.uid, fs >> 8, fs & 255, rs >> 8, rs & 255])), self.domain))
        self.stats['option'] += 1
        if fs >= 2:
            g.locked = True

    def g_frag(self, g, payload=None, last=None):
        if self.qid == 0 or ((self.qid + 7727) & 0xffff) == 0:
            self.qid = 1
        self.data(g, payload, last=last)
        g.last = self.now

    def g_raw_login(self, g, addr=None):
        a = addr or g.addr
        self.emit_dgram(a, RAWHDR + bytes([0x10 | (g.uid & 15)]) + login_stub(self.password, (g.seed + 1) & 0xffffffff))
        self.stats['raw'] += 1
        g.raw = True
        g.addr = a
        g.last = self.now

    def g_raw_data(self, g, dst=None):
        r = self.rng
        n = r.choice([24, 60, 200])
        ip = bytearray(self.rbytes(n))
        if dst is None:
            dst = r.choice(self.tun_ips[:4] + [0x08080808])
        ip[20:24] = dst.to_bytes(4, 'big')
        self.emit_dgram(g.addr, RAWHDR + bytes([0x20 | (g.uid & 15), 0x5A]) + bytes(ip))
        self.stats['raw'] += 1
        g.last = self.now

    def healthy_step(self):
        """one piece of well-formed traffic from a guardian, by its state"""
        r = self.rng
        live = [g for g in self.guards if self.alive(g)]
        if not live:
            cands = [g for g in self.guards if g.uid is not None and not g.auth and g.vtime is not None and self.now - g.vtime <= 50]
            if cands and r.randrange(3) == 0:
                self.do('healthy', self.g_login, r.choice(cands))
            else:
                self.do('healthy', self.sweep)
            return
        g = r.choice(live)
        x = r.random()
        if g.raw and x < 0.5:
            self.do('healthy', r.choice([self.g_raw_ping, self.g_raw_data]), g)
        elif x < 0.25:
            self.do('healthy', self.g_ping, g, fresh_ack=r.randrange(2) == 0)
        elif x < 0.45:
            self.do('healthy', self.g_frag, g, None, False if g.state == 'mid_upstream' and r.randrange(3) else None)
        elif x < 0.55:
            self.do('healthy', self.g_upstream_packet, g)
        elif x < 0.70:
            self.do('healthy', self.tun, g.tun_ip if r.randrange(4) else None)
        elif x < 0.80:
            self.do('healthy', self.sweep)
        elif x < 0.90:
            self.do('healthy', self.dup_same, g)
        elif x < 0.95:
            self.do('healthy', self.g_downenc, g, r.choice(b'tsuvrliTSUVRLI'))
        else:
            self.do('healthy', self.g_codec, g, r.randrange(4))
        if g.state == 'downstream_pending' and r.randrange(2):
            self.do('healthy', self.tun, g.tun_ip, r.choice([60, 300, 1400]))

    def g_upstream_packet(self, g, dst_ip=None, n=None):
        r = self.rng
        if n is None:
            n = r.choice([24, 40, 90, 200, 400])
        ip = bytearray(self.rbytes(n))
        if dst_ip is None:
            dst_ip = r.choice(self.tun_ips + [0x08080808, 0x0a000001])
        ip[20:24] = dst_ip.to_bytes(4, 'big')
        comp = bytes([0x5A]) + bytes(ip)
        step = r.choice([30, 60, 100, 150])
        pieces = [comp[i:i + step] for i in range(0, len(comp), step)]
        for j, p in enumerate(pieces):
            self.g_frag(g, p, last=(j == len(pieces) - 1))
            self.tick()

    def dup_same(self, g):
        if g.last_names:
            nm, qt = self.rng.choice(g.last_names[-5:])
            self.emit_query(g.addr, nm, qtype=qt)
            self.stats['dup'] += 1

    # ---- hostile classes --------------------------------------------------------------------------------
    def h_random_bytes(self):
        r = self.rng
        n = self.size_pick()
        k = r.randrange(4)
        if k == 0 and n >= 12:
            # plausible DNS header first
            dg = bytes([r.randrange(256), r.randrange(256), 1, 0, 0, 1, 0, 0, 0, 0, 0, 0]) + self.rbytes(n - 12)
        elif k == 1 and n >= 3:
            dg = RAWHDR + self.rbytes(n - 3)
        else:
            dg = self.rbytes(n)
        self.emit_dgram(self.any_addr(), dg, dest=r.randrange(2) == 0)

    def h_mutate_valid(self):
        r = self.rng
        base = bytearray(self.valid_dgram())
        for _ in range(r.randrange(1, 4)):
            i = r.randrange(len(base))
            base[i] = r.choice([r.randrange(256), base[i] ^ (1 << r.randrange(8)), 0, 0xff, 0xc0, 0x80])
        self.emit_dgram(self.any_addr(), bytes(base))

    def h_truncate_sweep(self):
        """one valid query cut at EVERY length"""
        kind = self.KINDS[self.sw.next('trunc_kind', len(self.KINDS))]
        uid, g = self.target_uid()
        base = self.valid_dgram(kind, uid, g, edns=self.sw.next('trunc_edns', 2) == 0)
        a = self.src_variant(g) if g else self.any_addr()
        for n in range(0, len(base)):
            self.emit_dgram(a, base[:n])

    def h_header_games(self):
        r = self.rng
        uid, g = self.target_uid()
        name = self.hostile_name(self.d_valid(r.choice(self.KINDS), uid, g))
        labels = name_to_labels(name)
        a = self.src_variant(g) if g else self.any_addr()
        k = self.sw.next('hdr', 12)
        qid = self.next_id() or 1
        if k == 0:
            for qd in (0, 1, 2, 0x7fff, 0x8000, 0xffff):
                self.emit_dgram(a, wire(qid, self.qtype, labels, qd=qd))
        elif k == 1:
            self.emit_dgram(a, wire(qid, self.qtype, labels, flags=0x8100))            # QR set: a response
        elif k == 2:
            self.emit_dgram(a, wire(qid, self.qtype, labels, flags=r.randrange(65536) & 0x7fff))
        elif k == 3:
            self.emit_dgram(a, wire(qid, self.qtype, labels, an=r.choice([1, 0x7fff, 0xffff]), ns=r.randrange(65536), ar=r.randrange(65536)))
        elif k == 4:
            self.emit_dgram(a, wire(qid, self.qtype, labels, qd=2, tail=wire(0, 1, labels)[12:]))     # two questions
        elif k == 5:
            self.emit_dgram(a, wire(qid, self.qtype, labels, qclass=r.choice([0, 3, 255, 0xffff])))
        elif k == 6:
            self.emit_dgram(a, wire(qid, r.choice([0, 6, 12, 41, 99, 251, 252, 65280, 65535]), labels))
        elif k == 7:
            self.emit_dgram(a, wire(0, self.qtype, labels))                               # id 0
        elif k == 8:
            self.emit_dgram(a, wire(qid, self.qtype, labels, tail=self.rbytes(self.size_pick(40))))
        elif k == 9:
            self.emit_dgram(a, wire(qid, self.qtype, labels, flags=0x0100 | (r.randrange(1, 16) << 11)))   # opcode
        elif k == 10:
            self.emit_dgram(a, wire(qid, self.qtype, [], qd=1))                           # root name
        else:
            self.emit_dgram(a, wire(qid, self.qtype, labels)[:12])                        # header only, qdcount 1

    def h_compression(self):
        r = self.rng
        uid, g = self.target_uid()
        a = self.src_variant(g) if g else self.any_addr()
        qid = self.next_id() or 1
        tc = bytes([self.qtype >> 8, self.qtype & 255, 0, 1])
        hdr = wire(qid, self.qtype, [], root=False, typeclass=False)
        dlab = b''.join(bytes([len(l)]) + l for l in self.dom_labels()) + b'\0'
        data = self.d_valid(r.choice(self.KINDS), uid, g)[:60]
        k = self.sw.next('compr', 16)

        def ptr(off):
            return bytes([0xc0 | ((off >> 8) & 0x3f), off & 255])
        if k == 0:
            dg = hdr + ptr(12) + tc                                              # self pointer
        elif k == 1:
            dg = hdr + ptr(14) + ptr(12) + tc                                    # 2-cycle
        elif k in (2, 3, 4):
            n = {2: 9, 3: 10, 4: 11}[k]                                          # chain of n pointers, then a real name
            chain = b''
            for j in range(n):
                chain += ptr(12 + 2 * (j + 1))
            dg = hdr + chain + bytes([len(data)]) + data + dlab + tc
        elif k in (5, 6, 7):
            base = hdr + ptr(0) + tc                                             # pointer to len-1 / len / len+1
            ln = len(base)
            dg = hdr + ptr(ln + {5: -1, 6: 0, 7: 1}[k]) + tc
        elif k == 8:
            dg = hdr + ptr(0x3fff) + tc
        elif k == 9:
            dg = hdr + bytes([0xc0])                                             # second pointer byte missing
        elif k == 10:
            dg = hdr + bytes([len(data)]) + data + bytes([0xc0])                 # ... after a label
        elif k == 11:
            # pointer after some labels to the topdomain stored after the question
            off = 12 + 1 + len(data) + 2 + 4
            dg = hdr + bytes([len(data)]) + data + ptr(off) + tc + dlab
        elif k == 12:
            # pointer after labels, target beyond the end
            dg = hdr + bytes([len(data)]) + data + ptr(r.choice([0x3fff, 200, 0x1000])) + tc
        elif k == 13:
            # forward pointer into the middle of a label
            dg = hdr + ptr(12 + 2 + 4 + 3) + tc + bytes([len(data)]) + data + dlab
        elif k == 14:
            # pointer to the header (offset 0): header bytes read as labels
            dg = hdr + ptr(r.choice([0, 2, 4, 11])) + tc
        else:
            # pointer whose target is another pointer to a label running past the end
            dg = hdr + ptr(18) + tc + bytes([40]) + data[:r.randrange(0, 20)]
        self.emit_dgram(a, dg)

    def h_labels(self):
        r = self.rng
        uid, g = self.target_uid()
        a = self.src_variant(g) if g else self.any_addr()
        qid = self.next_id() or 1
        k = self.sw.next('labels', 10)
        first = self.d_valid(r.choice(self.KINDS), uid, g)[:40]
        dl = self.dom_labels()
        if k <= 3:
            ln = [63, 64, 191, 255][k]
            lab = (first + self.rbytes(300, 0x61, 0x7b))[:ln]
            for enough in (True, False):
                if ln == 255:
                    # 0xff as a length byte is a compression pointer
                    dg = wire(qid, self.qtype, [], root=False, typeclass=False) + bytes([255]) + lab[:255 if enough else 100]
                    dg += (b''.join(bytes([len(l)]) + l for l in dl) + b'\0' + bytes([0, 10, 0, 1])) if enough else b''
                else:
                    dg = wire(qid, self.qtype, [lab] + dl)
                    if not enough:
                        dg = dg[:12 + 1 + r.randrange(0, ln)]
                self.emit_dgram(a, dg)
        elif k == 4:
            # names up to and beyond 255 chars
            for total in (240, 250, 252, 253, 254, 255, 256, 300, 600):
                body = (first + self.rbytes(700, 0x61, 0x7b))[:max(1, total - len(self.domain) - 1)]
                labs = [body[i:i + 63] for i in range(0, len(body), 63)]
                self.emit_dgram(a, wire(qid, self.qtype, labs + dl))
        elif k == 5:
            # label running past the end of the datagram
            dg = wire(qid, self.qtype, [first] + dl)
            self.emit_dgram(a, dg[:12] + bytes([r.choice([len(first) + 1, 63, 100, 191])]) + first)
        elif k == 6:
            # missing root byte
            self.emit_dgram(a, wire(qid, self.qtype, [first] + dl, root=False))
            self.emit_dgram(a, wire(qid, self.qtype, [first] + dl, root=False, typeclass=False))
        elif k == 7:
            # many tiny labels
            labs = [bytes([r.choice(LETTERS)]) for _ in range(r.choice([60, 126, 127, 128, 200]))]
            self.emit_dgram(a, wire(qid, self.qtype, [first[:1]] + labs + dl))
        elif k == 8:
            # dots and NULs inside labels
            lab = bytearray(first + b'abc')
            for _ in range(r.randrange(1, 4)):
                lab[r.randrange(len(lab))] = r.choice([0, 0x2e, 0x2e])
            self.emit_dgram(a, wire(qid, self.qtype, [bytes(lab)] + dl))
        else:
            # the topdomain in odd case / with a longer chunk in front / partial
            dom = self.domain
            v = r.randrange(4)
            if v == 0:
                dom = bytes(c ^ 0x20 if 97 <= c <= 122 and r.randrange(2) else c for c in dom)
            elif v == 1:
                dom = b'x' + dom
            elif v == 2:
                dom = dom[1:]
            else:
                dom = dom + b'.org'
            self.emit_dgram(a, wire(qid, self.qtype, name_to_labels(first + b'.' + dom)))

    def h_name_truncated_after(self):
        """valid query cut after the name at every offset (missing root / type / class bytes)"""
        uid, g = self.target_uid()
        a = self.src_variant(g) if g else self.any_addr()
        kind = self.KINDS[self.sw.next('nta_kind', len(self.KINDS))]
        name = self.hostile_name(self.d_valid(kind, uid, g)[:30])
        dg = wire(self.next_id() or 1, self.qtype, name_to_labels(name))
        for cut in range(len(dg) - 6, len(dg) + 1):
            self.emit_dgram(a, dg[:cut])

    def high(self, n=1):
        return bytes(self.rng.choice([0x80, 0x81, 0x9c, 0xbb, 0xbc, 0xe4, 0xfd, 0xfe, 0xff, self.rng.randrange(0x80, 0x100)]) for _ in range(n))

    def h_high_bytes_header(self):
        """bytes >= 0x80 in in[1], in[2], in[3] of i/s/o/y/r/data queries (b32_8to5 on request bytes)"""
        r = self.rng
        uid, g = self.target_uid()
        if g is None and self.guards and r.randrange(2):
            g = r.choice(self.guards)
            uid = g.uid if g.uid is not None else uid
        a = self.src_variant(g) if g else self.any_addr()
        kind = 'isoyrd'[self.sw.next('hbh_kind', 6)]
        pos = 1 + self.sw.next('hbh_pos', 3)
        d = bytearray(self.d_valid(kind, uid, g))
        while len(d) < 8:
            d += b'a'
        d[pos] = self.high()[0]
        if r.randrange(3) == 0:
            d[1 + r.randrange(3)] = self.high()[0]
        self.hq(self.hostile_name(bytes(d)), addr=a, qtype=r.choice(QTYPES_ALL[:7]))

    def h_high_bytes_payload(self):
        """bytes >= 0x80 anywhere in the encoded payload of v/l/n/p/data queries, under every upstream codec"""
        r = self.rng
        kind = 'vlnpd'[self.sw.next('hbp_kind', 5)]
        uid, g = self.target_uid()
        if kind == 'd':
            gs = [x for x in self.guards if self.alive(x)]
            if gs:
                g = r.choice(gs)
                uid = g.uid
        a = (g.addr if r.randrange(3) else self.src_variant(g)) if g else self.any_addr()
        d = bytearray(self.d_valid(kind, uid, g))
        lo = 5 if kind == 'd' else 1
        while len(d) < lo + 4:
            d += b'a'
        for _ in range(r.choice([1, 1, 2, 5, len(d)])):
            d[r.randrange(lo, len(d))] = self.high()[0]
        if r.randrange(4) == 0:
            d = d[:lo] + bytearray(self.high(r.choice([1, 7, 8, 9, 40, 100, 200])))
        self.hq(self.hostile_name(bytes(d).replace(b'\0', b'\x80')), addr=a)

    def h_cmd_letters(self):
        """every command letter (both cases), digits and other first characters with random arguments"""
        r = self.rng
        n = self.sw.next('cmd', 256)
        c = n if n not in (0, 0x2e) else ord('q')
        if r.randrange(3) == 0:
            c = r.choice(LETTERS + b'0123456789')
        uid, g = self.target_uid()
        a = self.src_variant(g) if g else self.any_addr()
        k = r.randrange(4)
        if k == 0:
            args = b32c(uid) + self.rbytes(r.randrange(0, 30), 0x21, 0x7f).replace(b'.', b'-')
        elif k == 1:
            args = enc(0, bytes([uid & 255]) + self.rbytes(r.randrange(0, 25)))
        elif k == 2:
            args = self.rbytes(r.randrange(0, 40), 1, 256).replace(b'.', b'\xae')
        else:
            args = self.d_valid(r.choice(self.KINDS), uid, g)[1:]
        self.hq(self.hostile_name(bytes([c]) + args), addr=a, qtype=r.choice(QTYPES_ALL))

    def h_cmd_arg_sweep(self):
        """the option commands of a logged-in session from its own address, the argument character swept over all byte
        values: codec switch 's' (5-bit values beyond the known codecs), downstream options 'o', and their upper-case forms.
        Values that would really change the guardian's settings are left out (the guardian goes on talking as before)."""
        r = self.rng
        gs = [g for g in self.guards if g.uid is not None and getattr(g, 'state', None) in PROBEABLE and getattr(g, 'state', None) != 'raw']
        if not gs:
            return self.h_cmd_letters()
        g = r.choice(gs)
        kind = b'sSoO'[self.sw.next('argsweep_kind', 4)]
        v = self.sw.next('argsweep_val_%d' % kind, 256)
        if v in (0, 0x2e):
            v = 0x80
        if kind in b'sS' and v in b'fghFGH0':
            v = ord('1') + self.sw.next('argsweep_hi', 5)           # '1'..'5' decode to 27..31
        if kind in b'oO' and v in b'tsuvrliTSUVRLI':
            v = ord('w')
        self.hq(self.hostile_name(bytes([kind]) + b32c(g.uid) + bytes([v]) + self.cmc3()), addr=g.addr)

    def h_userids(self):
        """all userids 0..255 in both encodings"""
        r = self.rng
        uid = self.sw.next('uid', 256)
        g = self.guard_of(uid)
        a = (g.addr if r.randrange(2) else self.src_variant(g)) if g else self.any_addr()
        kind = 'isordlnp'[self.sw.next('uid_kind', 8)]
        if kind in 'isor':
            d = bytearray(self.d_valid(kind, uid & 31, g))
            if kind == 'r':
                d[1] = b32c(((uid & 15) << 1) | r.randrange(2))[0]
            else:
                d[1] = b32c(uid)[0] if uid < 32 else uid          # beyond the Base32 digits: the raw byte
                if d[1] in (0, 0x2e):
                    d[1] = 0x80
        elif kind == 'd':
            d = bytearray(self.d_valid('d', uid & 15, g))
            d[0] = (b'0123456789abcdef' + b'0123456789ABCDEF')[(uid & 15) + (16 if uid & 16 else 0)]
        else:
            d = bytearray(self.d_valid(kind, uid, g))
        self.hq(self.hostile_name(bytes(d)), addr=a)

    def h_domain_len(self):
        """domain_len (characters before the topdomain, dot included) at each guard boundary, per command"""
        r = self.rng
        c = CMD_CHARS[self.sw.next('dl_cmd', len(CMD_CHARS))]
        if r.randrange(2):
            c ^= 0x20 if chr(c).isalpha() else 0
        uid, g = self.target_uid()
        if self.guards and r.randrange(2):
            gs = [x for x in self.guards if self.alive(x)]
            if gs:
                g = r.choice(gs)
                uid = g.uid
        a = (g.addr if r.randrange(3) else self.src_variant(g)) if g else self.any_addr()
        for dl in DLEN_BOUNDS:
            body = bytearray(self.d_valid(chr(c).lower() if chr(c).lower() in 'vlisoyrnpz' else 'd', uid, g))
            body[0] = c
            body = (bytes(body) + self.rbytes(20, 0x61, 0x7b))[:dl - 1]
            if dl == 1:
                # "." + topdomain: the dot has to live inside the first label
                dl0 = self.dom_labels()
                labels = [b'.' + dl0[0]] + dl0[1:]
                self.hq(None, addr=a, labels=labels)
            else:
                self.hq(body + b'.' + self.domain, addr=a)

    def h_data_headers(self):
        """data queries with every header combination, for authenticated and other userids, id 0"""
        r = self.rng
        n = self.sw.next('dh', 8 * 16)
        up_seq, up_frag = n >> 4, n & 15
        uid, g = self.target_uid()
        gs = [x for x in self.guards if self.alive(x)]
        if gs and r.randrange(4):
            g = r.choice(gs)
            uid = g.uid
        a = (g.addr if r.randrange(4) else self.src_variant(g)) if g else self.any_addr()
        codec = g.codec if g else r.randrange(4)
        for _ in range(r.choice([1, 2, 3])):
            uidc = r.choice([('%x' % (uid & 15)).encode(), ('%X' % (uid & 15)).encode()])
            d = self.d_data(uidc, up_seq, up_frag, r.randrange(8), r.randrange(16), r.randrange(2),
                            enc(codec, self.rbytes(r.choice([1, 2, 7, 30, 120]))))
            self.hq(self.hostile_name(d), addr=a, qid=0 if r.randrange(12) == 0 else None)
            up_frag = (up_frag + r.choice([0, 1, 1, 2, 15])) & 15
            if r.randrange(3) == 0:
                up_seq = (up_seq + r.choice([1, 4, 5, 7])) & 7

    def h_login_len(self):
        """login with 15/16/17/18/19-byte payload, wrong/right hash"""
        r = self.rng
        uid, g = self.target_uid()
        gs = [x for x in self.guards if x.uid is not None and x.vtime is not None and self.now - x.vtime <= 50 and not x.auth]
        if gs and r.randrange(2):
            g = r.choice(gs)
            uid = g.uid
        a = (g.addr if r.randrange(3) else self.src_variant(g)) if g else self.any_addr()
        n = [15, 16, 17, 18, 19, 20, 40][self.sw.next('ll', 7)]
        seed = g.seed if g else r.randrange(1 << 31)
        right = r.randrange(2) == 0
        h = login_stub(self.password, seed if right else (seed + r.choice([1, -1, 12345])) & 0xffffffff)
        payload = (bytes([uid & 255]) + h + self.rbytes(30))[:n]
        self.hq(self.hostile_name(b'l' + enc(0, payload)), addr=a)
        # exact tracking: the server accepts the user check iff the slot is live and (with -c off) the IP matches
        if g is not None and g.uid is not None and uid == g.uid and g.last is not None and self.now - g.last <= 60 \
                and (self.check_ip == 0 or a[:2] == g.addr[:2]) and n >= 17:
            g.last = self.now
            if right and n >= 18:
                g.auth = True

    def h_fragsize_N(self):
        """N (downstream fragment size) 0,1,2,3,...,65535"""
        r = self.rng
        vals = [0, 1, 2, 3, 4, 100, 255, 256, 1199, 1200, 4093, 4094, 4095, 4096, 4097, 8192, 32767, 32768, 65534, 65535]
        fs = vals[self.sw.next('N', len(vals))]
        uid, g = self.target_uid()
        gs = [x for x in self.guards if self.alive(x)]
        if gs and r.randrange(4):
            g = r.choice(gs)
            uid = g.uid
        a = (g.addr if r.randrange(4) else self.src_variant(g)) if g else self.any_addr()
        rs = r.randrange(65536)
        n = r.choice([5, 5, 5, 3, 2, 1, 4])
        self.hq(self.hostile_name(b'n' + enc(0, bytes([uid & 255, fs >> 8, fs & 255, rs >> 8, rs & 255])[:n])), addr=a)
        if g is not None and uid == g.uid and fs >= 2 and n >= 3:
            g.locked = True     # conservative: only used to predict our own codec switches

    def h_fragsize_big_tun(self):
        """fragsize > 4094 accepted for a live guardian, then tun packets big enough for maximal fragments"""
        r = self.rng
        gs = [x for x in self.guards if self.alive(x) and not x.raw]
        if not gs:
            return self.h_fragsize_N()
        g = r.choice(gs)
        fs = r.choice([4093, 4094, 4095, 4096, 5000, 8190, 8192, 20000, 65535])
        self.g_fragsize(g, fs)
        self.g_ping(g)
        for n in (r.choice([4000, 4093, 4094, 4095, 4096, 5000]), r.choice([8190, 9000, 20000])):
            self.tun(g.tun_ip, n)
            self.g_ping(g, fresh_ack=True)
            self.g_ping(g, fresh_ack=True)
        self.dup_same(g)
        self.g_ping(g, fresh_ack=True)

    def h_probe_R(self):
        """R (fragsize probe) 0,1,2,2047 and the values that wrap"""
        r = self.rng
        vals = [0, 1, 2, 3, 100, 1023, 1024, 1025, 2046, 2047]
        fs = vals[self.sw.next('R', len(vals))]
        uid, g = self.target_uid()
        gs = [x for x in self.guards if self.alive(x)]
        if gs and r.randrange(4):
            g = r.choice(gs)
            uid = g.uid
        a = (g.addr if r.randrange(4) else self.src_variant(g)) if g else self.any_addr()
        c2 = b32c(fs >> 5)
        c3 = b32c(fs)
        k = r.randrange(5)
        if k == 0:
            c2 = bytes([r.choice(b'6789-_=+')])           # not Base32 digits
        elif k == 1:
            c3 = self.high()
        body = b'r' + b32c(((uid & 15) << 1) | ((fs >> 10) & 1)) + c2 + c3 + b'd' + self.rbytes(r.choice([10, 11, 12, 40, 150]), 0x61, 0x7b)
        self.hq(self.hostile_name(body), addr=a, qtype=r.choice(QTYPES_ALL[:7]))

    def h_raw_frames(self):
        """raw frames of every length 0..30 and large, all userids and command nibbles, right and wrong source"""
        r = self.rng
        n = self.sw.next('rawlen', 31 + 4)
        if n <= 30:
            ln = n
        elif self.huge_left > 0:
            self.huge_left -= 1
            ln = r.choice([4095, 4096, 4100, 65535, 65536])
        else:
            ln = r.choice([100, 1000])
        nib = self.sw.next('rawcmd', 16)
        uid, g = self.target_uid()
        gs = [x for x in self.guards if self.alive(x)]
        if gs and r.randrange(3):
            g = r.choice(gs)
            uid = g.uid
        a = (g.addr if r.randrange(2) else self.src_variant(g)) if g else self.any_addr()
        body = bytearray(self.rbytes(max(0, ln - 4)))
        if len(body) > 25 and r.randrange(2):
            body[0] = 0x5A
            body[21:25] = r.choice(self.tun_ips[:4] + [0x08080808]).to_bytes(4, 'big')
        dg = (RAWHDR + bytes([(nib << 4) | (uid & 15)]) + bytes(body))[:ln]
        self.emit_dgram(a, dg)
        if g is not None and g.raw and uid == g.uid and nib in (2, 3) and ln >= 4 and self.alive(g) and (self.check_ip == 0 or a[:2] == g.addr[:2]):
            g.last = self.now

    def h_raw_login(self):
        """raw login with 15/16 bytes, right/wrong hash, right/wrong source, (un)authenticated sessions"""
        r = self.rng
        gs = [x for x in self.guards if x.uid is not None]
        if not gs:
            return self.h_raw_frames()
        g = r.choice(gs)
        n = r.choice([0, 1, 15, 16, 16, 17, 40])
        delta = r.choice([1, 1, 1, 0, -1, 2])
        h = (login_stub(self.password, (g.seed + delta) & 0xffffffff) + self.rbytes(30))[:n]
        a = g.addr if r.randrange(2) else self.src_variant(g)
        uid = g.uid if r.randrange(5) else r.randrange(16)
        self.emit_dgram(a, RAWHDR + bytes([0x10 | (uid & 15)]) + h)
        if uid == g.uid and delta == 1 and n >= 16 and self.alive(g):
            g.raw = True
            g.addr = a
            g.last = self.now

    def h_tun_short(self):
        """tun packets shorter than the 4-byte tun header + 20-byte IP header"""
        return self.h_tun_sizes(short=True)

    def h_upstream_short(self):
        """complete upstream packets (DNS fragments with the last flag, raw data frames) that uncompress to < 24 bytes"""
        r = self.rng
        gs = [x for x in self.guards if self.alive(x)]
        if not gs:
            return self.h_tun_sizes(short=True)
        g = r.choice(gs)
        n = [0, 1, 4, 19, 20, 21, 23][self.sw.next('upshort', 7)]
        body = bytes([0x5A]) + self.rbytes(n)
        if g.raw and r.randrange(2):
            self.emit_dgram(g.addr, RAWHDR + bytes([0x20 | g.uid]) + body)
            g.last = self.now
        else:
            g.up_seq = (g.up_seq + 4) & 7
            g.up_frag = 0
            self.g_frag(g, body, True)

    def h_tun_sizes(self, short=False):
        """tun packets: huge, exactly at the 64 KiB buffers"""
        r = self.rng
        sizes = [0, 1, 4, 19, 20, 21, 23] if short else [24, 25, 1500, 4000, 60000, 65535, 65536]
        n = sizes[self.sw.next('tunshort' if short else 'tun', len(sizes))]
        if n >= 60000:
            if self.huge_left <= 0:
                n = 4000
            else:
                self.huge_left -= 1
        gs = [x for x in self.guards if self.alive(x)]
        dst = r.choice(gs).tun_ip if gs and r.randrange(4) else r.choice(self.tun_ips + [0x08080808])
        if n == 65536 and not self.allow_tun_65536:
            dst = 0x08080808          # see c05.py: the harness' compress2 stand-in leaves `out` unwritten for 65536 input bytes
        if n == 0:
            self.events.append('T %d -' % self.now)
        else:
            ip = bytearray(self.rbytes(n))
            if n >= 24:
                ip[20:24] = dst.to_bytes(4, 'big')
            elif gs and n > 20:
                ip[20:n] = dst.to_bytes(4, 'big')[:n - 20]
            self.events.append('T %d %s' % (self.now, bytes(ip).hex()))
        self.stats['tun'] += 1
        if gs and r.randrange(2):
            g = r.choice(gs)
            if not g.raw:
                self.g_ping(g, fresh_ack=True)

    allow_tun_65536 = False

    def h_tun_client_to_client(self):
        r = self.rng
        gs = [x for x in self.guards if self.alive(x)]
        if not gs:
            return self.tun()
        g = r.choice(gs)
        for _ in range(r.choice([1, 2, 6])):        # 6: fills the 4-entry queue
            self.tun(g.tun_ip, r.choice([24, 60, 300, 1400]))

    def h_forwarding(self):
        """upstream packets whose inner destination is another user (DNS or raw mode), or an expired one"""
        r = self.rng
        gs = [x for x in self.guards if self.alive(x) and not x.raw]
        if not gs:
            return self.h_tun_client_to_client()
        g = r.choice(gs)
        others = [x.tun_ip for x in self.guards if x is not g and x.tun_ip is not None] or [g.tun_ip]
        self.g_upstream_packet(g, dst_ip=r.choice(others + [g.tun_ip]), n=r.choice([24, 100, 400, 1400]))

    def h_qtypes_longnames(self):
        """names up to 255 chars for every query type"""
        r = self.rng
        qt = QTYPES_ALL[self.sw.next('qt', len(QTYPES_ALL))]
        uid, g = self.target_uid()
        gs = [x for x in self.guards if self.alive(x)]
        if gs and r.randrange(2):
            g = r.choice(gs)
            uid = g.uid
        a = (g.addr if r.randrange(3) else self.src_variant(g)) if g else self.any_addr()
        kind = r.choice('pdzvr')
        room = 253 - len(self.domain) - 1
        total = r.choice([room - 8, room - 1, room, room + 1, room + 10])
        d = self.d_valid(kind, uid, g)
        d = (d + enc(g.codec if g else 0, self.rbytes(300)))[:total - total // 58]
        self.hq(self.hostile_name(d), addr=a, qtype=qt)

    def h_stock(self):
        s = self.rng.choice(self.sessions)
        self.hostile(s)

    def h_stale_raw3(self):
        """a raw ping of a raw-authenticated session, then the bare 3-byte raw header from the same address"""
        gs = [x for x in self.guards if self.alive(x) and x.raw]
        if not gs:
            self.emit_dgram(self.any_addr(), RAWHDR)
            for n in (1, 2):
                self.emit_dgram(self.any_addr(), RAWHDR[:n])
            return
        g = self.rng.choice(gs)
        self.g_raw_ping(g)
        self.emit_dgram(g.addr, RAWHDR)
        self.emit_dgram(g.addr, RAWHDR[:2])
        self.emit_dgram(g.addr, RAWHDR[:1])

    def h_raw_uid_bounds(self):
        """well-formed raw login / data / ping frames whose user nibble sits on the edge of the created users (last one, first one
        past them, 15): the three raw handlers each carry their own copy of the range check"""
        r = self.rng
        uid = [self.nusers - 1, min(self.nusers, 15), min(self.nusers + 1, 15), 15][self.sw.next('rawuidb', 4)]
        g = self.guard_of(uid)
        a = g.addr if g is not None else self.any_addr()
        seed = g.seed if g is not None else r.randrange(1 << 32)
        self.emit_dgram(a, RAWHDR + bytes([0x10 | uid]) + login_stub(self.password, (seed + 1) & 0xffffffff))
        body = bytearray([0x5A]) + bytearray(self.rbytes(40))
        body[21:25] = r.choice(self.tun_ips[:4] + [0x08080808]).to_bytes(4, 'big')
        self.emit_dgram(a, RAWHDR + bytes([0x20 | uid]) + bytes(body))
        self.emit_dgram(a, RAWHDR + bytes([0x30 | uid]))
        if g is not None and self.alive(g):
            g.raw = True
            g.last = self.now

    def h_pointer_at_len(self):
        """name = compression pointer to offset len-1 / len / len+1 with different bytes where the type is read"""
        r = self.rng
        qid = self.next_id() or 1
        for d in (-1, 0, 1, 2):
            t1 = r.choice([10, 16, 1, 5])
            body = bytes([0, t1, 0, 1])
            ln = 12 + 2 + 4
            off = ln + d
            dg = wire(qid, 0, [], root=False, typeclass=False) + bytes([0xc0 | (off >> 8), off & 255]) + body
            self.emit_dgram(self.any_addr(), dg)

    # ---- time ---------------------------------------------------------------------------------------------
    def h_timejump_small(self):
        """all guardians refresh, the clock jumps 58..60 s: sessions are still valid"""
        r = self.rng
        for g in self.guards:
            if self.alive(g):
                self.do('healthy', self.g_ping, g)
        d = r.choice([58, 59, 60])
        self.now += d
        self.stats['timejump'] += 1
        for g in self.guards:
            if self.alive(g):
                self.do('timejump_small', self.tun, g.tun_ip, 60)
                self.probe(g)

    def h_timejump_big(self):
        """the clock jumps over the session time-out: traffic for the expired sessions, then new V's re-claim the slots"""
        r = self.rng
        for g in self.guards:
            if self.alive(g):
                self.do('healthy', self.g_ping, g)
        self.now += r.choice([61, 62, 120, 3600])
        self.stats['timejump'] += 1
        for g in self.guards:
            if g.uid is None:
                continue
            for _ in range(r.randrange(1, 3)):
                k = r.randrange(5)
                if k == 0:
                    self.do('expired_traffic', self.ping, g)
                elif k == 1:
                    self.do('expired_traffic', self.data, g)
                elif k == 2:
                    self.do('expired_traffic', self.emit_dgram, g.addr, RAWHDR + bytes([r.choice([0x20, 0x30]) | g.uid]) + self.rbytes(30))
                elif k == 3:
                    self.do('expired_traffic', self.tun, g.tun_ip, 100)
                else:
                    self.do('expired_traffic', self.login, g, True)
            g.auth = False
        slot = 0
        for g in self.guards:
            if g.state == 'pre_version':
                g.uid = None
                continue
            self.do('reclaim_V', self.g_version, g, slot)
            slot += 1
        for g in self.guards:
            if g.state in ('pre_version', 'versioned'):
                continue
            self.do('healthy', self.g_login, g)
            if g.state == 'raw' and r.randrange(2):
                self.do('healthy', self.g_raw_login, g)
        self.maybe_probe(force=True)

    # ---- whole histories ----------------------------------------------------------------------------------------
    WEIGHTS = [
        ('random_bytes', 8), ('mutate_valid', 8), ('truncate_sweep', 1), ('header_games', 4), ('compression', 6), ('labels', 5),
        ('name_truncated_after', 2), ('high_bytes_header', 8), ('high_bytes_payload', 8), ('cmd_letters', 10), ('userids', 8),
        ('domain_len', 2), ('data_headers', 6), ('login_len', 4), ('fragsize_N', 4), ('fragsize_big_tun', 1), ('probe_R', 4),
        ('raw_frames', 8), ('raw_login', 3), ('tun_sizes', 3), ('tun_short', 2), ('upstream_short', 2), ('tun_client_to_client', 2), ('forwarding', 2),
        ('qtypes_longnames', 4), ('stock_hostile', 4), ('timejump_small', 0.6), ('timejump_big', 0.8), ('stale_raw3', 1.5), ('raw_uid_bounds', 1.5),
        ('pointer_at_len_bind', 1.5), ('reassembly', 1.0), ('cmd_arg_sweep', 5),
    ]

    def hostile_step(self, name=None):
        r = self.rng
        if name is None:
            ws = [(n, w) for n, w in self.WEIGHTS if n not in SKIP_CLASSES and (SHORT_PKTS or n not in ('tun_short', 'upstream_short'))]
            tot = sum(w for _, w in ws)
            x = r.random() * tot
            for name, w in ws:
                x -= w
                if x < 0:
                    break
        fn = {
            'random_bytes': self.h_random_bytes, 'mutate_valid': self.h_mutate_valid, 'truncate_sweep': self.h_truncate_sweep,
            'header_games': self.h_header_games, 'compression': self.h_compression, 'labels': self.h_labels,
            'name_truncated_after': self.h_name_truncated_after, 'high_bytes_header': self.h_high_bytes_header,
            'high_bytes_payload': self.h_high_bytes_payload, 'cmd_letters': self.h_cmd_letters, 'userids': self.h_userids,
            'domain_len': self.h_domain_len, 'data_headers': self.h_data_headers, 'login_len': self.h_login_len,
            'fragsize_N': self.h_fragsize_N, 'fragsize_big_tun': self.h_fragsize_big_tun, 'probe_R': self.h_probe_R,
            'raw_frames': self.h_raw_frames, 'raw_login': self.h_raw_login, 'tun_sizes': self.h_tun_sizes, 'tun_short': self.h_tun_short, 'upstream_short': self.h_upstream_short,
            'tun_client_to_client': self.h_tun_client_to_client, 'forwarding': self.h_forwarding,
            'qtypes_longnames': self.h_qtypes_longnames, 'stock_hostile': self.h_stock, 'timejump_small': self.h_timejump_small,
            'timejump_big': self.h_timejump_big, 'stale_raw3': self.h_stale_raw3, 'raw_uid_bounds': self.h_raw_uid_bounds, 'pointer_at_len_bind': self.h_pointer_at_len,
            'reassembly': self.h_reassembly, 'cmd_arg_sweep': self.h_cmd_arg_sweep,
        }[name]
        if name in ('timejump_small', 'timejump_big'):
            self.sync()
            fn()
            self.sync()
        else:
            self.do(name, fn)

    def finish(self):
        self.sync()
        line = 'H ' + self.cfg() + ' ; ' + ' ; '.join(self.events)
        while len(line) > MAXLINE_SAFE:
            # drop the largest event (never happens with the budgets above; keeps the harness' line buffer safe)
            i = max(range(len(self.events)), key=lambda j: len(self.events[j]))
            self.events[i] = 'S %d' % self.now
            self.probes = [p for p in self.probes if not (p[0] <= i <= p[1])]
            line = 'H ' + self.cfg() + ' ; ' + ' ; '.join(self.events)
        return line, dict(cls=list(self.meta), probes=list(self.probes), flavour=self.flavour)

    def build_mixed(self, nevents):
        r = self.rng
        ns = r.choice([1, 2, 2, 3, 3])
        first = PROBEABLE[self.sw.next('gstate', len(PROBEABLE))]
        states = [first] + [STATES[self.sw.next('gstate2', len(STATES))] for _ in range(ns - 1)]
        r.shuffle(states)
        self.setup_guardians(states)
        self.maybe_probe(force=True)
        while len(self.events) < nevents:
            self.sync()
            x = r.random()
            if x < 0.30:
                self.healthy_step()
            else:
                self.hostile_step()
            self.sync()
            self.maybe_probe()
            self.tick()
        self.maybe_probe(force=True)
        return self.finish()

    def h_reassembly(self):
        """upstream reassembly pushed as far as the protocol allows: a new sequence number, then maximal fragments
        with fragment numbers 0..15 and no last flag, then more fragments that repeat number 15 (the 4-bit fragment
        number cannot grow further: the server drops them), optionally closed by a last fragment"""
        r = self.rng
        gs = [x for x in self.guards if self.alive(x)]
        if not gs:
            return self.h_data_headers()
        g = r.choice(gs)
        if r.randrange(2) and not (self.check_ip == 0 and g.locked):
            self.g_codec(g, r.choice([0, 1, 2, 3, 3]))
        bits = {0: 5, 1: 6, 2: 6, 3: 7}[g.codec]
        room = 253 - len(self.domain) - 1 - 5
        room -= room // 58 + 1
        per = room * bits // 8
        g.up_seq = (g.up_seq + 4) & 7          # not one of the four "recent" sequence numbers
        g.up_frag = 0
        nfr = r.choice([16, 16, 17, 20])
        for j in range(nfr):
            payload = (bytes([0x5A]) if j == 0 else b'') + self.rbytes(per + r.choice([0, 0, 1, 5]) - (1 if j == 0 else 0))
            saved = (g.up_seq, min(j, 15))
            g.up_seq, g.up_frag = saved
            self.g_frag(g, payload, False)
            g.up_seq, g.up_frag = saved[0], min(j + 1, 15)
        if r.randrange(2):
            g.up_frag = 15
            self.g_frag(g, self.rbytes(10), True)


def gen_all(seed, tier, scale=None):
    """returns (histories, metas, stats)"""
    rng = vlib.rng_for(seed, 'c05')
    sw = Sweeps()
    mult = 1 if tier == 'quick' else 10
    if scale is not None:
        mult = scale
    hs, metas = [], []
    stats = {}
    flav = {}

    def add(g, res):
        line, meta = res
        hs.append(line)
        metas.append(meta)
        for k, v in g.counts.items():
            stats[k] = stats.get(k, 0) + v
        flav[meta['flavour']] = flav.get(meta['flavour'], 0) + 1
        for gd in g.guards:
            flav['guardian:' + gd.state] = flav.get('guardian:' + gd.state, 0) + 1

    n_mixed = int(N_QUICK * mult)
    for i in range(n_mixed):
        g = C05Gen(rng, sw, 'mixed')
        if i % 4 == 0:
            g.bind = 5353          # forwarding of foreign names observable
        add(g, g.build_mixed(rng.choice([120, 180, 240])))
    flav['sweep_counters'] = dict(sw.c)
    return hs, metas, stats, flav
