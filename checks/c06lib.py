"""c06lib.py -- builders of (hostile) DNS replies for the C06 check: wire names with arbitrary
label bytes and compression pointers, answers of the 7 record types in the 5 downstream
encodings, hostile answer sections, and the scripted-reply cases of harness/h_hsfuzz.c."""
import struct
import srvlib

T_A, T_CNAME, T_NULL, T_MX, T_TXT, T_SRV, T_PRIVATE = 1, 5, 10, 15, 16, 33, 65399
TYPES = [T_NULL, T_PRIVATE, T_TXT, T_SRV, T_MX, T_CNAME, T_A]
TYPE_NAMES = {T_NULL: 'NULL', T_PRIVATE: 'PRIVATE', T_TXT: 'TXT', T_SRV: 'SRV', T_MX: 'MX', T_CNAME: 'CNAME', T_A: 'A'}
CODEC_LETTERS = b'TSUVR'
CODEC_INDEX = {ord('T'): 0, ord('S'): 1, ord('U'): 2, ord('V'): 3, ord('R'): 0}
HOST_LETTER = {ord('T'): ord('h'), ord('S'): ord('i'), ord('U'): ord('j'), ord('V'): ord('k'), ord('R'): ord('h')}
TXT_LETTER = {ord('T'): ord('t'), ord('S'): ord('s'), ord('U'): ord('u'), ord('V'): ord('v'), ord('R'): ord('r')}
PREFS = list(range(0, 2500, 5)) + [2500, 2510, 5000, 24990, 25000, 65530, 65535]


def wname(s):
    """dotted bytes -> wire name; labels longer than 63 keep their (hostile) length byte mod 256"""
    out = b''
    for lab in s.split(b'.'):
        if lab:
            out += bytes([len(lab) & 0xff]) + lab
    return out + b'\0'


def ptr(off):
    return bytes([0xc0 | ((off >> 8) & 0x3f), off & 0xff])


def header(qid, qd=1, an=1, ns=0, ar=0, flags=0x8400):
    return struct.pack('>HHHHHH', qid & 0xffff, flags & 0xffff, qd & 0xffff, an & 0xffff, ns & 0xffff, ar & 0xffff)


def question(qname_wire, qtype):
    return qname_wire + struct.pack('>HH', qtype & 0xffff, 1)


def rr(rtype, rdata, rdlen=None, owner=b'\xc0\x0c', ttl=0):
    if rdlen is None:
        rdlen = len(rdata)
    return owner + struct.pack('>HHIH', rtype & 0xffff, 1, ttl, rdlen & 0xffff) + rdata


def txt_rdata(data, chunk=252):
    out = b''
    i = 0
    while i < len(data):
        c = data[i:i + chunk]
        out += bytes([len(c)]) + c
        i += chunk
    return out


def mx_rdata(pref, nm_wire, srv=False):
    return struct.pack('>H', pref & 0xffff) + (struct.pack('>HH', 10, 5060) if srv else b'') + nm_wire


def qn_for(first):
    return wname(bytes([first]) + b'aaaq.t.example.com')


def reply(qid, first, qtype, rrs, an=None, qd=1, qname=None, flags=0x8400, tail=b''):
    """a complete reply: the question name starts with the character `first`"""
    qn = qname if qname is not None else qn_for(first)
    return header(qid, qd=qd, an=len(rrs) if an is None else an, flags=flags) + question(qn, qtype) + b''.join(rrs) + tail


def host_name(letter, encoded, suffix=b'xy'):
    d = srvlib.dotify(bytes([letter]) + encoded)
    if not d.endswith(b'.'):
        d += b'.'
    return d + suffix


def carrier_rrs(qtype, denc, payload, percap=None):
    """answer records carrying payload the way write_dns does (NULL/PRIVATE raw, TXT letter+codec,
    CNAME/A one host name, MX/SRV a list of host names with preferences 10, 20, ...)"""
    ci = CODEC_INDEX[denc]
    if qtype in (T_NULL, T_PRIVATE):
        return [rr(qtype, payload)]
    if qtype == T_TXT:
        body = payload if denc == ord('R') else srvlib.enc(ci, payload)
        return [rr(T_TXT, txt_rdata(bytes([TXT_LETTER[denc]]) + body))]
    bits = srvlib.TABLES[ci][0]
    cap = percap if percap is not None else (240 * bits) // 8
    if qtype in (T_CNAME, T_A):
        return [rr(T_CNAME, wname(host_name(HOST_LETTER[denc], srvlib.enc(ci, payload[:cap]))))]
    out = []
    i = 0
    k = 1
    while i < len(payload) or k == 1:
        piece = payload[i:i + cap]
        out.append(rr(qtype, mx_rdata(10 * k, wname(host_name(HOST_LETTER[denc], srvlib.enc(ci, piece))), srv=(qtype == T_SRV))))
        i += cap
        k += 1
        if k > 249:
            break
    return out


def data_reply(qid, first, qtype, payload, denc=ord('T'), rdlen=None):
    if rdlen is not None and qtype in (T_NULL, T_PRIVATE):
        return reply(qid, first, qtype, [rr(qtype, payload, rdlen)])
    return reply(qid, first, qtype, carrier_rrs(qtype, denc, payload))


# ---- hostile answer sections ---------------------------------------------------------------

def hostile_rdlength(rng, qid, first, qtype):
    base = bytes(rng.randrange(256) for _ in range(rng.choice([0, 1, 2, 5, 40, 300])))
    if qtype == T_TXT:
        rd = txt_rdata(b'r' + base, chunk=rng.choice([1, 3, 60, 252, 255]))
    elif qtype in (T_CNAME, T_A):
        rd = wname(host_name(ord('h'), srvlib.enc(0, base[:100])))
    elif qtype in (T_MX, T_SRV):
        rd = mx_rdata(10, wname(host_name(ord('h'), srvlib.enc(0, base[:100]))), srv=(qtype == T_SRV))
    else:
        rd = base
    n = len(rd)
    rl = rng.choice([0, 1, max(0, n - 1), n, n + 1, n + 2, 0xffff, 0x7fff, 0x8000, 4095, 4096, 4097])
    atype = T_CNAME if qtype == T_A and rng.randrange(3) else qtype
    return reply(qid, first, qtype, [rr(atype, rd, rdlen=rl)], tail=bytes(rng.randrange(256) for _ in range(rng.choice([0, 0, 1, 7, 300]))))


def rand_label_name(rng, total):
    """a dotted name of about `total` chars with labels <= 63"""
    out = []
    left = total
    while left > 0:
        l = min(left, rng.choice([1, 5, 57, 62, 63]))
        out.append(bytes(rng.choice(b'hijkabcxyzHK015') for _ in range(l)))
        left -= l + 1
    return b'.'.join(out)


def hostile_mx(rng, qid, first, qtype, nrec=None, namelen=None, announce=None, mode=None):
    srv = qtype == T_SRV
    if nrec is None:
        nrec = rng.choice([0, 1, 2, 3, 16, 17, 18, 100, 248, 249, 250, 251, 300])
    if mode is None:
        mode = rng.randrange(6)
    rrs = []
    for i in range(nrec):
        if mode == 0:
            pref = 10 * (i + 1)
        elif mode == 1:
            pref = rng.choice(PREFS)
        elif mode == 2:
            pref = 10 * (rng.randrange(1, 12))          # duplicates
        elif mode == 3:
            pref = 10 * (i + 1) + (10 if i > nrec // 2 else 0)   # a gap
        elif mode == 4:
            pref = 10 * (nrec - i)                       # descending
        else:
            pref = rng.choice([0, 5, 10, 2480, 2490, 2500, 65535, 10 * (i + 1)])
        ln = namelen if namelen is not None else rng.choice([1, 2, 4, 5, 17, 63, 64, 127, 200, 246, 247, 250, 253, 254, 255])
        if nrec > 60 and namelen is None:
            ln = rng.choice([1, 5, 9, 17])
        nm = wname(rand_label_name(rng, ln))
        rd = mx_rdata(pref, nm, srv=srv)
        rl = None
        x = rng.random()
        if x < 0.05 and namelen is None:
            rl = rng.choice([0, 1, 2, len(rd) - 1, len(rd) + 1, 0xffff])
        rrs.append(rr(qtype if (rng.random() > 0.02 or namelen is not None) else rng.choice(TYPES), rd, rdlen=rl))
    m = reply(qid, first, qtype, rrs, an=announce)
    return m[:65535]


def hostile_txt(rng, qid, first):
    k = rng.randrange(8)
    letter = bytes([rng.choice(b'tsuvrTSUVRxh\0')])
    if k == 0:       # chunk length larger than what is left
        rd = bytes([200]) + letter + bytes(50)
    elif k == 1:     # more than rdata[4096] in total
        rd = txt_rdata(letter + bytes(rng.randrange(256) for _ in range(rng.choice([4095, 4096, 4097, 5000, 9000]))), chunk=rng.choice([255, 252, 100]))
    elif k == 2:     # empty strings
        rd = bytes(rng.choice([1, 5, 300])) + b'\x02' + letter + b'a'
    elif k == 3:     # one-byte strings
        rd = b''.join(b'\x01' + bytes([rng.randrange(256)]) for _ in range(rng.choice([3, 300, 4096, 4097])))
    elif k == 4:     # last length byte alone
        rd = txt_rdata(letter + b'abcdefgh') + b'\xff'
    elif k == 5:     # exact fill
        rd = txt_rdata(letter + bytes(4095), chunk=255)
    elif k == 6:
        rd = b''
    else:
        rd = bytes(rng.randrange(256) for _ in range(rng.randrange(1, 600)))
    rl = rng.choice([None, None, None, len(rd) + 1, max(0, len(rd) - 1)])
    return reply(qid, first, T_TXT, [rr(T_TXT, rd, rdlen=rl)])


def hostile_compression(rng, qid, first, qtype):
    """names with compression loops / self pointers / pointers to and after the end / chains"""
    k = rng.randrange(10)
    hdr_len = 12
    if k == 0:      # question name is a pointer to itself
        qn = ptr(12)
    elif k == 1:    # two-step loop in the question
        qn = ptr(14) + ptr(12)
    elif k == 2:    # label then pointer back to the label start (endless name)
        qn = bytes([1, first]) + ptr(12)
    elif k == 3:    # pointer past the end / far away
        qn = bytes([1, first]) + ptr(rng.choice([0x3fff, 4000, 600]))
    elif k == 4:    # pointer into the header
        qn = bytes([1, first]) + ptr(rng.randrange(12))
    else:
        qn = qn_for(first)
    body = question(qn, qtype)
    pos = hdr_len + len(body)
    depth = rng.randrange(1, 13)
    if k == 5:      # chain of depth `depth` in the answer's rdata name, ending in a real label
        # rdata name -> ptr -> ptr -> ... -> label
        rd_pos = pos + 12 + (2 if qtype in (T_MX, T_SRV) else 0) + (4 if qtype == T_SRV else 0)
        chain_start = rd_pos + 2
        chain = b''
        for i in range(depth - 1):
            chain += ptr(chain_start + 2 * (i + 1))
        chain += wname(b'habcdefgh.xy')
        nm = ptr(chain_start) + chain
    elif k == 6:    # loop inside rdata
        rd_pos = pos + 12 + (2 if qtype in (T_MX, T_SRV) else 0) + (4 if qtype == T_SRV else 0)
        nm = bytes([3]) + b'hab' + ptr(rd_pos)
    elif k == 7:    # pointer exactly to the end of the message and one after
        nm = None
    elif k == 8:    # labels of 63 / 64 / 191 bytes
        l = rng.choice([63, 64, 65, 127, 128, 191])
        nm = bytes([l]) + bytes(rng.choice(b'hab') for _ in range(rng.choice([l, l - 1, 3]))) + rng.choice([b'\0', b'', ptr(12)])
    else:
        nm = wname(rand_label_name(rng, rng.choice([1, 63, 200, 255, 300, 400])))
    atype = T_CNAME if qtype == T_A else qtype
    if nm is None:
        # rr with a name that points to the end; total length known only afterwards
        pre = b'\xc0\x0c' + struct.pack('>HHIH', atype, 1, 0, 4 if atype not in (T_MX, T_SRV) else 8)
        m = header(qid) + body + pre
        end = len(m) + (2 if atype in (T_MX, T_SRV) else 0) + (4 if atype == T_SRV else 0) + 2
        m += (struct.pack('>H', 10) if atype in (T_MX, T_SRV) else b'') + (b'\0\0\0\0' if atype == T_SRV else b'') + ptr(end + rng.choice([0, 1, -1]))
        return m
    if atype in (T_MX, T_SRV):
        rd = mx_rdata(10, nm, srv=(atype == T_SRV))
    elif atype == T_TXT:
        rd = txt_rdata(b'tabc')
    elif atype in (T_NULL, T_PRIVATE):
        rd = b'\x80\x00abc'
    else:
        rd = nm
    owner = rng.choice([b'\xc0\x0c', ptr(pos), ptr(pos + 1), nm[:40] + b'\0', b'\0'])
    return header(qid) + body + rr(atype, rd, owner=owner)


def hostile_counts(rng, base):
    m = bytearray(base)
    if len(m) >= 12:
        which = rng.randrange(3)
        v = rng.choice([0, 1, 2, 0x7fff, 0x8000, 0xffff, 250, 251])
        if which in (0, 2):
            m[4:6] = struct.pack('>H', rng.choice([0, 1, 0x7fff, 0x8000, 0xffff]))
        if which in (1, 2):
            m[6:8] = struct.pack('>H', v)
    return bytes(m)


def mutate(rng, base):
    m = bytearray(base)
    for _ in range(rng.randrange(1, 5)):
        k = rng.randrange(6)
        if not m:
            break
        if k == 0:
            m[rng.randrange(len(m))] = rng.randrange(256)
        elif k == 1 and len(m) > 13:
            del m[rng.randrange(12, len(m)):]
        elif k == 2 and len(m) > 14:
            q = rng.randrange(12, len(m) - 1)
            m[q] = 0xc0 | rng.randrange(64) if rng.randrange(2) else 0xc0
            m[q + 1] = rng.randrange(256)
        elif k == 3:
            m += bytes(rng.randrange(256) for _ in range(rng.choice([1, 8, 100])))
        elif k == 4 and len(m) > 20:
            q = rng.randrange(12, len(m) - 2)
            m[q:q + 2] = struct.pack('>H', rng.choice([0, 1, 0xffff, 0x8000, len(m), len(m) - q]))
        else:
            q = rng.randrange(len(m))
            m[q] = m[q] ^ (1 << rng.randrange(8))
    return bytes(m[:65535])


def random_bytes(rng):
    k = rng.randrange(4)
    n = rng.choice([0, 1, 11, 12, 13, 17, 40, 100, 600])
    b = bytes(rng.randrange(256) for _ in range(n))
    if k == 0 and n >= 12:
        b = header(rng.randrange(65536), qd=rng.choice([0, 1, 2]), an=rng.choice([0, 1, 3, 300])) + b[12:]
    elif k == 1:
        b = bytes([0x10, 0xd1, 0x9e]) + b
    return b


# ---- cases of harness/h_hsfuzz.c ----------------------------------------------------------------

def hs_case(step, qtype=T_NULL, uid=3, lazy=1, downenc=32, seed=0, arg=0, items=()):
    def it(x):
        if isinstance(x, str):
            return x
        mode, dg = x[0], x[1]
        s = mode + (dg.hex() if dg else '-')
        if len(x) > 2:
            s += '/%d' % x[2]
        return s
    return 'H %s %d %d %d %d %d %d ; %s' % (step, qtype, uid, lazy, downenc, seed, arg, ' ; '.join(it(x) for x in items))


# first characters of the question names of the handshake steps
STEP_CHAR = dict(version='v', login='l', rawudp='i', edns0='y', upenctest='z', upenc_auto='z', downenctest='y',
                 downenc_auto='y', qtypetest='y', qtype_auto='y', switch_codec='s', switch_downenc='o', try_lazy='o',
                 lazyoff='o', autoprobe='r', set_fragsize='n')
STEPS = list(STEP_CHAR) + ['full']
DOWNCODECCHECK1 = bytes([0o000, 0o000, 0o000, 0o000, 0o377, 0o377, 0o377, 0o377, 0o125, 0o125, 0o125, 0o125, 0o252, 0o252, 0o252, 0o252,
                         0o201, 0o143, 0o310, 0o322, 0o307, 0o174, 0o262, 0o027, 0o137, 0o117, 0o316, 0o311, 0o111, 0o055, 0o122, 0o041,
                         0o141, 0o251, 0o161, 0o040, 0o045, 0o263, 0o006, 0o163, 0o346, 0o330, 0o104, 0o060, 0o171, 0o120, 0o127, 0o277])
