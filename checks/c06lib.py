"""c06lib.py -- builders of (hostile) DNS replies for the C06 check: wire names with arbitrary
label bytes and compression pointers, answers of the 7 record types, mutation operators, and
the scripted-reply cases of harness/h_hsfuzz.c."""
import struct

T_A, T_CNAME, T_NULL, T_MX, T_TXT, T_SRV, T_PRIVATE = 1, 5, 10, 15, 16, 33, 65399
TYPES = [T_NULL, T_PRIVATE, T_TXT, T_SRV, T_MX, T_CNAME, T_A]
CODEC_LETTERS = b'TSUVR'
HOSTCHARS = {ord('T'): ord('h'), ord('S'): ord('i'), ord('U'): ord('j'), ord('V'): ord('k'), ord('R'): ord('h')}


def wname(s):
    """dotted bytes -> wire name (labels may be longer than 63: the length byte is written as is
    modulo 256, which is what a hostile sender can do)"""
    out = b''
    for lab in s.split(b'.'):
        if lab:
            out += bytes([len(lab) & 0xff]) + lab
    return out + b'\0'


def header(qid, qd=1, an=1, ns=0, ar=0, flags=0x8400):
    return struct.pack('>HHHHHH', qid & 0xffff, flags, qd & 0xffff, an & 0xffff, ns & 0xffff, ar & 0xffff)


def question(qname_wire, qtype):
    return qname_wire + struct.pack('>HH', qtype & 0xffff, 1)


def rr(rtype, rdata, rdlen=None, owner=b'\xc0\x0c', ttl=0):
    if rdlen is None:
        rdlen = len(rdata)
    return owner + struct.pack('>HHIH', rtype & 0xffff, 1, ttl, rdlen & 0xffff) + rdata


def txt_rdata(data, chunk=252):
    out = b''
    i = 0
    while i < len(data):
        c = data[i:i + chunk]
        out += bytes([len(c)]) + c
        i += chunk
    return out


def mx_rdata(pref, nm_wire, srv=False):
    return struct.pack('>H', pref & 0xffff) + (struct.pack('>HH', 10, 5060) if srv else b'') + nm_wire


def reply(qid, first, qtype, rrs, an=None, qd=1, qname=None, flags=0x8400, tail=b''):
    """a complete reply: question name starts with the character `first`"""
    qn = qname if qname is not None else wname(bytes([first]) + b'aaaq.t.example.com')
    body = b''.join(rrs)
    return header(qid, qd=qd, an=len(rrs) if an is None else an, flags=flags) + question(qn, qtype) + body + tail


def data_reply(qid, first, qtype, payload, rdlen=None):
    """payload delivered the way write_dns would for NULL/PRIVATE (raw), or as a TXT 'r' string,
    CNAME/A/MX/SRV are built by the real server in the other streams; here only raw carriers"""
    if qtype in (T_NULL, T_PRIVATE):
        return reply(qid, first, qtype, [rr(qtype, payload, rdlen)])
    if qtype == T_TXT:
        return reply(qid, first, qtype, [rr(T_TXT, txt_rdata(b'r' + payload), rdlen)])
    raise ValueError(qtype)


def hs_case(step, qtype=T_NULL, uid=3, lazy=1, downenc=32, seed=0, arg=0, items=()):
    def it(x):
        if isinstance(x, str):
            return x
        mode, dg = x[0], x[1]
        s = mode + (dg.hex() if dg else '-')
        if len(x) > 2:
            s += '/%d' % x[2]
        return s
    return 'H %s %d %d %d %d %d %d ; %s' % (step, qtype, uid, lazy, downenc, seed, arg, ' ; '.join(it(x) for x in items))
