"""authlib.py -- shared by the checks C03 (no access without login) and C04 (session isolation):
targeted server histories built on srvlib.HistGen (by subclassing; srvlib itself is shared and
unchanged), a parser for the history inputs (what each datagram asks for and which userid it names,
read from the bytes the way iodined.c does) and for the per-event output lines of
harness/h_srvhist.c, and the run / diff / replay helpers."""
import os, re
import vlib, srvlib
from srvlib import Session, enc, qname, b32c, login_stub, CB32

TUNNEL_TYPES = (10, 65399, 5, 1, 15, 33, 16)
REV32 = [0] * 256
for _i, _c in enumerate(CB32):
    REV32[_c] = _i
    REV32[_c ^ 0x20 if 97 <= _c <= 122 else _c] = _i


def b32_decode(s):
    """base32_decode of src/base32.c: illegal characters decode to zero, stops at NUL"""
    out = bytearray()
    n = len(s)
    z = s.find(b'\0')
    if z >= 0:
        n = z
    i = 0
    r = lambda k: REV32[s[k]]
    while True:
        if i + 1 >= n:
            break
        out.append(((r(i) & 0x1f) << 3) | ((r(i + 1) & 0x1c) >> 2))
        i += 1
        if i + 2 >= n:
            break
        out.append(((r(i) & 0x03) << 6) | ((r(i + 1) & 0x1f) << 1) | ((r(i + 2) & 0x10) >> 4))
        i += 2
        if i + 1 >= n:
            break
        out.append(((r(i) & 0x0f) << 4) | ((r(i + 1) & 0x1e) >> 1))
        i += 1
        if i + 2 >= n:
            break
        out.append(((r(i) & 0x01) << 7) | ((r(i + 1) & 0x1f) << 2) | ((r(i + 2) & 0x18) >> 3))
        i += 2
        if i + 1 >= n:
            break
        out.append(((r(i) & 0x07) << 5) | (r(i + 1) & 0x1f))
        i += 2
    return bytes(out)


def schar(b):
    return b - 256 if b >= 128 else b


def parse_dns_query(dg):
    """(qid, qtype, name) of a plain query datagram, or None when it is anything the simple reader
    does not cover (compression pointers, NUL bytes inside labels, truncation, a response): those
    events are treated as 'unparsed' by the monitors"""
    if len(dg) < 17:
        return None
    if dg[2] & 0x80:
        return None
    qd = (dg[4] << 8) | dg[5]
    if qd < 1:
        return None
    p = 12
    labels = []
    total = 0
    while True:
        if p >= len(dg):
            return None
        c = dg[p]
        p += 1
        if c == 0:
            break
        if c & 0xc0:
            return None
        if p + c > len(dg):
            return None
        lab = dg[p:p + c]
        if b'\0' in lab:
            return None
        labels.append(lab)
        total += c + 1
        if total > 255:
            return None
        p += c
    if p + 4 > len(dg):
        return None
    qtype = (dg[p] << 8) | dg[p + 1]
    return ((dg[0] << 8) | dg[1], qtype, b'.'.join(labels))


HEX = b'0123456789abcdefABCDEF'


def classify(dg, domain):
    """what the datagram asks for, as iodined.c reads it.
    kind: raw_login/raw_data/raw_ping/raw_other, V L I Z S O Y R N P D (data), other (reaches
    handle_null_request, unknown letter), infra (NS / ns. / www. / foreign domain / other type),
    short (dl < 2), unparsed."""
    r = dict(kind='unparsed', uid=None, pre=None)
    if len(dg) >= 4 and dg[:3] == b'\x10\xd1\x9e':
        cmd = dg[3] & 0xf0
        r['uid'] = dg[3] & 0x0f
        r['kind'] = {0x10: 'raw_login', 0x20: 'raw_data', 0x30: 'raw_ping'}.get(cmd, 'raw_other')
        r['payload'] = dg[4:]
        return r
    q = parse_dns_query(dg)
    if q is None:
        return r
    qid, qtype, name = q
    r['qid'] = qid
    r['qtype'] = qtype
    ln, ld = name.lower(), domain.lower()
    if ln == ld:
        dl = 0
    elif ln.endswith(b'.' + ld):
        dl = len(name) - len(domain)
    else:
        r['kind'] = 'infra'
        return r
    data = name[:dl]
    if qtype == 2 or qtype not in TUNNEL_TYPES:
        r['kind'] = 'infra'
        return r
    if qtype == 1 and ((dl == 3 and ln[:3] == b'ns.') or (dl == 4 and ln[:4] == b'www.')):
        r['kind'] = 'infra'
        return r
    if dl < 2:
        r['kind'] = 'short'
        return r
    r['dl'] = dl
    c0 = data[0:1].lower()
    unpacked = b32_decode(data[1:dl].replace(b'.', b''))
    r['unpacked'] = unpacked
    r['data'] = data
    u0 = schar(unpacked[0]) if unpacked else 0
    d1 = REV32[data[1]]
    BADLEN = 'BADLEN'
    if c0 == b'v':
        r['kind'] = 'V'
    elif c0 == b'l':
        r['kind'] = 'L'
        r['uid'] = u0
        r['pre'] = BADLEN if len(unpacked) < 17 else None
    elif c0 == b'i':
        r['kind'] = 'I'
        r['uid'] = d1
    elif c0 == b'z':
        r['kind'] = 'Z'
    elif c0 in (b's', b'o'):
        r['kind'] = c0.upper().decode()
        r['uid'] = d1
        r['pre'] = BADLEN if dl < 3 else None
    elif c0 == b'y':
        r['kind'] = 'Y'
    elif c0 == b'r':
        r['kind'] = 'R'
        r['uid'] = (d1 >> 1) & 15
        r['pre'] = BADLEN if dl < 16 else None
    elif c0 == b'n':
        r['kind'] = 'N'
        r['uid'] = u0
        r['pre'] = BADLEN if len(unpacked) < 3 else None
    elif c0 == b'p':
        r['kind'] = 'P'
        r['uid'] = u0
        r['pre'] = '' if (qid == 0 or len(unpacked) < 4) else None
    elif data[0:1] in [bytes([x]) for x in HEX]:
        r['kind'] = 'D'
        ch = data[0]
        r['uid'] = ch - 48 if 48 <= ch <= 57 else (ch - 87 if 97 <= ch <= 102 else ch - 55)
        r['pre'] = '' if (dl < 6 or qid == 0) else None
    else:
        r['kind'] = 'other'
    return r


# ------------------------------------------------------------------------------------------------
# history inputs / outputs

class Cfg:
    def __init__(self, toks):
        self.domain = bytes.fromhex(toks[0])
        self.password = bytes.fromhex(toks[1]) if toks[1] != '-' else b''
        self.check_ip = int(toks[2]) != 0
        self.myip = toks[3]
        self.netbits = int(toks[4])
        a, b, c, d = [int(x) for x in self.myip.split('.')]
        host = (a << 24) | (b << 16) | (c << 8) | d
        size = 1 << (32 - self.netbits)
        net = host - host % size
        n = min(16, size - 3)
        ips, skip = [], 0
        for i in range(n):
            ipn = net + i + skip + 1
            if ipn == host and skip == 0:
                skip = 1
                ipn = net + i + skip + 1
            ips.append(ipn)
        self.tun_ips = ips          # host order; the packet carries them big-endian at offset 20
        self.nusers = n


def parse_history(line):
    """-> (Cfg, [event dict]) ; event: kind X/T/S, now, from (fam, iphex, port), dg bytes, pkt bytes"""
    parts = line.split(' ; ')
    head = parts[0].split(' ')
    cfg = Cfg(head[1:])
    evs = []
    for p in parts[1:]:
        t = p.split(' ')
        if t[0] == 'X':
            fam, ip, port = t[3].split(':')
            dg = bytes.fromhex(t[5]) if t[5] != '-' else b''
            evs.append(dict(kind='X', now=int(t[1]), rnd=int(t[2]), src=(2 if fam == '4' else 10, ip, int(port)), dg=dg, text=p))
        elif t[0] == 'T':
            evs.append(dict(kind='T', now=int(t[1]), pkt=bytes.fromhex(t[2]) if t[2] != '-' else b'', text=p))
        elif t[0] == 'S':
            evs.append(dict(kind='S', now=int(t[1]), text=p))
        else:
            evs.append(dict(kind='?', now=0, text=p))
    return cfg, evs


SEND_RE = re.compile(r'^(\d+):([0-9a-f]*):(\d+)=([^{]*)(?:\{(-?\d+):([^}]*)\})?$')


def parse_event_out(s):
    """-> dict(sends=[dict(fam, ip, port, data, rv, dec)], tuns=[...], dig={slot: {letter: text}}, raw=s) or None"""
    if ' | ' not in s and not s.endswith(' |'):
        return None
    left, _, right = s.partition(' |')
    toks = left.split(' ')
    try:
        n = int(toks[0])
    except ValueError:
        return None
    sends = []
    k = 1
    for _ in range(n):
        m = SEND_RE.match(toks[k])
        k += 1
        if not m:
            return None
        sends.append(dict(fam=int(m.group(1)), ip=m.group(2), port=int(m.group(3)), data=m.group(4),
                          rv=int(m.group(5)) if m.group(5) is not None else None, dec=m.group(6)))
    if k >= len(toks) or not toks[k].startswith('T'):
        return None
    nt = int(toks[k][1:])
    tuns = toks[k + 1:k + 1 + nt]
    dig = {}
    for d in right.strip().split(' '):
        if not d:
            continue
        i, _, r = d.partition(':')
        f = {}
        for fld in r.split(','):
            if fld:
                f[fld[0]] = fld[1:]
        f['_'] = r
        dig[int(i)] = f
    return dict(sends=sends, tuns=tuns, dig=dig, raw=s)


def split_events(outline):
    return outline.split(' ; ')


def hex_ascii(s):
    return s.encode().hex()


BADIP = hex_ascii('BADIP')
BADLEN = hex_ascii('BADLEN')
VACK = hex_ascii('VACK')


def vacks(o):
    """[(uid, seed)] announced in this event's answers"""
    r = []
    for s in o['sends']:
        if s['rv'] == 9 and s['dec'] and s['dec'].startswith(VACK):
            b = bytes.fromhex(s['dec'])
            r.append((b[8], int.from_bytes(b[4:8], 'big')))
    return r


# ------------------------------------------------------------------------------------------------
# targeted histories

class AuthGen(srvlib.HistGen):
    """HistGen plus scenarios aimed at the case splits of the C03 / C04 proofs"""

    SCENARIOS_C03 = ['replay', 'rawfirst', 'preauth', 'baduid', 'many', 'badlogin_then_use']
    SCENARIOS_C04 = ['spoof', 'expiry', 'route', 'many', 'replay', 'rebind']

    def sess(self, k, fam=4):
        ip = bytes([192, 0, 2, 10 + k]) if fam == 4 else bytes([0x20, 1, 0xd, 0xb8] + [0] * 11 + [k + 1])
        s = Session(self, (fam, ip, 4000 + k))
        self.sessions.append(s)
        return s

    def clone_as(self, victim, addr):
        """a sender at addr that claims to be session victim (same userid, seed, counters)"""
        x = Session(self, addr)
        x.uid, x.seed, x.codec, x.auth = victim.uid, victim.seed, victim.codec, True
        x.up_seq, x.up_frag, x.dn_seq, x.dn_frag, x.cmc = victim.up_seq, victim.up_frag, victim.dn_seq, victim.dn_frag, victim.cmc + 7
        return x

    def hs(self, s, login=True, good=True):
        self.version(s)
        self.tick()
        if login:
            self.login(s, good=good)
            self.tick()

    def jump(self, k):
        self.now += k
        self.stats['timejump'] += 1

    def named(self, s, kind, uid):
        """one request of the given kind naming an arbitrary userid byte"""
        r = self.rng
        s.rs = (s.rs + 1) & 0xffff
        cm = b32c(s.rs >> 10) + b32c(s.rs >> 5) + b32c(s.rs)
        if kind == 'L':
            h = login_stub(self.password, s.seed)
            name = qname(b'l', enc(0, bytes([uid & 255]) + h + bytes([s.rs >> 8, s.rs & 255])), self.domain)
        elif kind == 'P':
            name = qname(b'p', enc(0, bytes([uid & 255, 0, s.rs >> 8, s.rs & 255])), self.domain)
        elif kind == 'N':
            name = qname(b'n', enc(0, bytes([uid & 255, 0, 200, s.rs >> 8, s.rs & 255])), self.domain)
        elif kind == 'I':
            name = b'i' + b32c(uid) + cm + b'.' + self.domain
        elif kind == 'S':
            name = b's' + b32c(uid) + b32c(r.choice([5, 6, 26, 7])) + cm + b'.' + self.domain
        elif kind == 'O':
            name = b'o' + b32c(uid) + r.choice(b'tsuvrli').to_bytes(1, 'big') + cm + b'.' + self.domain
        elif kind == 'R':
            name = qname(b'r' + b32c((uid << 1) & 31) + b32c(3) + b32c(4) + b'd', enc(0, bytes([7] * 20)), self.domain)
        else:
            hdr = ('%x' % (uid & 15)).encode() + b32c(r.randrange(32)) + b32c(r.randrange(32)) + b32c(1) + b'q'
            name = qname(hdr, enc(0, bytes([0x5A]) + bytes(r.randrange(256) for _ in range(30))), self.domain)
        self.emit_query(s.addr, name)
        self.stats['spoof'] = self.stats.get('spoof', 0) + 1

    def scenario(self, kind):
        r = self.rng
        self.scn = kind
        A = self.sess(0, fam=4 if r.randrange(3) else 6)
        B = self.sess(1, fam=4 if r.randrange(4) else 6)
        outside = 0x08080808
        if kind == 'replay':
            self.hs(A)
            for _ in range(r.randrange(3)):
                self.ping(A)
                self.tick()
            self.jump(r.choice([59, 60, 61, 62, 120]))
            old_uid, old_seed = A.uid, A.seed
            self.hs(B, login=r.randrange(2) == 0)
            # A replays the login computed for its old challenge, then tries to use the tunnel
            A.uid, A.seed = old_uid, old_seed
            self.login(A, good=True)
            self.tick()
            self.upstream_packet(A, dst_ip=outside)
            self.option(A)
            self.raw(A, 'login')
            self.login(B)
            self.upstream_packet(B, dst_ip=outside)
        elif kind == 'rawfirst':
            self.version(A)
            self.tick()
            for k in ['login', 'data', 'ping', 'login']:
                self.raw(A, k)
                self.tick()
            self.login(A, good=r.randrange(4) > 0)
            for k in ['data', 'ping', 'login', 'data', 'ping', 'badlogin', 'data']:
                self.raw(A, k)
                self.tick()
            self.hs(B)
            self.raw(B, 'data')
        elif kind == 'preauth':
            self.version(A)
            self.tick()
            for k in 'NSOIRPD':
                self.named(A, k, A.uid if A.uid is not None else 0)
                self.tick()
            for _ in range(3):
                self.option(A)
            self.upstream_packet(A, dst_ip=outside)
            self.login(A, good=False)
            self.upstream_packet(A, dst_ip=outside)
            self.named(A, 'N', A.uid or 0)
            self.login(A)
            self.upstream_packet(A, dst_ip=outside)
            self.named(A, 'N', A.uid or 0)
        elif kind == 'baduid':
            self.hs(A)
            for uid in [16, 17, 31, 127, 128, 200, 255, self.nusers, self.nusers - 1, 1]:
                self.named(A, r.choice('LPN'), uid)
                self.tick()
            for uid in range(0, 32, 3):
                self.named(A, r.choice('ISOR'), uid)
            self.hs(B)
            for uid in range(16):
                self.named(B, 'D', uid)
        elif kind == 'badlogin_then_use':
            self.version(A, nul_hash=(r.randrange(2) == 0))
            self.tick()
            # near misses: one byte off at either end or in the middle, all zeros, equal up to a NUL byte; a wrong hash in a
            # message of 17 / 18 decoded bytes (userid + 16 bytes without / with half of the cache-miss counter)
            for m in r.sample(['first', 'last', 'zeros', 'after-nul', str(r.randrange(1, 15)), 'len17', 'len18'], 4):
                self.login(A, good=False, mode=m)
                self.upstream_packet(A, dst_ip=outside)
                self.ping(A)
            for d in [1, -1, 0]:
                self.login(A, good=(d != 0), seed_delta=d)    # the response to another challenge / a corrupted one
                self.tick()
                self.upstream_packet(A, dst_ip=outside)
                self.option(A)
                self.ping(A)
            self.login(A)
            self.upstream_packet(A, dst_ip=outside)
        elif kind == 'many':
            ss = [A, B] + [self.sess(k) for k in range(2, 19)]
            for s in ss:
                self.hs(s, login=r.randrange(3) > 0)
            self.jump(r.choice([30, 59, 60, 61]))
            for s in ss[:4]:
                self.ping(s)
            self.jump(r.choice([1, 30, 59, 60, 61]))
            for s in ss[10:]:
                self.hs(s)
            for s in ss[:3]:
                self.ping(s)
                self.upstream_packet(s, dst_ip=outside)
        elif kind == 'spoof':
            self.hs(A)
            self.hs(B)
            C = self.sess(2)
            X = self.clone_as(A, B.addr)          # B's address, A's identity
            Y = self.clone_as(A, C.addr)          # a third party, A's identity
            Z = self.clone_as(A, (A.addr[0], A.addr[1], A.addr[2] + 77))   # A's address, other port: same session
            # neighbours of A's own address: differing in exactly one byte, at either end and in the middle
            # (an address comparison that looks at a prefix or a suffix only would accept one of them)
            ipb = A.addr[1]
            near = []
            for pos in sorted(set([0, len(ipb) - 1, len(ipb) // 2, 3 if len(ipb) > 4 else 1, 4 if len(ipb) > 4 else 2])):
                nb = bytearray(ipb)
                nb[pos] ^= r.choice([1, 0x80, 0x10])
                near.append(self.clone_as(A, (A.addr[0], bytes(nb), A.addr[2])))
            r.shuffle(near)
            for w in [X, Y, Z, X] + near[:3]:
                self.ping(w)
                self.data(w)
                self.named(w, r.choice('LNISORPD'), A.uid or 0)
                self.login(w)
                self.option(w)
                self.upstream_packet(w, dst_ip=r.choice([outside, self.tun_ips[B.uid or 0]]))
                self.tick()
            for uid in range(16):
                self.named(C, r.choice('PDNI'), uid)
            self.tun(dst_ip=self.tun_ips[A.uid or 0])
            self.ping(A)
        elif kind == 'expiry':
            self.hs(A)
            self.hs(B)
            self.ping(A)
            k = r.choice([58, 59, 60, 61, 62])
            self.jump(k)
            self.tun(dst_ip=self.tun_ips[A.uid or 0])
            what = r.randrange(4)
            if what == 0:
                self.ping(A)
            elif what == 1:
                self.named(A, r.choice('NSOIRD'), A.uid or 0)
            elif what == 2:
                self.raw(A, 'login')
            else:
                C = self.sess(2)
                self.version(C)
            C = self.sess(3)
            self.hs(C)
            self.ping(A)
            self.ping(B)
            self.tun(dst_ip=self.tun_ips[A.uid or 0])
        elif kind == 'route':
            self.hs(A)
            self.hs(B)
            C = self.sess(2)
            self.version(C)                       # allocated, never logged in
            ipA, ipB = self.tun_ips[A.uid or 0], self.tun_ips[B.uid or 0]
            ipC = self.tun_ips[C.uid] if C.uid is not None and C.uid < len(self.tun_ips) else outside
            for _ in range(2):
                self.ping(A)
                self.ping(B)
                self.tun(dst_ip=ipA)
                self.tun(dst_ip=ipB, n=r.choice([24, 60, 300]))
                self.tun(dst_ip=ipB, n=r.choice([1, 5, 20, 23]))       # too short to have a destination
                self.tun(dst_ip=ipC)                                   # owner not logged in
                self.tun(dst_ip=outside)
                self.upstream_packet(A, dst_ip=ipB)                    # client to client
                self.upstream_packet(B, dst_ip=r.choice([ipA, ipC, outside]))
                self.sweep()
            self.raw(B, 'login')
            self.tun(dst_ip=ipB)
            self.raw(A, 'data')
        elif kind == 'rebind':
            self.hs(A)
            self.hs(B)
            X = self.clone_as(A, B.addr)
            for k in ['badlogin', 'data', 'ping', 'login', 'data', 'ping']:
                self.raw(X, k)
                self.tick()
            self.ping(A)
            self.ping(X)
            self.tun(dst_ip=self.tun_ips[A.uid or 0])

    def build_targeted(self, kind, nevents):
        r = self.rng
        self.scenario(kind)
        guard = 0
        while len(self.events) < nevents and guard < 4 * nevents:
            guard += 1
            s = r.choice(self.sessions)
            x = r.random()
            if x < 0.2:
                self.ping(s)
            elif x < 0.35:
                self.data(s)
            elif x < 0.45:
                self.upstream_packet(s)
            elif x < 0.57:
                self.tun()
            elif x < 0.63:
                self.sweep()
            elif x < 0.70:
                self.option(s)
            elif x < 0.78:
                self.raw(s)
            elif x < 0.84:
                self.named(s, r.choice('LNISORPD'), r.randrange(20))
            elif x < 0.88:
                self.login(s, good=r.random() > 0.3, seed_delta=r.choice([0, 0, 1, -1]))
            elif x < 0.91:
                self.version(s)
            elif x < 0.95:
                self.tick(big=True)
            else:
                self.hostile(s)
            self.tick()
        return 'H ' + self.cfg() + ' ; ' + ' ; '.join(self.events[:nevents])


def gen_targeted(seed, n, nevents, tag, scenarios, check_ip=None):
    rng = vlib.rng_for(seed, tag)
    out, stats, kinds = [], {}, {}
    for k in range(n):
        g = AuthGen(rng)
        if check_ip is not None:
            g.check_ip = check_ip if not callable(check_ip) else check_ip(rng)
        kind = scenarios[k % len(scenarios)]
        out.append(g.build_targeted(kind, nevents if isinstance(nevents, int) else rng.choice(nevents)))
        kinds[kind] = kinds.get(kind, 0) + 1
        for a, v in g.stats.items():
            stats[a] = stats.get(a, 0) + v
    stats['scenarios'] = kinds
    return out, stats


def corpus_lines(*names):
    out = []
    for nm in names:
        cp = os.path.join(vlib.VERIF, 'corpus', nm)
        if os.path.isdir(cp):
            for fn in sorted(os.listdir(cp)):
                for l in open(os.path.join(cp, fn)):
                    l = l.strip()
                    if l and not l.startswith('#'):
                        out.append(l)
    return out


def first_event_diff(a, b):
    ea, eb = split_events(a), split_events(b)
    for i in range(min(len(ea), len(eb))):
        if ea[i] != eb[i]:
            return i, ea[i], eb[i]
    if len(ea) != len(eb):
        return min(len(ea), len(eb)), '<missing>', '<missing>'
    return None


def truncate_history(line, upto):
    """the history cut after event index upto (0-based), for a short replay"""
    parts = line.split(' ; ')
    return ' ; '.join(parts[:upto + 2])


def run_check(rep, prop, monitor, targeted_scenarios, tags, extra_harnesses=None, extra_stage=None):
    """the common body of checks/c03.py and checks/c04.py"""
    hs = {'srv': srvlib.SRV}
    hs.update(extra_harnesses or {})
    ctx = vlib.prepare(rep, harnesses=hs, sanitize=(rep.tier == 'thorough'), model='SRV')
    quick = rep.tier == 'quick'
    corpus = corpus_lines(prop, 'SRV')
    n_gen, ev_gen = (200, 90) if quick else (1200, 150)
    n_tgt, ev_tgt = (320, 70) if quick else (1800, 110)
    gen, st1 = srvlib.gen_histories(rep.seed, n_gen, ev_gen, tags[0])
    tgt, st2 = gen_targeted(rep.seed, n_tgt, ev_tgt, tags[1], targeted_scenarios)
    cases = corpus + tgt + gen
    rep.cov['input_distribution'] = dict(corpus=len(corpus), targeted=len(tgt), generic=len(gen),
                                         targeted_stats=st2, generic_stats=st1)
    impl = None
    counters = {}
    if 'srv' in ctx.exe:
        rc, impl, err = vlib.parallel_run_cases(ctx.exe['srv'], cases, ctx.work, 'impl')
        if rc != 0:
            idx = next((i for i, l in enumerate(impl) if l == '<NO-OUTPUT>'), None)
            rep.add_violation('impl-crash', 'the server harness exited with %d: %s' % (rc, err[-300:]),
                              dict(kind='input', driver='srv', case=cases[idx] if idx is not None else None, observed=err[-1500:]))
        nev = 0
        for c, o in zip(cases, impl):
            if o == '<NO-OUTPUT>':
                continue
            res = monitor(c, o, counters)
            nev += c.count(' ; ')
            if res:
                key, what, upto = res
                short = truncate_history(c, upto)
                rep.add_violation(key, what, dict(kind='input', driver='srv', case=short, expected=what,
                                                  observed=split_events(o)[upto][:1500] if upto < len(split_events(o)) else ''))
                break
        rep.cov['evaluations'] = nev
        rep.cov['histories'] = len(cases)
        rep.cov['monitor_counts'] = counters
        rep.cov['distinct_nontrivial'] = len(set(cases))
    rep.cov['samples'] = [c[:400] for c in (cases[:1] + tgt[:2] + gen[:1])]
    if ctx.model and impl is not None:
        # model / implementation diff: all of the corpus, then an even share of targeted and generic
        if quick:
            sub = list(range(len(corpus))) + list(range(len(corpus), len(corpus) + len(tgt), 4)) + \
                  list(range(len(corpus) + len(tgt), len(cases), 4))
        else:
            sub = list(range(len(cases)))
        mc = [cases[i] for i in sub]
        # answers to CNAME / MX / SRV queries carry a suffix that rotates per answer within one process: both
        # sides must see the same sequence of histories, so the subset is run on the implementation again
        rc, impl2, err = vlib.parallel_run_cases(ctx.exe['srv'], mc, ctx.work, 'impl2')
        rc, mod, err = vlib.parallel_run_cases(ctx.model, mc, ctx.work, 'model')
        if rc != 0:
            ctx.broken.append(('model-crash', 'the extracted model exited with %d: %s' % (rc, err[-300:])))
        ok = 0
        for i, a2, m in zip(sub, impl2, mod):
            if a2 == m:
                ok += 1
                continue
            d = first_event_diff(a2, m)
            if d is None:
                continue
            k, a, b = d
            ctx.broken.append(('correspondence', 'model and implementation disagree at event %d of history %r...: impl=%r model=%r' % (
                k, truncate_history(cases[i], k)[-400:], a[:400], b[:400])))
            break
        rep.cov['traces_validated_against_impl'] = ok
        rep.cov['model_diff_histories'] = len(mc)
        if 'srv' in ctx.san:
            sub2 = cases[::7]
            rc, sl, err = vlib.parallel_run_cases(ctx.san['srv'], sub2, ctx.work, 'san')
            rep.cov['sanitizer_cases'] = len(sub2)
            if rc != 0:
                idx = next((i for i, l in enumerate(sl) if l == '<NO-OUTPUT>'), None)
                rep.add_violation('sanitizer', 'ASan/UBSan report: ' + err[-400:],
                                  dict(kind='input', driver='srv.san', case=sub2[idx] if idx is not None else None, observed=err[-2000:]))
    if extra_stage is not None:
        extra_stage(rep, ctx)
    if not rep.violations:
        ctx.report_broken()
    return rep


def run_replay(rp, prop, monitor):
    rep = vlib.Report(prop, 'quick', rp.get('seed', 1))
    ctx = vlib.prepare(rep, harnesses={'srv': srvlib.SRV}, sanitize=False, prove_it=False, model='SRV')
    case = rp.get('case')
    if not case:
        print('replay names a broken obligation, not an input:', rp.get('broken'))
        return 1
    cp = os.path.join(ctx.work, 'replay.cases')
    open(cp, 'w').write(case + '\n')
    rc, impl, err = vlib.run_cases(ctx.exe['srv'], cp)
    print('case :', case[-600:])
    print('impl :', impl[0][-600:] if impl else err)
    if ctx.model:
        rc2, mod, err2 = vlib.run_cases(ctx.model, cp)
        print('model:', mod[0][-600:] if mod else err2)
    res = monitor(case, impl[0], {}) if impl else ('crash', 'crash', 0)
    print('oracle:', res[1] if res else 'ok')
    return 1 if res else 0
