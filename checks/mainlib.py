"""mainlib.py -- the command lines of the two programs: the real main() of src/iodine.c and src/iodined.c run on a scripted
argv, standard input and environment (harness/h_mainargs.inc, h_c17cli.c, h_c17srv.c; one forked process per command line).
The client's run ends when main() calls client_handshake(), the server's when it calls open_tun(); reported is what main()
handed to the rest of the program by then.

Used by the startup stages of C17 (tunnel domain), C18 (netmask), C08 (hostname-length limit -M) and C19 (password).
The oracles are written from the usage text / man page and the property texts, never from the code:
  -M n      hostname-length limit, clamped to 10..255, default 255; nothing else touches it
  -P pw     the password: its first 32 bytes, zero-padded (the buffer the login hash is computed over is 32 bytes + NUL);
            the last -P counts; without -P the environment variable, else one line from standard input (up to 79 characters,
            the newline is not part of it)
"""
import vlib
from vlib import hexs

MAIN_WRAPS = ['open_tun', 'exit', 'errx', 'err', 'check_superuser', 'get_addr', 'time']
CLIMAIN = dict(harness=['hmain.c', 'h_c17cli.c'], repo=vlib.COMMON_SRCS + ['util.c', 'client.c'],
               wraps=MAIN_WRAPS + ['client_set_topdomain', 'client_set_password', 'client_set_hostname_maxlen', 'client_set_selecttimeout',
                                   'client_set_lazymode', 'client_set_qtype', 'client_set_downenc', 'client_set_nameserver', 'client_init',
                                   'open_dns_from_host', 'client_handshake'])
SRVMAIN = dict(harness=['hmain.c', 'h_c17srv.c'], repo=vlib.COMMON_SRCS + ['user.c', 'fw_query.c'], wraps=MAIN_WRAPS)


def aline(args, stdin=None, env=None):
    pre = ''
    if stdin is not None:
        pre += 'i=%s ' % hexs(stdin)
    if env is not None:
        pre += 'e=%s ' % hexs(env)
    return 'A ' + pre + ' '.join(hexs(a) for a in args)


def fields(out):
    """'ACCEPT client k=v ...' / 'ACCEPT server k=v ...' -> dict; None for REJECT / CRASH"""
    if not out.startswith('ACCEPT'):
        return None
    return dict(x.split('=', 1) for x in out.split(' ') if '=' in x)


def pad33(pw):
    return (bytes(pw)[:32] + bytes(33))[:33]


def password_text(rng, n=None):
    """a password without NUL and newline (and not starting with '-' so that getopt takes it as the option's argument either way)"""
    if n is None:
        n = rng.choice([1, 2, 5, 8, 16, 31, 32, 33, 40, 64, 78, 79])
    alpha = bytes(c for c in range(1, 256) if c not in (10,))
    return bytes(rng.choice(alpha) for _ in range(n))


def gen_password_cases(rng, n):
    """(which, stdin, env, args, expected 33-byte buffer, what) for client and server"""
    cases = []
    for k in range(n):
        for which in ('cli', 'srv'):
            tail = [b'127.0.0.1', b't.example.com'] if which == 'cli' else [b'10.0.0.1/27', b't.example.com']
            mode = rng.randrange(8)
            stdin = env = None
            opts = [b'-f']
            if mode <= 1:
                pw = password_text(rng)
                opts += [b'-P', pw]
                what = '-P <%d bytes>' % len(pw)
            elif mode == 2:
                # given twice: the last one counts, nothing of the first may survive (longer first, shorter second)
                first = password_text(rng, rng.choice([20, 32, 40]))
                pw = password_text(rng, rng.choice([1, 5, 12]))
                opts += [b'-P', first, b'-P', pw]
                what = '-P <%d bytes> -P <%d bytes>' % (len(first), len(pw))
            elif mode == 3:
                pw = password_text(rng, rng.choice([1, 8, 31, 32, 33, 60]))
                env = pw
                what = 'environment variable, %d bytes' % len(pw)
            elif mode == 4:
                pw = password_text(rng)
                env = password_text(rng)
                opts += [b'-P', pw]
                what = '-P beats the environment variable'
            else:
                # prompt: one line from standard input, with / without the newline, with text after it
                pw = password_text(rng, rng.choice([1, 6, 31, 32, 33, 78, 79]))
                end = rng.choice([b'\n', b'', b'\nsecond line\n', b'\n\n'])
                stdin = pw + end
                what = 'prompt, %d bytes, line end %r' % (len(pw), end)
                if mode == 7:
                    # other options around it must not matter
                    opts += rng.choice([[b'-M', b'200'], [b'-m', b'500'], [b'-L', b'0']]) if which == 'cli' else rng.choice([[b'-c'], [b'-m', b'1200']])
            cases.append((which, stdin, env, opts + [b'--'] + tail, pad33(pw), what))
    return cases


def password_stage(rep, ctx):
    """C19: the 33-byte buffer the login hash is computed over, as main() of either program prepares it"""
    if 'climain' not in ctx.exe or 'srvmain' not in ctx.exe:
        return
    rng = vlib.rng_for(rep.seed, 'c19-main')
    cases = gen_password_cases(rng, 60 if rep.tier == 'quick' else 600)
    outs = {}
    for which, exe in (('cli', ctx.exe['climain']), ('srv', ctx.exe['srvmain'])):
        sel = [c for c in cases if c[0] == which]
        lines = [aline(c[3], c[1], c[2]) for c in sel]
        rc, out, err = vlib.parallel_run_cases(exe, lines, ctx.work, 'pwmain-' + which)
        if rc != 0:
            ctx.broken.append(('impl-crash', 'main() harness exited with %d: %s' % (rc, err[-300:])))
        for c, l, o in zip(sel, lines, out):
            outs[id(c)] = (l, o)
    # the model (Startup.startup_password, extracted) on the same inputs
    mod = None
    if ctx.model:
        ml = []
        for which, stdin, env, args, want, what in cases:
            ps = [args[i + 1] for i in range(len(args) - 1) if args[i] == b'-P']
            ml.append('PW %s %s %s' % ('U' if env is None else hexs(env), hexs(stdin or b''), ' '.join(hexs(p) for p in ps)))
        rcm, mod, errm = vlib.parallel_run_cases(ctx.model, [x.rstrip() for x in ml], ctx.work, 'pwmain-model')
    okc = 0
    for k, c in enumerate(cases):
        which, stdin, env, args, want, what = c
        l, o = outs[id(c)]
        if mod is not None and k < len(mod) and mod[k] != want.hex():
            ctx.broken.append(('correspondence', 'startup stage: model Startup.startup_password gives %s for %s, the documented buffer is %s' % (mod[k][:80], what, want.hex())))
            mod = None
        f = fields(o)
        prog = 'iodine' if which == 'cli' else 'iodined'
        if f is None or f.get('password') in (None, 'UNSET'):
            rep.add_violation('startup:password:%s-no-start' % prog, 'main() of %s does not get as far as using the password (%s): %s' % (prog, what, o[:80]),
                              dict(kind='input', driver=prog + '-main', case=l, observed=o, expected='ACCEPT with password=' + want.hex()))
            break
        got = bytes.fromhex(f['password'])
        if got != want:
            rep.add_violation('startup:password:%s' % prog, 'main() of %s, password given as %s: the 33-byte buffer the login hash is computed over is %s, '
                              'the zero-padded first 32 bytes of the password are %s (the response must depend on the password bytes and nothing else)' % (
                                  prog, what, got.hex(), want.hex()),
                              dict(kind='input', driver=prog + '-main', case=l, observed=o, expected=want.hex()))
            break
        okc += 1
    rep.cov['startup_password'] = dict(command_lines=len(cases), buffers_as_documented=okc)
    rep.cov['evaluations'] = rep.cov.get('evaluations', 0) + len(cases)
    rep.cov['rule'] += ('. Startup stage: %d command lines of both real main() functions with the password given by -P (once, twice), by the '
                        'environment variable, or at the prompt (line with / without newline, 1..79 bytes): the 33-byte buffer handed on is the '
                        'zero-padded first 32 bytes of the password' % len(cases))


def maxlen_stage(rep, ctx):
    """C08: the configured hostname-length limit L is what -M says (clamped to 10..255), whatever else is on the command line"""
    if 'climain' not in ctx.exe:
        return
    rng = vlib.rng_for(rep.seed, 'c08-main')
    n = 150 if rep.tier == 'quick' else 1500
    cases = []
    others = [[b'-m', b'200'], [b'-m', b'60'], [b'-m', b'1200'], [b'-L', b'0'], [b'-L', b'1'], [b'-I', b'2'], [b'-r'], [b'-T', b'txt'], [b'-T', b'NULL'],
              [b'-O', b'base32'], [b'-O', b'raw'], [b'-4'], [b'-P', b'pw2']]
    for k in range(n):
        opts = [[b'-f'], [b'-P', b'pw']]
        want = 255
        if rng.randrange(5):
            m = rng.choice([0, 1, 9, 10, 11, 99, 100, 150, 200, 254, 255, 256, 300, 1000, -5, rng.randrange(0, 400)])
            opts.append([b'-M', str(m).encode()])
            want = min(255, max(10, m))
        extra = [rng.choice(others) for _ in range(rng.randrange(0, 4))]
        allopts = opts + extra
        rng.shuffle(allopts)
        # a later -M wins over an earlier one
        if rng.randrange(6) == 0:
            m2 = rng.choice([50, 120, 255])
            allopts.append([b'-M', str(m2).encode()])
            want = m2
        flat = [x for o in allopts for x in o]
        cases.append((flat + [b'--', b'127.0.0.1', b't.example.com'], want))
    lines = [aline(a) for a, _ in cases]
    rc, out, err = vlib.parallel_run_cases(ctx.exe['climain'], lines, ctx.work, 'maxlen-main')
    if rc != 0:
        ctx.broken.append(('impl-crash', 'main() harness exited with %d: %s' % (rc, err[-300:])))
    okc = 0
    for (a, want), l, o in zip(cases, lines, out):
        f = fields(o)
        if f is None:
            rep.add_violation('startup:maxlen:no-start', 'main() of iodine refuses a command line of documented options: %s' % b' '.join(a).decode('latin1'),
                              dict(kind='input', driver='iodine-main', case=l, observed=o, expected='maxlen=%d' % want))
            break
        if int(f.get('maxlen', -1)) != want:
            rep.add_violation('startup:maxlen', 'iodine %s: the hostname-length limit handed to the client is %s, -M asks for %d (10..255, default 255)' % (
                b' '.join(a).decode('latin1'), f.get('maxlen'), want), dict(kind='input', driver='iodine-main', case=l, observed=o, expected='maxlen=%d' % want))
            break
        okc += 1
    rep.cov['startup_maxlen'] = dict(command_lines=len(cases), limits_as_documented=okc)
    rep.cov['evaluations'] = rep.cov.get('evaluations', 0) + len(cases)
    rep.cov['rule'] += ('. Startup stage: %d command lines of the real main() of iodine.c mixing -M (in and out of 10..255, repeated) with the '
                        'other options in every order: the limit handed to client_set_hostname_maxlen is -M clamped to 10..255, else 255' % len(cases))


# ---- -L / -I / -m / -r / -T / -O: what the user forces reaches client_handshake() as documented (C11) -------------------------

QTYPE_NAMES = [b'NULL', b'PRIVATE', b'TXT', b'SRV', b'MX', b'CNAME', b'A']


def doc_settings(seq):
    """the usage text, applied in command-line order: (lazy, selecttimeout, raw, autofrag, fragsize) or None when refused"""
    lazy, st, raw, autofrag, frag = 1, 4, 1, 1, 3072
    for o, v in seq:
        if o == 'L':
            lazy = 1 if v > 1 else (0 if v < 0 else v)
            if lazy == 0:
                st = 1
        elif o == 'I':
            st = 1 if v < 1 else v
        elif o == 'm':
            autofrag, frag = 0, v
        elif o == 'r':
            raw = 0
    if not 1 <= frag <= 65535:
        return None
    return dict(lazy=lazy, selecttimeout=st, raw=raw, autofrag=autofrag, fragsize=frag)


def settings_stage(rep, ctx):
    if 'climain' not in ctx.exe:
        return
    rng = vlib.rng_for(rep.seed, 'c11-main')
    n = 150 if rep.tier == 'quick' else 1500
    cases = []
    for k in range(n):
        seq = []
        for _ in range(rng.randrange(0, 5)):
            o = rng.choice('LLIImmr')
            v = {'L': rng.choice([0, 1, 2, -1, 5]), 'I': rng.choice([0, 1, 2, 4, 10, -3, 60]),
                 'm': rng.choice([0, 1, 2, 100, 200, 1200, 3072, 65535, 65536, -1, 70000]), 'r': 0}[o]
            seq.append((o, v))
        args = [b'-f', b'-P', b'pw']
        qt = None
        if rng.randrange(3) == 0:
            qt = rng.choice(QTYPE_NAMES + [b'null', b'Txt', b'cname', b'AAAA', b'NS', b'', b'TXTX', b'a'])
            args += [b'-T', qt]
        oenc = None
        if rng.randrange(3) == 0:
            oenc = rng.choice([b'base32', b'Base64', b'base64u', b'BASE128', b'raw', b'nonsense'])
            args += [b'-O', oenc]
        for o, v in seq:
            args += [b'-r'] if o == 'r' else [('-' + o).encode(), str(v).encode()]
        cases.append((args + [b'--', b'127.0.0.1', b't.example.com'], seq, qt, oenc))
    lines = [aline(a) for a, _, _, _ in cases]
    rc, out, err = vlib.parallel_run_cases(ctx.exe['climain'], lines, ctx.work, 'settings-main')
    if rc != 0:
        ctx.broken.append(('impl-crash', 'main() harness exited with %d: %s' % (rc, err[-300:])))
    mod = None
    ok, model, lg = vlib.build_model_driver('C19')
    if ok:
        ml = ['CS ' + ' '.join('r' if o == 'r' else '%s:%d' % (o, v) for o, v in seq) for _, seq, _, _ in cases]
        rcm, mod, errm = vlib.parallel_run_cases(model, [x.rstrip() for x in ml], ctx.work, 'settings-model')
    okc = 0
    for k, ((a, seq, qt, oenc), l, o) in enumerate(zip(cases, lines, out)):
        want = doc_settings(seq)
        if qt is not None and qt.upper() not in QTYPE_NAMES:
            want = None                 # "-T: NULL, PRIVATE, TXT, SRV, MX, CNAME, A" -- anything else is refused
        f = fields(o)
        cmd = b' '.join(a).decode('latin1')
        if (f is None) != (want is None):
            rep.add_violation('startup:settings:%s' % ('accepted' if f else 'refused'), 'iodine %s: main() %s this command line, the usage text %s it' % (
                cmd, 'accepts' if f else 'refuses', 'refuses' if f else 'accepts'), dict(kind='input', driver='iodine-main', case=l, observed=o, expected=str(want)))
            break
        if f is not None:
            got = {k2: int(f.get(k2, -99)) for k2 in want}
            if got != want:
                rep.add_violation('startup:settings', 'iodine %s: client_handshake() is called with %s, the options ask for %s' % (cmd, got, want),
                                  dict(kind='input', driver='iodine-main', case=l, observed=o, expected=str(want)))
                break
            if qt is not None and f.get('qtype') != hexs(qt):
                rep.add_violation('startup:settings:qtype', 'iodine %s: -T %r does not reach client_set_qtype unchanged (%s)' % (cmd, qt, f.get('qtype')),
                                  dict(kind='input', driver='iodine-main', case=l, observed=o))
                break
            if oenc is not None and f.get('downenc') != hexs(oenc):
                rep.add_violation('startup:settings:downenc', 'iodine %s: -O %r does not reach client_set_downenc unchanged (%s)' % (cmd, oenc, f.get('downenc')),
                                  dict(kind='input', driver='iodine-main', case=l, observed=o))
                break
        if mod is not None and k < len(mod) and not (qt is not None and qt.upper() not in QTYPE_NAMES):
            mw = 'REJECT' if doc_settings(seq) is None else ' '.join('%s=%d' % (k2, doc_settings(seq)[k2]) for k2 in ('lazy', 'selecttimeout', 'raw', 'autofrag', 'fragsize'))
            if mod[k] != mw:
                ctx.broken.append(('correspondence', 'settings stage: model Startup.csettings_of gives %r for %s, the documented settings are %r' % (mod[k], seq, mw)))
                mod = None
        okc += 1
    rep.cov['startup_settings'] = dict(command_lines=len(cases), as_documented=okc)
    rep.cov['evaluations'] = rep.cov.get('evaluations', 0) + len(cases)
    rep.cov['rule'] += ('. Settings stage: %d command lines of the real main() of iodine.c with -L / -I / -m / -r in every order and value (in and out '
                        'of range), -T (valid, other case, invalid names), -O: lazy mode, select time-out, raw mode, fragment-size probing and size as '
                        'client_handshake() receives them, and the -T / -O strings as the client receives them, are what the usage text says; same as '
                        'Startup.csettings_of' % len(cases))
