"""C09 -- downstream answers decode exactly (or to a prefix), monotonically in size.
Correspondence: real write_dns -> bytes -> real read_dns_withq vs the extracted model, for
every record type x downstream codec x every payload length.  Oracle on the implementation:
extracted == payload, or a proper prefix, or nothing; exactness is downward closed in length."""
import os, sys
import vlib
from vlib import hexs

TYPES = [('NULL', 10), ('PRIVATE', 65399), ('TXT', 16), ('SRV', 33), ('MX', 15), ('CNAME', 5), ('A', 1)]
CODECS = 'TSUVR'
from wirelib import WIRE

QNAME_SHORT = b'paaaq.t.example.com'
QNAME_LONG = (b'0abcd' + b'x' * 57 + b'.' + b'y' * 57 + b'.' + b'z' * 57 + b'.' + b'w' * 50 + b'.t.example.com')


def payload(kind, n, rng):
    if kind == 0:
        return bytes([0xff]) * n
    if kind == 1:
        return bytes(n)
    if kind == 2:  # fragsize probe pattern
        b = bytearray(n)
        v = 17
        for i in range(n):
            if i == 2:
                b[i] = 107
            elif i > 2:
                b[i] = v
                v = (v + 107) & 0xff
        if n >= 2:
            b[0] = (n >> 8) & 0xff
            b[1] = n & 0xff
        return bytes(b)
    return bytes(rng.randrange(256) for _ in range(n))


def gen_cases(seed, tier):
    rng = vlib.rng_for(seed, 'c09')
    cases = []
    meta = []
    stats = dict(corpus=0, sweep=0, random=0)
    cp = os.path.join(vlib.VERIF, 'corpus', 'C09')
    if os.path.isdir(cp):
        for fn in sorted(os.listdir(cp)):
            for l in open(os.path.join(cp, fn)):
                l = l.strip()
                if l and not l.startswith('#'):
                    cases.append(l)
                    meta.append(None)
                    stats['corpus'] += 1
    kinds = [3] if tier == 'quick' else [0, 1, 2, 3]
    qnames = [QNAME_SHORT] if tier == 'quick' else [QNAME_SHORT, QNAME_LONG]
    for tname, ty in TYPES:
        for ce in CODECS:
            for qn in qnames:
                for kind in kinds:
                    # every length 2..4096 (quick: every length up to 300, then steps of 7 plus boundaries)
                    if tier == 'quick':
                        lens = list(range(2, 300)) + list(range(300, 4097, 7)) + [4094, 4095, 4096]
                    else:
                        lens = list(range(2, 4097))
                    for n in sorted(set(lens)):
                        d = payload(kind, n, rng)
                        buflen = 65536
                        cases.append('W %d %d %d %d %s %s' % (ty, ord(ce), rng.randrange(1, 65536), buflen, qn.hex(), d.hex()))
                        meta.append((tname, ce, qn, n))
                        stats['sweep'] += 1
    # handshake-sized client buffer and odd payloads
    for _ in range(300 if tier == 'quick' else 3000):
        tname, ty = rng.choice(TYPES)
        ce = rng.choice(CODECS + 'x')
        n = rng.choice([2, 3, 5, 9, 48, 100, 200, 255, 256, 1000, 2000, 4095, 4096, 4097, 5000])
        d = payload(rng.randrange(4), n, rng)
        qn = rng.choice([QNAME_SHORT, QNAME_LONG, b'z.t.example.com', b'Y' + bytes(rng.choice(b'abcXYZ019') for _ in range(30)) + b'.T.Example.COM'])
        cases.append('W %d %d %d %d %s %s' % (ty, ord(ce), rng.randrange(0, 65536), rng.choice([4096, 65536, 17, 300]), qn.hex(), d.hex()))
        meta.append(None)
        stats['random'] += 1
    return cases, meta, stats


def summ(b):
    """same format as harness putsum / drvlib sum_of_bytes"""
    if os.environ.get('VERIF_FULL') or len(b) <= 48:
        return b.hex() if b else '-'
    h = 2166136261
    for x in b:
        h = ((h ^ x) * 16777619) & 0xffffffff
    return 'L%d:%08x:%s' % (len(b), h, b[:8].hex())


def parse_w(out):
    dg, rest = out.split(' | ')
    f = rest.split(' ')
    rv = int(f[0])
    return dg, rv, f[1], f[2:]


def oracle(case, out):
    t = case.split(' ')
    if t[0] != 'W':
        return None
    if 'GUARD-VIOLATED' in out:
        return 'client wrote past its buffer'
    if out.startswith('NOSEND') or out == '<NO-OUTPUT>':
        return 'no answer produced / crash: ' + out
    d = bytes.fromhex(t[6]) if t[6] != '-' else b''
    buflen = int(t[4])
    try:
        dg, rv, ext, rest = parse_w(out)
    except Exception:
        return 'unparsable result'
    if rv > 0:
        if rv > min(len(d), buflen):
            return 'client extracted more than was sent'
        if ext != summ(d[:rv]):
            return 'client extracted bytes that differ from the payload'
    return None


def model_subset(meta_caps, seed, tier):
    """cases for the model/implementation diff: small lengths, the exactness boundary of every
    (type, codec, name) found by the implementation sweep +-3, a few large ones"""
    rng = vlib.rng_for(seed, 'c09-model')
    cases = []
    qnames = [QNAME_SHORT, QNAME_LONG]
    for tname, ty in TYPES:
        for ce in CODECS:
            for qn in qnames:
                B = meta_caps.get((tname, ce, qn), 4096)
                lens = set(range(2, 24 if tier == 'quick' else 70))
                lens |= set(range(max(2, B - 3), min(4098, B + 4)))
                lens |= {57, 58, 245, 246, 252, 253, 254, 255, 256, 257, 504, 505, 1000, 4095, 4096, 4097}
                if tier == 'thorough':
                    lens |= set(rng.randrange(2, 4097) for _ in range(40))
                for n in sorted(lens):
                    d = payload(rng.choice([0, 1, 2, 3, 3, 3]), n, rng)
                    cases.append('W %d %d %d %d %s %s' % (ty, ord(ce), rng.randrange(0, 65536),
                                                         rng.choice([65536, 65536, 4096]), qn.hex(), d.hex()))
    return cases


def check(rep):
    ctx = vlib.prepare(rep, harnesses={'wire': WIRE}, sanitize=(rep.tier == 'thorough'), model='WIRE')
    cases, meta, stats = gen_cases(rep.seed, rep.tier)
    rep.cov['rule'] = ('corpus first; implementation sweep: 7 record types x 5 downstream codecs x payload lengths 2..4096 '
                       '(thorough: every length x 4 contents x short and 248-char question names; quick: every length to 300 then step 7), '
                       'oracle: extracted is the payload or a prefix, exactness downward closed; model/implementation diff on a subset: '
                       'small lengths, every exactness boundary +-3 found by the sweep, selected large sizes, both buffer sizes. '
                       'distinct = distinct case lines; non-trivial = payload >= 2 bytes')
    impl = None
    caps = {}
    if 'wire' in ctx.exe:
        rc, impl, err = vlib.parallel_run_cases(ctx.exe['wire'], cases, ctx.work, 'impl')
        if rc != 0:
            ctx.broken.append(('impl-crash', 'implementation harness exited with %d: %s' % (rc, err[-300:])))
        exact = {}
        for i, (c, o) in enumerate(zip(cases, impl)):
            why = oracle(c, o)
            if why:
                m = meta[i]
                rep.add_violation('answer:%s' % ('%s/%s' % (m[0], m[1]) if m else 'misc'), why,
                                  dict(kind='input', driver='wire', case=c[:100000], observed=o[:2000], expected=why))
                break
            m = meta[i]
            if m and not o.startswith('NOSEND'):
                try:
                    dg, rv, ext, rest = parse_w(o)
                except Exception:
                    continue
                exact.setdefault((m[0], m[1], m[2]), []).append((m[3], rv == m[3], c))
        # monotonicity: exact at n => exact at every smaller tested n (per type/codec/name, over all contents)
        for key, lst in exact.items():
            lst.sort(key=lambda x: (x[0], x[1]))
            max_exact = max([n for n, e, _ in lst if e] or [0])
            caps[key] = max_exact
            for n, e, c in lst:
                if not e and n < max_exact:
                    rep.add_violation('monotone:%s/%s' % (key[0], key[1]),
                                      'payload of %d bytes is cut although %d bytes are delivered exactly' % (n, max_exact),
                                      dict(kind='input', driver='wire', case=c[:100000], expected='exact delivery (monotone)'))
                    break
        rep.cov['exact_capacity_by_type_codec_namelen'] = {'%s/%s/%d' % (k[0], k[1], len(k[2])): v for k, v in caps.items()}
    mcases = [c for c, m in zip(cases, meta) if m is None] + model_subset(caps, rep.seed, rep.tier)
    stats['model_diff_subset'] = len(mcases)
    rep.cov['input_distribution'] = stats
    rep.cov['evaluations'] = len(cases) + len(mcases)
    rep.cov['distinct_nontrivial'] = len(set(cases) | set(mcases))
    rep.cov['samples'] = [c[:300] for c in (cases[:2] + cases[5000:5002] + mcases[-2:])]
    if ctx.model and 'wire' in ctx.exe:
        # the ".xy" suffix rotates per answer: both sides must see the same sequence, so the subset is
        # run on the implementation again
        rc, impl2, err = vlib.parallel_run_cases(ctx.exe['wire'], mcases, ctx.work, 'impl2')
        rc, mod, err = vlib.parallel_run_cases(ctx.model, mcases, ctx.work, 'model')
        for c, o in zip(mcases, impl2):
            why = oracle(c, o)
            if why:
                rep.add_violation('answer:subset', why, dict(kind='input', driver='wire', case=c[:100000], observed=o[:2000], expected=why))
                break
        d = vlib.first_diff(mcases, impl2, mod)
        rep.cov['traces_validated_against_impl'] = len(mcases) if d is None else d
        if d is not None:
            ctx.broken.append(('correspondence', 'model and implementation disagree on case %r: impl=%r model=%r' % (
                mcases[d][:300], impl2[d][-300:], mod[d][-300:])))
        if 'wire' in ctx.san:
            sub = mcases[::3]
            rc, sl, err = vlib.parallel_run_cases(ctx.san['wire'], sub, ctx.work, 'san')
            rep.cov['sanitizer_cases'] = len(sub)
            if rc != 0:
                idx = next((i for i, l in enumerate(sl) if l == '<NO-OUTPUT>'), None)
                rep.add_violation('sanitizer', 'ASan/UBSan report: ' + err[-400:],
                                  dict(kind='input', driver='wire.san', case=sub[idx][:100000] if idx is not None else None, observed=err[-2000:]))
    if not rep.violations:
        ctx.report_broken()
    return rep


def replay(rp):
    rep = vlib.Report('C09', 'quick', rp.get('seed', 1))
    ctx = vlib.prepare(rep, harnesses={'wire': WIRE}, sanitize=False, prove_it=False, model='WIRE')
    case = rp.get('case')
    if not case:
        print('replay names a broken obligation, not an input:', rp.get('broken'))
        return 1
    cp = os.path.join(ctx.work, 'replay.cases')
    open(cp, 'w').write(case + '\n')
    rc, impl, err = vlib.run_cases(ctx.exe['wire'], cp)
    print('case :', case[:300])
    print('impl :', impl[0][-400:] if impl else err)
    if ctx.model:
        rc2, mod, err2 = vlib.run_cases(ctx.model, cp)
        print('model:', mod[0][-400:] if mod else err2)
    why = oracle(case, impl[0]) if impl else 'crash'
    print('oracle:', why or 'ok')
    return 1 if why else 0
