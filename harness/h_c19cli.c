/* h_c19cli.c -- C19, client side: the real static functions of src/client.c
 * (send_raw_udp_login, handshake_raw_udp) reached by including the file.  Linked with
 * -Wl,--wrap=sendto,--wrap=select,--wrap=recvfrom,--wrap=recv: the wrappers record what the
 * client sends, answer its 'i' (IP request) query with a DNS reply built by the repository's
 * own dns_decode/dns_encode, and feed it the scripted raw-login answer of the case line. */
#include "hlib.h"
#include <sys/select.h>
#include "client.c"	/* found through -I <snapshot>/src */

ssize_t __wrap_sendto(int fd, const void *buf, size_t len, int flags, const struct sockaddr *to, socklen_t tolen);
int __wrap_select(int nfds, fd_set *r, fd_set *w, fd_set *e, struct timeval *tv);
ssize_t __wrap_recvfrom(int fd, void *buf, size_t len, int flags, struct sockaddr *from, socklen_t *fromlen);
ssize_t __wrap_recv(int fd, void *buf, size_t len, int flags);

static unsigned char dnsq[4096];
static size_t dnsq_len;
static unsigned char raw_sent[4096];
static size_t raw_sent_len;
static int raw_sent_count;
static unsigned char raw_reply[4096];
static size_t raw_reply_len;
static int selects, recvs;

ssize_t __wrap_sendto(int fd, const void *buf, size_t len, int flags, const struct sockaddr *to, socklen_t tolen)
{
	if (len > sizeof(dnsq))
		len = sizeof(dnsq);
	if (len >= RAW_HDR_LEN && memcmp(buf, raw_header, RAW_HDR_IDENT_LEN) == 0) {
		memcpy(raw_sent, buf, len);
		raw_sent_len = len;
		raw_sent_count++;
	} else {
		memcpy(dnsq, buf, len);
		dnsq_len = len;
	}
	return len;
}

int __wrap_select(int nfds, fd_set *r, fd_set *w, fd_set *e, struct timeval *tv)
{
	selects++;
	return 1;	/* the descriptor is always readable */
}

/* the server's answer to the pending 'i' query: 'I' + IPv4 address, as iodined.c sends it
 * for a NULL-type query (raw rdata) */
ssize_t __wrap_recvfrom(int fd, void *buf, size_t len, int flags, struct sockaddr *from, socklen_t *fromlen)
{
	struct query q;
	char reply[5] = { 'I', 127, 0, 0, 1 };
	int n;

	memset(&q, 0, sizeof(q));
	if (dnsq_len == 0)
		return 0;
	if (dns_decode(NULL, 0, &q, QR_QUERY, (char *)dnsq, dnsq_len) < 0)
		return 0;
	n = dns_encode(buf, len, &q, QR_ANSWER, reply, sizeof(reply));
	dnsq_len = 0;
	if (from && fromlen && *fromlen >= sizeof(struct sockaddr_in)) {
		memset(from, 0, sizeof(struct sockaddr_in));
		from->sa_family = AF_INET;
		*fromlen = sizeof(struct sockaddr_in);
	}
	return n;
}

ssize_t __wrap_recv(int fd, void *buf, size_t len, int flags)
{
	recvs++;
	if (raw_reply_len > len)
		return len;
	memcpy(buf, raw_reply, raw_reply_len);
	return raw_reply_len;
}

static char cli_pass[33];
static char cli_topdomain[] = "t.example.com";

/* password as iodine.c holds it: char[33], zero-filled, at most 32 bytes copied */
static int setup(char **argsp)
{
	char *args = *argsp, *sp;
	size_t n;
	uint32_t useed;

	n = unhex(args, in);
	sp = strchr(args, ' ');
	if (!sp)
		return 0;
	useed = (uint32_t)strtoul(sp + 1, &sp, 10);
	*argsp = sp;
	memset(cli_pass, 0, sizeof(cli_pass));
	memcpy(cli_pass, in, n > 32 ? 32 : n);
	client_init();
	client_set_password(cli_pass);
	client_set_topdomain(cli_topdomain);
	do_qtype = T_NULL;
	userid = 3;
	userid_char = '3';
	userid_char2 = '3';
	dnsq_len = 0;
	raw_sent_len = 0;
	raw_sent_count = 0;
	raw_reply_len = 0;
	selects = recvs = 0;
	(void)useed;
	return 1;
}

static uint32_t case_seed(char *args)
{
	char *sp = strchr(args, ' ');
	return sp ? (uint32_t)strtoul(sp + 1, NULL, 10) : 0;
}

static int sent_is_login(void)
{
	return raw_sent_len == RAW_HDR_LEN + 16 &&
		memcmp(raw_sent, raw_header, RAW_HDR_IDENT_LEN) == 0 &&
		(raw_sent[RAW_HDR_CMD] & 0xff) == (RAW_HDR_CMD_LOGIN | (userid & 0x0F));
}

/* CU passhex seed */
static void do_up(char *args)
{
	int seed = (int)case_seed(args);	/* as handshake_version: *seed = payload (uint32_t) */
	char *a = args;

	if (!setup(&a)) {
		printf("BADCASE\n");
		return;
	}
	send_raw_udp_login(5, seed);
	if (!sent_is_login()) {
		printf("BAD-RAW-LOGIN-DATAGRAM ");
		puthex(raw_sent, raw_sent_len);
		putchar('\n');
		return;
	}
	puthex(raw_sent + RAW_HDR_LEN, 16);
	putchar('\n');
}

/* CR passhex seed hashhex -- the whole handshake_raw_udp with the scripted server answer */
static void do_roundtrip(char *args)
{
	int seed = (int)case_seed(args);
	char *a = args;
	size_t n;
	int r;

	if (!setup(&a)) {
		printf("BADCASE\n");
		return;
	}
	while (*a == ' ') a++;
	n = unhex(a, in);
	memcpy(raw_reply, raw_header, RAW_HDR_LEN);
	raw_reply[RAW_HDR_CMD] = RAW_HDR_CMD_LOGIN | (userid & 0x0F);
	memcpy(raw_reply + RAW_HDR_LEN, in, n);
	raw_reply_len = RAW_HDR_LEN + n;
	r = handshake_raw_udp(5, seed);
	if (raw_sent_count == 0) {
		printf("NO-RAW-LOGIN-SENT selects=%d\n", selects);
		return;
	}
	if (!sent_is_login()) {
		printf("BAD-RAW-LOGIN-DATAGRAM ");
		puthex(raw_sent, raw_sent_len);
		putchar('\n');
		return;
	}
	puthex(raw_sent + RAW_HDR_LEN, 16);
	printf(" %s\n", r ? "ACCEPT" : "REJECT");
}

int handle_line(char *l)
{
	if (!strncmp(l, "CU ", 3)) { do_up(l + 3); return 1; }
	if (!strncmp(l, "CR ", 3)) { do_roundtrip(l + 3); return 1; }
	return 0;
}
