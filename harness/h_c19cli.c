/* h_c19cli.c -- C19, client side: the real static functions of src/client.c
 * (send_raw_udp_login, handshake_raw_udp) reached by including the file.  Linked with
 * -Wl,--wrap=sendto,--wrap=select,--wrap=recvfrom,--wrap=recv: the wrappers record what the
 * client sends, answer its 'i' (IP request) query with a DNS reply built by the repository's
 * own dns_decode/dns_encode, and feed it the scripted raw-login answer of the case line.
 *
 * HV / HF (the glue from the server's version reply into the login): the real handshake_version
 * runs on a scripted version reply (delivered as a DNS answer of type NULL, or TXT with the
 * server's 't' + Base32 down-encoding), then the real handshake_login (first 'l' query, answered
 * "LNAK") and the real send_raw_udp_login run with the seed handshake_version stored (HV), or
 * the whole real client_handshake(raw_mode = 1) runs with a successful login answer, the
 * server-address answer and the scripted raw-login answer (HF; system() of tun_setip/tun_setmtu is
 * wrapped).  With these cases select() times out when nothing scripted is pending. */
#include "hlib.h"
#include <sys/select.h>
#include "client.c"	/* found through -I <snapshot>/src */

ssize_t __wrap_sendto(int fd, const void *buf, size_t len, int flags, const struct sockaddr *to, socklen_t tolen);
int __wrap_select(int nfds, fd_set *r, fd_set *w, fd_set *e, struct timeval *tv);
ssize_t __wrap_recvfrom(int fd, void *buf, size_t len, int flags, struct sockaddr *from, socklen_t *fromlen);
ssize_t __wrap_recv(int fd, void *buf, size_t len, int flags);

static unsigned char dnsq[4096];
static size_t dnsq_len;
static unsigned char raw_sent[4096];
static size_t raw_sent_len;
static int raw_sent_count;
static unsigned char raw_reply[4096];
static size_t raw_reply_len;
static int selects, recvs;
/* coq/LoginGlue.v reads a plain char as signed and int as 32 bits (gcc, x86-64) */
typedef char c19_char_is_signed[(char)-1 < 0 ? 1 : -1];
typedef char c19_int_is_32_bits[sizeof(int) == 4 ? 1 : -1];

/* HV / HF: scripted answers per query kind (first character of the query name) */
static int scripted;		/* 1: select() reports only what is scripted */
static char kind_txt;		/* 'N': raw rdata (NULL query), 'T': 't' + Base32 (TXT query) */
static unsigned char ver_reply[256], login_reply[64];
static size_t ver_reply_len, login_reply_len;
static int raw_pending;
static int raw_answer_set;	/* raw_reply is framed in recv() with the userid the client holds */
static unsigned char raw_answer[256];
static size_t raw_answer_len;
static char login_qname[512];
static int login_queries, version_queries;
static int garbage_first;	/* the first login query is answered with text the client cannot use */

int __wrap_system(const char *cmd);
int __wrap_system(const char *cmd)
{
	(void)cmd;
	return 0;
}

/* the answer scripted for the pending query: 1 and *data / *len set, 0 when there is none */
static int scripted_answer(struct query *q, const unsigned char **data, size_t *len)
{
	static const unsigned char ip_reply[5] = { 'I', 127, 0, 0, 1 };

	memset(q, 0, sizeof(*q));
	if (dnsq_len == 0)
		return 0;
	if (dns_decode(NULL, 0, q, QR_QUERY, (char *)dnsq, dnsq_len) < 0)
		return 0;
	switch (q->name[0]) {
	case 'v': case 'V':
		*data = ver_reply; *len = ver_reply_len;
		return ver_reply_len > 0;
	case 'l': case 'L':
		if (garbage_first && login_queries <= 1) {
			*data = (const unsigned char *)"BADLEN"; *len = 6;
			return 1;
		}
		*data = login_reply; *len = login_reply_len;
		return login_reply_len > 0;
	case 'i': case 'I':
		*data = ip_reply; *len = sizeof(ip_reply);
		return 1;
	}
	return 0;
}

ssize_t __wrap_sendto(int fd, const void *buf, size_t len, int flags, const struct sockaddr *to, socklen_t tolen)
{
	if (len > sizeof(dnsq))
		len = sizeof(dnsq);
	if (len >= RAW_HDR_LEN && memcmp(buf, raw_header, RAW_HDR_IDENT_LEN) == 0) {
		memcpy(raw_sent, buf, len);
		raw_sent_len = len;
		raw_sent_count++;
		raw_pending = 1;
	} else {
		memcpy(dnsq, buf, len);
		dnsq_len = len;
		if (scripted) {
			struct query q;
			memset(&q, 0, sizeof(q));
			if (dns_decode(NULL, 0, &q, QR_QUERY, (char *)dnsq, dnsq_len) >= 0) {
				if (q.name[0] == 'v' || q.name[0] == 'V')
					version_queries++;
				if ((q.name[0] == 'l' || q.name[0] == 'L') && (login_queries++ == 0 || garbage_first)) {
					strncpy(login_qname, q.name, sizeof(login_qname) - 1);
					login_qname[sizeof(login_qname) - 1] = 0;
				}
			}
		}
	}
	return len;
}

int __wrap_select(int nfds, fd_set *r, fd_set *w, fd_set *e, struct timeval *tv)
{
	selects++;
	if (scripted) {
		struct query q;
		const unsigned char *d;
		size_t n;
		if (raw_pending && raw_answer_set)
			return 1;
		if (scripted_answer(&q, &d, &n))
			return 1;
		dnsq_len = 0;	/* no answer to this query: time-out */
		if (r)
			FD_ZERO(r);
		return 0;
	}
	return 1;	/* the descriptor is always readable */
}

/* the server's answer to the pending 'i' query: 'I' + IPv4 address, as iodined.c sends it
 * for a NULL-type query (raw rdata) */
ssize_t __wrap_recvfrom(int fd, void *buf, size_t len, int flags, struct sockaddr *from, socklen_t *fromlen)
{
	struct query q;
	char reply[5] = { 'I', 127, 0, 0, 1 };
	int n;

	if (scripted) {
		const unsigned char *d;
		size_t dl, space;
		char enc[1024];
		if (!scripted_answer(&q, &d, &dl))
			return 0;
		if (kind_txt == 'T') {
			/* iodined.c write_dns for a TXT query with downenc 'T' */
			enc[0] = 't';
			space = sizeof(enc) - 2;
			n = base32_ops.encode(enc + 1, &space, d, dl);	/* returns the number of characters */
			n = dns_encode(buf, len, &q, QR_ANSWER, enc, 1 + n);
		} else {
			n = dns_encode(buf, len, &q, QR_ANSWER, (const char *)d, dl);
		}
		dnsq_len = 0;
		if (from && fromlen && *fromlen >= sizeof(struct sockaddr_in)) {
			memset(from, 0, sizeof(struct sockaddr_in));
			from->sa_family = AF_INET;
			*fromlen = sizeof(struct sockaddr_in);
		}
		return n;
	}
	memset(&q, 0, sizeof(q));
	if (dnsq_len == 0)
		return 0;
	if (dns_decode(NULL, 0, &q, QR_QUERY, (char *)dnsq, dnsq_len) < 0)
		return 0;
	n = dns_encode(buf, len, &q, QR_ANSWER, reply, sizeof(reply));
	dnsq_len = 0;
	if (from && fromlen && *fromlen >= sizeof(struct sockaddr_in)) {
		memset(from, 0, sizeof(struct sockaddr_in));
		from->sa_family = AF_INET;
		*fromlen = sizeof(struct sockaddr_in);
	}
	return n;
}

ssize_t __wrap_recv(int fd, void *buf, size_t len, int flags)
{
	recvs++;
	if (scripted) {
		raw_pending = 0;
		if (!raw_answer_set)
			return 0;
		/* iodined.c send_raw: header, command | userid */
		memcpy(raw_reply, raw_header, RAW_HDR_LEN);
		raw_reply[RAW_HDR_CMD] = RAW_HDR_CMD_LOGIN | (userid & 0x0F);
		memcpy(raw_reply + RAW_HDR_LEN, raw_answer, raw_answer_len);
		raw_reply_len = RAW_HDR_LEN + raw_answer_len;
	}
	if (raw_reply_len > len)
		return len;
	memcpy(buf, raw_reply, raw_reply_len);
	return raw_reply_len;
}

static char cli_pass[33];
static char cli_topdomain[] = "t.example.com";

/* password as iodine.c holds it: char[33], zero-filled, at most 32 bytes copied */
static int setup(char **argsp)
{
	char *args = *argsp, *sp;
	size_t n;
	uint32_t useed;

	n = unhex(args, in);
	sp = strchr(args, ' ');
	if (!sp)
		return 0;
	useed = (uint32_t)strtoul(sp + 1, &sp, 10);
	*argsp = sp;
	memset(cli_pass, 0, sizeof(cli_pass));
	memcpy(cli_pass, in, n > 32 ? 32 : n);
	client_init();
	client_set_password(cli_pass);
	client_set_topdomain(cli_topdomain);
	do_qtype = T_NULL;
	userid = 3;
	userid_char = '3';
	userid_char2 = '3';
	dnsq_len = 0;
	raw_sent_len = 0;
	raw_sent_count = 0;
	raw_reply_len = 0;
	selects = recvs = 0;
	scripted = 0;
	kind_txt = 'N';
	ver_reply_len = login_reply_len = raw_answer_len = 0;
	raw_pending = raw_answer_set = 0;
	login_queries = version_queries = 0;
	garbage_first = 0;
	login_qname[0] = 0;
	(void)useed;
	return 1;
}

static uint32_t case_seed(char *args)
{
	char *sp = strchr(args, ' ');
	return sp ? (uint32_t)strtoul(sp + 1, NULL, 10) : 0;
}

static int sent_is_login(void)
{
	return raw_sent_len == RAW_HDR_LEN + 16 &&
		memcmp(raw_sent, raw_header, RAW_HDR_IDENT_LEN) == 0 &&
		(raw_sent[RAW_HDR_CMD] & 0xff) == (RAW_HDR_CMD_LOGIN | (userid & 0x0F));
}

/* CU passhex seed */
static void do_up(char *args)
{
	int seed = (int)case_seed(args);	/* as handshake_version: *seed = payload (uint32_t) */
	char *a = args;

	if (!setup(&a)) {
		printf("BADCASE\n");
		return;
	}
	send_raw_udp_login(5, seed);
	if (!sent_is_login()) {
		printf("BAD-RAW-LOGIN-DATAGRAM ");
		puthex(raw_sent, raw_sent_len);
		putchar('\n');
		return;
	}
	puthex(raw_sent + RAW_HDR_LEN, 16);
	putchar('\n');
}

/* CR passhex seed hashhex -- the whole handshake_raw_udp with the scripted server answer */
static void do_roundtrip(char *args)
{
	int seed = (int)case_seed(args);
	char *a = args;
	size_t n;
	int r;

	if (!setup(&a)) {
		printf("BADCASE\n");
		return;
	}
	while (*a == ' ') a++;
	n = unhex(a, in);
	memcpy(raw_reply, raw_header, RAW_HDR_LEN);
	raw_reply[RAW_HDR_CMD] = RAW_HDR_CMD_LOGIN | (userid & 0x0F);
	memcpy(raw_reply + RAW_HDR_LEN, in, n);
	raw_reply_len = RAW_HDR_LEN + n;
	r = handshake_raw_udp(5, seed);
	if (raw_sent_count == 0) {
		printf("NO-RAW-LOGIN-SENT selects=%d\n", selects);
		return;
	}
	if (!sent_is_login()) {
		printf("BAD-RAW-LOGIN-DATAGRAM ");
		puthex(raw_sent, raw_sent_len);
		putchar('\n');
		return;
	}
	puthex(raw_sent + RAW_HDR_LEN, 16);
	printf(" %s\n", r ? "ACCEPT" : "REJECT");
}

/* the 19 bytes of the first login message: 'l' + Base32(userid, 16 hash bytes, 2 CMC bytes),
 * decoded as iodined.c does it (unpack_data of the name without its first character, up to the
 * top domain) */
static int login_message(unsigned char *out, size_t outlen)
{
	size_t nl = strlen(login_qname), tl = strlen(cli_topdomain);

	if (nl < tl + 3 || strcasecmp(login_qname + nl - tl, cli_topdomain) != 0 || login_qname[nl - tl - 1] != '.')
		return -1;
	return unpack_data((char *)out, outlen, login_qname + 1, nl - tl - 2, &base32_ops);
}

static void print_sent(int with_seed, int seed)
{
	unsigned char msg[64];
	int n = login_message(msg, sizeof(msg));

	if (with_seed)
		printf(" seed=%u", (unsigned int)seed);
	printf(" uid=%d", userid);
	if (n != 19) {
		printf(" BAD-LOGIN-MESSAGE len=%d queries=%d\n", n, login_queries);
		return;
	}
	printf(" luid=%d dns=", msg[0]);
	puthex(msg + 1, 16);
	if (!sent_is_login()) {
		printf(" BAD-RAW-LOGIN-DATAGRAM count=%d ", raw_sent_count);
		puthex(raw_sent, raw_sent_len);
	} else {
		printf(" raw=");
		puthex(raw_sent + RAW_HDR_LEN, 16);
	}
}

/* common part of "passhex replyhex kind": password, scripted version reply, query type */
static int setup_glue(char *args, char **rest)
{
	char *a = args, *sp;
	size_t n;

	n = unhex(args, in);
	memset(cli_pass, 0, sizeof(cli_pass));
	memcpy(cli_pass, in, n > 32 ? 32 : n);
	sp = strchr(args, ' ');
	if (!sp)
		return 0;
	a = sp + 1;
	n = unhex(a, in);
	if (n == 0 || n > sizeof(ver_reply))
		return 0;
	sp = strchr(a, ' ');
	garbage_first = sp && (sp[1] == 'n' || sp[1] == 't');
	if (garbage_first)
		sp[1] = (char)toupper((unsigned char)sp[1]);
	if (!sp || (sp[1] != 'N' && sp[1] != 'T'))
		return 0;
	client_init();
	client_set_password(cli_pass);
	client_set_topdomain(cli_topdomain);
	do_qtype = sp[1] == 'T' ? T_TXT : T_NULL;
	userid = 0;
	userid_char = '0';
	userid_char2 = '0';
	dnsq_len = raw_sent_len = raw_reply_len = 0;
	raw_sent_count = selects = recvs = 0;
	scripted = 1;
	kind_txt = sp[1];
	memcpy(ver_reply, in, n);
	ver_reply_len = n;
	login_reply_len = raw_answer_len = 0;
	raw_pending = raw_answer_set = 0;
	login_queries = version_queries = 0;
	login_qname[0] = 0;
	*rest = sp + 2;
	return 1;
}

/* HV passhex replyhex kind -- handshake_version, then handshake_login (answer LNAK) and
 * send_raw_udp_login with the seed it stored */
static void do_glue(char *args)
{
	char *rest;
	int seed = 0x5a5a5a5a, rv;

	if (!setup_glue(args, &rest)) {
		printf("BADCASE\n");
		return;
	}
	memcpy(login_reply, "LNAK", 4);
	login_reply_len = 4;
	rv = handshake_version(5, &seed);
	printf("rv=%d", rv);
	if (rv == 0) {
		handshake_login(5, seed);
		send_raw_udp_login(5, seed);
		print_sent(1, seed);
	}
	putchar('\n');
	scripted = 0;
}

/* HF passhex replyhex kind answerhex -- the whole client_handshake in raw mode; answerhex is the
 * payload of the server's raw-login answer */
static void do_full(char *args)
{
	static const char ok[] = "10.9.0.1-10.9.0.2-1130-27";
	char *rest;
	int rv;

	if (!setup_glue(args, &rest)) {
		printf("BADCASE\n");
		return;
	}
	while (*rest == ' ') rest++;
	raw_answer_len = unhex(rest, raw_answer);
	raw_answer_set = 1;
	memcpy(login_reply, ok, sizeof(ok) - 1);
	login_reply_len = sizeof(ok) - 1;
	rv = client_handshake(5, 1, 0, 1200);
	printf("rv=%d", rv);
	if (rv == 0) {
		print_sent(0, 0);
		printf(" conn=%s", conn == CONN_RAW_UDP ? "RAW" : "DNS");
	}
	putchar('\n');
	scripted = 0;
}

int handle_line(char *l)
{
	if (!strncmp(l, "HV ", 3)) { do_glue(l + 3); return 1; }
	if (!strncmp(l, "HF ", 3)) { do_full(l + 3); return 1; }
	if (!strncmp(l, "CU ", 3)) { do_up(l + 3); return 1; }
	if (!strncmp(l, "CR ", 3)) { do_roundtrip(l + 3); return 1; }
	return 0;
}
