/* hlib.h -- shared by the implementation-side harnesses: includes, hex helpers.
 * hmain.c reads a cases file (one case per line, same syntax as the OCaml model drivers)
 * and calls handle_line() of the per-property harness (h_cXX.c); one canonical result line
 * per case.  Everything is linked against objects compiled from the snapshot of /repo. */
#ifndef HLIB_H
#define HLIB_H
#include <stdio.h>
#include <stdlib.h>
#include <string.h>
#include <stdint.h>
#include <ctype.h>
#include <time.h>
#include <sys/types.h>
#include <sys/socket.h>
#include <netinet/in.h>
#include <arpa/inet.h>

#include "common.h"
#include "encoding.h"
#include "dns.h"
#include "read.h"
#include "login.h"
#include "user.h"
#include "fw_query.h"

#define MAXLINE (1 << 20)
#define GUARD 32


size_t unhex(const char *h, unsigned char *out);
void puthex(const unsigned char *b, size_t n);
void putsum(const unsigned char *b, size_t n);
extern time_t verif_now;
extern unsigned char in[];	/* scratch: decoded hex of the current case */
int handle_line(char *line);	/* per-property: returns 0 when the case is unknown */
#endif
