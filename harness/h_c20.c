/* h_c20.c -- C20: the real fw_query_init/put/get (fw_query.o) and the real static
 * forward_query / tunnel_bind / tunnel_dns of iodined.c (this translation unit includes the
 * snapshot's iodined.c), with sendto / recvfrom / recvmsg wrapped at link time.
 *
 *   RS <op>...              ring sequence from fw_query_init: p<id>[/<alen>] | g<id>
 *   RX <depth> <op>...      every sequence of <depth> ops over {p0..p3,g0..g3} after the
 *                           prefix ops, each replayed from fw_query_init
 *   NET <bindport> <topdomainhex> <step>;<step>;...
 *        Q,k,port,pkthex,...    datagram from 10.0.k.1:port through tunnel_dns (bind_fd = 7)
 *        QN,k,port,pkthex,...   the same without -b (bind_fd = 0)
 *        Q6,k,port,pkthex,...   the same from an IPv6 asker fd00::k (observation only)
 *        F,alen,k,port,id,type,namehex   forward_query on a constructed struct query
 *        FL,...                 the same with a label longer than 63 bytes (putname fails)
 *        R,pkthex               datagram from the local DNS port through tunnel_bind
 * Result: the datagrams handed to sendto per step (canonical text, see put_send). */
#include "hlib.h"
#include <sys/uio.h>
#include <errno.h>

#define main iodined_main
#include "iodined.c"	/* found through -I <snapshot>/src: the snapshot of /repo's working tree */
#undef main

#define V4FD 5
#define V6FD 6
#define BINDFD 7
#define TUNFD 8

/* ---- wrapped syscalls ------------------------------------------------------------- */
static unsigned char rx_pkt[70000];
static int rx_len = -1;			/* next datagram delivered by recvfrom / recvmsg */
static struct sockaddr_storage rx_from;
static socklen_t rx_fromlen;
static int rx_reads;

struct sent {
	int fd;
	socklen_t alen;
	unsigned char addr[128];
	int has_addr;
	size_t len;
	unsigned char *data;
};
#define MAXSENT 16
static struct sent sent[MAXSENT];
static int nsent;

ssize_t __wrap_sendto(int fd, const void *buf, size_t len, int flags, const struct sockaddr *to, socklen_t tolen);
ssize_t __wrap_sendto(int fd, const void *buf, size_t len, int flags, const struct sockaddr *to, socklen_t tolen)
{
	if (nsent < MAXSENT) {
		struct sent *s = &sent[nsent++];
		s->fd = fd;
		s->alen = tolen;
		s->has_addr = to != NULL;
		memset(s->addr, 0, sizeof(s->addr));
		if (to)
			memcpy(s->addr, to, tolen < 128 ? tolen : 128);
		s->len = len;
		s->data = malloc(len ? len : 1);
		memcpy(s->data, buf, len);
	}
	return len;
}

ssize_t __wrap_recvfrom(int fd, void *buf, size_t len, int flags, struct sockaddr *from, socklen_t *fromlen);
ssize_t __wrap_recvfrom(int fd, void *buf, size_t len, int flags, struct sockaddr *from, socklen_t *fromlen)
{
	ssize_t r = rx_len;
	rx_reads++;
	if (rx_len < 0) {
		errno = EAGAIN;
		return -1;
	}
	if ((size_t)r > len)
		r = len;
	memcpy(buf, rx_pkt, r);
	if (from && fromlen) {
		socklen_t n = rx_fromlen < *fromlen ? rx_fromlen : *fromlen;
		memcpy(from, &rx_from, n);
		*fromlen = rx_fromlen;
	}
	rx_len = -1;
	return r;
}

ssize_t __wrap_recvmsg(int fd, struct msghdr *msg, int flags);
ssize_t __wrap_recvmsg(int fd, struct msghdr *msg, int flags)
{
	ssize_t r = rx_len;
	rx_reads++;
	if (rx_len < 0) {
		errno = EAGAIN;
		return -1;
	}
	if ((size_t)r > msg->msg_iov[0].iov_len)
		r = msg->msg_iov[0].iov_len;
	memcpy(msg->msg_iov[0].iov_base, rx_pkt, r);
	if (msg->msg_name) {
		socklen_t n = rx_fromlen < msg->msg_namelen ? rx_fromlen : msg->msg_namelen;
		memcpy(msg->msg_name, &rx_from, n);
		msg->msg_namelen = rx_fromlen;
	}
	msg->msg_controllen = 0;	/* no ancillary data */
	msg->msg_flags = 0;
	rx_len = -1;
	return r;
}

/* ---- helpers ---------------------------------------------------------------------- */
static void tag_addr(struct fw_query *q, unsigned n, int alen)
{
	unsigned char *a = (unsigned char *)&q->addr;
	int i;
	memset(&q->addr, 0, sizeof(q->addr));
	a[0] = 2; a[1] = 0; a[2] = (n >> 8) & 255; a[3] = n & 255;
	a[4] = 10; a[5] = 0; a[6] = n & 255; a[7] = 1;
	for (i = 16; i < alen && i < 128; i++)
		a[i] = (i * 7 + n) & 255;
	q->addrlen = alen;
}

static void client_addr(struct sockaddr_storage *ss, int k, int port)
{
	struct sockaddr_in *sin = (struct sockaddr_in *)ss;
	memset(ss, 0, sizeof(*ss));
	sin->sin_family = AF_INET;
	sin->sin_port = htons(port);
	((unsigned char *)&sin->sin_addr)[0] = 10;
	((unsigned char *)&sin->sin_addr)[1] = 0;
	((unsigned char *)&sin->sin_addr)[2] = k;
	((unsigned char *)&sin->sin_addr)[3] = 1;
}

static void client_addr6(struct sockaddr_storage *ss, int k, int port)
{
	struct sockaddr_in6 *sin6 = (struct sockaddr_in6 *)ss;
	memset(ss, 0, sizeof(*ss));
	sin6->sin6_family = AF_INET6;
	sin6->sin6_port = htons(port);
	sin6->sin6_addr.s6_addr[0] = 0xfd;
	sin6->sin6_addr.s6_addr[15] = k;
}

/* meaningful bytes of a sockaddr of the given length */
static size_t canon_len(const unsigned char *a, socklen_t alen)
{
	unsigned short fam;
	size_t n = alen < 128 ? alen : 128;
	memcpy(&fam, a, 2);
	if (alen >= 2 && fam == AF_INET && n > 16) n = 16;
	if (alen >= 2 && fam == AF_INET6 && n > 28) n = 28;
	return n;
}

static void put_send(const struct sent *s)
{
	const struct sockaddr_in *sin = (const struct sockaddr_in *)s->addr;
	if (s->fd == BINDFD && s->has_addr && s->alen >= sizeof(struct sockaddr_in) &&
	    sin->sin_family == AF_INET && sin->sin_addr.s_addr == htonl(0x7f000001) &&
	    sin->sin_port == htons(bind_port)) {
		printf("L|");
	} else {
		unsigned short fam;
		int expfd;
		memcpy(&fam, s->addr, 2);
		expfd = (fam == AF_INET6) ? V6FD : V4FD;
		if (s->fd == expfd)
			printf("C|");
		else
			printf("X%d|", s->fd);
		printf("%u|", (unsigned)s->alen);
		puthex(s->addr, s->has_addr ? canon_len(s->addr, s->alen) : 0);
		putchar('|');
	}
	puthex(s->data, s->len);
}

static void flush_sends(void)
{
	int i;
	if (!nsent)
		putchar('-');
	for (i = 0; i < nsent; i++) {
		if (i) putchar('+');
		put_send(&sent[i]);
		free(sent[i].data);
	}
	nsent = 0;
}

/* ---- ring level -------------------------------------------------------------------- */
static void put_get_long(struct fw_query *r)
{
	if (!r) {
		printf("N");
		return;
	}
	printf("%d:", r->addrlen);
	puthex((unsigned char *)&r->addr, r->addrlen < 0 ? 0 : (r->addrlen < 128 ? r->addrlen : 128));
}

/* one op; returns 1 when it was a get and sets *res */
static int ring_op(const char *op, unsigned *putno, struct fw_query **res)
{
	struct fw_query q;
	unsigned id = strtoul(op + 1, NULL, 10) & 0xffff;
	if (op[0] == 'p') {
		const char *sl = strchr(op, '/');
		int alen = sl ? atoi(sl + 1) : 16;
		memset(&q, 0x5a, sizeof(q));
		(*putno)++;
		tag_addr(&q, *putno, alen);
		q.id = id;
		fw_query_put(&q);
		return 0;
	}
	fw_query_get(id, res);
	return 1;
}

static void do_rs(char *args)
{
	char *tok;
	unsigned putno = 0;
	int first = 1;
	fw_query_init();
	for (tok = strtok(args, " "); tok; tok = strtok(NULL, " ")) {
		struct fw_query *r;
		if (tok[0] != 'p' && tok[0] != 'g')
			continue;
		if (ring_op(tok, &putno, &r)) {
			if (!first) putchar(' ');
			first = 0;
			put_get_long(r);
		}
	}
	if (first)
		putchar('-');
	putchar('\n');
}

static void put_get_short(struct fw_query *r)
{
	unsigned char *a;
	if (!r) { putchar('N'); return; }
	if (r->addrlen == 0) { putchar('Z'); return; }
	a = (unsigned char *)&r->addr;
	if (r->addrlen != 16) { printf("?%d", r->addrlen); return; }
	printf("%u", (a[2] << 8) | a[3]);
}

#define MAXPREFIX 256
static void do_rx(char *args)
{
	static const char *alpha[8] = { "p0", "p1", "p2", "p3", "g0", "g1", "g2", "g3" };
	char *prefix[MAXPREFIX];
	int np = 0, depth, i;
	unsigned long total = 1, s;
	char *tok = strtok(args, " ");
	depth = tok ? atoi(tok) : 0;
	if (depth < 0 || depth > 10) { printf("BAD-DEPTH\n"); return; }
	while ((tok = strtok(NULL, " ")) && np < MAXPREFIX)
		prefix[np++] = tok;
	for (i = 0; i < depth; i++)
		total *= 8;
	/* the prefix on its own: its get results once, then '|' */
	{
		unsigned putno = 0;
		int firstget = 1;
		struct fw_query *r;
		fw_query_init();
		for (i = 0; i < np; i++)
			if (ring_op(prefix[i], &putno, &r)) {
				if (!firstget) putchar('.');
				firstget = 0;
				put_get_short(r);
			}
		putchar('|');
	}
	for (s = 0; s < total; s++) {
		unsigned putno = 0;
		int firstget = 1;
		struct fw_query *r;
		fw_query_init();
		for (i = 0; i < np; i++)
			ring_op(prefix[i], &putno, &r);
		if (s) putchar(',');
		for (i = depth - 1; i >= 0; i--) {
			int o = (s >> (3 * i)) & 7;
			if (ring_op(alpha[o], &putno, &r)) {
				if (!firstget) putchar('.');
				firstget = 0;
				put_get_short(r);
			}
		}
	}
	putchar('\n');
}

/* ---- datagram level ---------------------------------------------------------------- */
static char *field(char **p)
{
	char *s = *p, *c;
	if (!s) return "";
	c = strchr(s, ',');
	if (c) { *c = 0; *p = c + 1; } else *p = NULL;
	return s;
}

static void do_step(char *st)
{
	struct dnsfd fds;
	char *p = st;
	char *kind = field(&p);
	fds.v4fd = V4FD;
	fds.v6fd = V6FD;
	nsent = 0;
	rx_reads = 0;
	if (!strcmp(kind, "Q") || !strcmp(kind, "QN") || !strcmp(kind, "Q6")) {
		int k = atoi(field(&p)), port = atoi(field(&p));
		rx_len = unhex(field(&p), rx_pkt);
		if (!strcmp(kind, "Q6")) {
			client_addr6(&rx_from, k, port);
			rx_fromlen = sizeof(struct sockaddr_in6);
			tunnel_dns(TUNFD, V6FD, &fds, BINDFD);
		} else {
			client_addr(&rx_from, k, port);
			rx_fromlen = sizeof(struct sockaddr_in);
			tunnel_dns(TUNFD, V4FD, &fds, !strcmp(kind, "QN") ? 0 : BINDFD);
		}
		if (rx_reads != 1) printf("READS%d|", rx_reads);
	} else if (!strcmp(kind, "F") || !strcmp(kind, "FL")) {
		struct query q;
		int alen = atoi(field(&p)), k = atoi(field(&p)), port = atoi(field(&p));
		size_t n;
		memset(&q, 0, sizeof(q));
		q.id = atoi(field(&p));
		q.type = atoi(field(&p));
		n = unhex(field(&p), in);
		if (n > sizeof(q.name) - 1) n = sizeof(q.name) - 1;
		memcpy(q.name, in, n);
		q.name[n] = 0;
		client_addr(&q.from, k, port);
		q.fromlen = alen;
		forward_query(BINDFD, &q);
	} else if (!strcmp(kind, "R")) {
		struct sockaddr_in *sin = (struct sockaddr_in *)&rx_from;
		rx_len = unhex(field(&p), rx_pkt);
		memset(&rx_from, 0, sizeof(rx_from));
		sin->sin_family = AF_INET;
		sin->sin_port = htons(bind_port);
		sin->sin_addr.s_addr = htonl(0x7f000001);
		rx_fromlen = sizeof(struct sockaddr_in);
		tunnel_bind(BINDFD, &fds);
		if (rx_reads != 1) printf("READS%d|", rx_reads);
	} else {
		printf("UNKNOWN-STEP");
		return;
	}
	rx_len = -1;
	flush_sends();
}

static void do_net(char *args)
{
	static char td[256];
	char *sp, *steps, *st;
	int first = 1;
	size_t n;
	bind_port = strtol(args, &args, 10);
	while (*args == ' ') args++;
	sp = strchr(args, ' ');
	if (!sp) { printf("BAD-NET\n"); return; }
	*sp = 0;
	n = unhex(args, (unsigned char *)td);
	td[n < 255 ? n : 255] = 0;
	topdomain = td;
	debug = 0;
	steps = sp + 1;
	fw_query_init();
	while (steps) {
		char *semi = strchr(steps, ';');
		st = steps;
		if (semi) { *semi = 0; steps = semi + 1; } else steps = NULL;
		while (*st == ' ') st++;
		if (!*st) continue;
		if (!first) putchar(';');
		first = 0;
		do_step(st);
	}
	putchar('\n');
}

int handle_line(char *l)
{
	if (!strncmp(l, "RS ", 3)) { do_rs(l + 3); return 1; }
	if (!strncmp(l, "RX ", 3)) { do_rx(l + 3); return 1; }
	if (!strncmp(l, "NET ", 4)) { do_net(l + 4); return 1; }
	return 0;
}
