/*
 * Two-sided virtual-time simulator for the iodine tunnel.
 *
 * The REAL client (src/client.c: client_handshake + client_tunnel) and the REAL
 * server (src/iodined.c: tunnel(), via srv_tu.c) run as two coroutines in one
 * process.  The system calls they use for I/O and time (select, sendto,
 * recvfrom, recvmsg, recv, time, sleep) are redirected with ld --wrap to this
 * file, which implements a virtual clock, an adversarial datagram network
 * (per-datagram drop / duplicate / delay, hence reordering) and two fake tun
 * devices.  tun.c is replaced by the read_tun/write_tun below.
 *
 * Observation point = the property's: the sequence of write_tun() calls on one
 * side versus the sequence of packets returned by read_tun() on the other.
 */
#define _GNU_SOURCE
#include <stdio.h>
#include <stdlib.h>
#include <string.h>
#include <stdint.h>
#include <stdarg.h>
#include <ucontext.h>
#include <sys/types.h>
#include <sys/socket.h>
#include <sys/select.h>
#include <netinet/in.h>
#include <arpa/inet.h>
#include <time.h>
#include <unistd.h>

#include "common.h"
#include "client.h"
#include "tun.h"

void srv_setup(const char *td, const char *pw, int mtu, int dbg);
void srv_run(int tun_fd, int dns_fd);
int srv_dbg_state(char *buf, int buflen);

typedef long long usec_t;
#define INF ((usec_t)1 << 60)
#define TBASE 1000000		/* time() at virtual t=0 */

enum { CLI = 0, SRV = 1 };
#define CLI_DNS 100
#define CLI_TUN 101
#define SRV_DNS 200
#define SRV_TUN 201

static usec_t now;
static usec_t T0 = -1;		/* virtual time at which client_tunnel() starts */
static int trace;

static double rel(usec_t t) { return (t - (T0 < 0 ? 0 : T0)) / 1e6; }

static void tr(const char *fmt, ...)
{
	va_list ap;
	if (!trace) return;
	printf("[%9.3f] ", rel(now));
	va_start(ap, fmt);
	vprintf(fmt, ap);
	va_end(ap);
	printf("\n");
}

/* ------------------------------------------------------------------ tasks */

struct task {
	ucontext_t ctx;
	int state;		/* 0 runnable, 1 in select, 2 sleeping, 3 done */
	usec_t deadline;
	int want_dns, want_tun;
	char *stack;
};
static struct task tasks[2];
static ucontext_t main_ctx;
static int cur = -1;

static void yield_to_main(void)
{
	int me = cur;
	swapcontext(&tasks[me].ctx, &main_ctx);
}

/* ---------------------------------------------------------------- network */

struct dgram {
	usec_t t;
	int dst;
	int len;
	unsigned char *data;
	struct dgram *next;
};
static struct dgram *inflight;		/* sorted by t, stable */
static struct dgram *sockq[2], *sockq_tail[2];

struct rule {
	int dirmask;			/* 1 = up (client->server), 2 = down */
	double t1, t2;			/* seconds relative to T0 */
	double pdrop, pdup;
	int maxdelay_ms;
};
static struct rule rules[16];
static int nrules;
static int latency_us = 2000;
static uint32_t frng = 12345;
static long n_sent[2], n_dropped[2], n_duped[2], n_delayed[2];

static double frand(void)
{
	frng = frng * 1664525u + 1013904223u;
	return (frng >> 8) / (double)(1 << 24);
}

static void enqueue_inflight(int dst, const void *buf, int len, usec_t t)
{
	struct dgram *d = malloc(sizeof(*d)), **pp;
	d->t = t; d->dst = dst; d->len = len;
	d->data = malloc(len ? len : 1);
	memcpy(d->data, buf, len);
	for (pp = &inflight; *pp && (*pp)->t <= t; pp = &(*pp)->next)
		;
	d->next = *pp;
	*pp = d;
}

static void net_send(int src, const void *buf, int len)
{
	int dir = (src == CLI) ? 1 : 2;
	int dst = (src == CLI) ? SRV : CLI;
	int i, copies = 1;
	usec_t delay = latency_us;
	double r = rel(now);

	n_sent[src]++;
	if (T0 >= 0) {
		for (i = 0; i < nrules; i++) {
			struct rule *ru = &rules[i];
			if (!(ru->dirmask & dir) || r < ru->t1 || r >= ru->t2)
				continue;
			if (frand() < ru->pdrop) {
				n_dropped[src]++;
				tr("NET %s %d bytes DROPPED", src == CLI ? "up  " : "down", len);
				return;
			}
			if (frand() < ru->pdup) { copies = 2; n_duped[src]++; }
			if (ru->maxdelay_ms > 0) {
				delay += (usec_t)(frand() * ru->maxdelay_ms * 1000);
				n_delayed[src]++;
			}
		}
	}
	tr("NET %s %d bytes%s delay %lld us", src == CLI ? "up  " : "down", len,
	   copies == 2 ? " DUPLICATED" : "", delay);
	enqueue_inflight(dst, buf, len, now + delay);
	if (copies == 2)
		enqueue_inflight(dst, buf, len, now + delay + (usec_t)(frand() * 50000));
}

static void deliver_due(void)
{
	while (inflight && inflight->t <= now) {
		struct dgram *d = inflight;
		inflight = d->next;
		d->next = NULL;
		if (sockq_tail[d->dst]) sockq_tail[d->dst]->next = d;
		else sockq[d->dst] = d;
		sockq_tail[d->dst] = d;
	}
}

static struct dgram *sock_pop(int side)
{
	struct dgram *d = sockq[side];
	if (!d) return NULL;
	sockq[side] = d->next;
	if (!sockq[side]) sockq_tail[side] = NULL;
	return d;
}

/* ------------------------------------------------------------------- tun */

#define MAXP 100000
#define TUNQ_CAP 64		/* kernel tun queue; overflow = dropped before acceptance */

struct pkt {
	int len;
	unsigned char *data;
	usec_t t_offer, t_accept, t_deliver;
	int accepted, kerneldrop, ndeliver;
};
static struct pkt pk[2][MAXP];		/* indexed by offering side */
static int npk[2];
static int tunq[2][TUNQ_CAP], tunq_head[2], tunq_len[2];
static int last_delivered[2] = { -1, -1 };
static long n_ooo[2], n_dup[2], n_garbage[2];
static usec_t next_offer[2] = { INF, INF };
static int offer_int_ms[2] = { 200, 200 };
static int offer_size[2] = { 600, 600 };
static int offer_early_us = 0, offer_early_left = 48;	/* packets offered on the server's tun while the handshake is still going on */
static int offer_big[2] = { 0, 0 }, offer_big_every[2] = { 0, 0 };	/* every Nth packet: a large compressible one */
static double offer_start[2] = { 0.5, 0.5 }, offer_stop[2] = { 1e9, 1e9 };
static uint32_t prng = 777;

static void offer_packet(int side)
{
	int id = npk[side]++;
	struct pkt *p = &pk[side][id];
	int len = offer_size[side], i, big = 0;
	unsigned char *b;

	if (offer_big_every[side] > 0 && id % offer_big_every[side] == offer_big_every[side] - 1) {
		len = offer_big[side];
		big = 1;
	}
	b = calloc(1, len);

	/* 4 byte tun header + IPv4 header + id + incompressible filler */
	b[2] = 0x08; b[3] = 0x00;
	b[4] = 0x45;
	b[6] = (len - 4) >> 8; b[7] = (len - 4) & 0xff;
	b[12] = 64; b[13] = 17;
	if (side == CLI) { b[16]=10; b[17]=0; b[18]=0; b[19]=2;  b[20]=10; b[21]=0; b[22]=0; b[23]=1; }
	else             { b[16]=10; b[17]=0; b[18]=0; b[19]=1;  b[20]=10; b[21]=0; b[22]=0; b[23]=2; }
	b[24] = id >> 24; b[25] = id >> 16; b[26] = id >> 8; b[27] = id;
	for (i = 28; i < len; i++) {
		if (big && i >= 64) {
			/* repeating (compressible) filler, different for every packet and position within the period */
			b[i] = b[28 + (i - 28) % 36] ^ (unsigned char)(i / 36 % 3);
			continue;
		}
		prng = prng * 1103515245u + 12345u;
		b[i] = prng >> 16;
	}
	p->len = len; p->data = b; p->t_offer = now;
	if (tunq_len[side] >= TUNQ_CAP) {
		p->kerneldrop = 1;
		return;
	}
	tunq[side][(tunq_head[side] + tunq_len[side]) % TUNQ_CAP] = id;
	tunq_len[side]++;
}

static int fd_side(int fd) { return (fd == CLI_DNS || fd == CLI_TUN) ? CLI : SRV; }

ssize_t read_tun(int fd, char *buf, size_t len)
{
	int side = fd_side(fd), id;
	struct pkt *p;
	if (!tunq_len[side]) return -1;
	id = tunq[side][tunq_head[side]];
	tunq_head[side] = (tunq_head[side] + 1) % TUNQ_CAP;
	tunq_len[side]--;
	p = &pk[side][id];
	p->accepted = 1; p->t_accept = now;
	/* like a read() on the tun device: what does not fit the caller's buffer is lost */
	memcpy(buf, p->data, (size_t)p->len < len ? (size_t)p->len : len);
	tr("TUN %s read_tun  -> packet #%d (%d bytes)", side == CLI ? "client" : "server", id, p->len);
	return (size_t)p->len < len ? p->len : (int)len;
}

int write_tun(int fd, char *data, size_t len)
{
	int side = fd_side(fd), src = 1 - side, id;
	unsigned char *b = (unsigned char *) data;
	struct pkt *p;

	if (len < 28) { n_garbage[src]++; return len; }
	id = (b[24] << 24) | (b[25] << 16) | (b[26] << 8) | b[27];
	if (id < 0 || id >= npk[src] || (int)len != pk[src][id].len ||
	    memcmp(pk[src][id].data, data, len)) {
		n_garbage[src]++;
		tr("TUN %s write_tun GARBAGE %d bytes", side == CLI ? "client" : "server", (int)len);
		return len;
	}
	p = &pk[src][id];
	if (p->ndeliver++ == 0) p->t_deliver = now; else n_dup[src]++;
	if (id < last_delivered[src]) n_ooo[src]++;
	else last_delivered[src] = id;
	tr("TUN %s write_tun <- packet #%d from %s (copy %d)", side == CLI ? "client" : "server",
	   id, src == CLI ? "client" : "server", p->ndeliver);
	return len;
}

int open_tun(const char *d) { (void)d; return -1; }
void close_tun(int fd) { (void)fd; }
int tun_setip(const char *a, const char *b, int c) { (void)a; (void)b; (void)c; return 0; }
int tun_setmtu(const unsigned m) { (void)m; return 0; }

/* -------------------------------------------------------------- wrappers */

int __wrap_select(int nfds, fd_set *rfds, fd_set *wfds, fd_set *efds, struct timeval *tv);
ssize_t __wrap_sendto(int fd, const void *buf, size_t len, int flags, const struct sockaddr *to, socklen_t tolen);
ssize_t __wrap_recvfrom(int fd, void *buf, size_t len, int flags, struct sockaddr *from, socklen_t *fromlen);
ssize_t __wrap_recv(int fd, void *buf, size_t len, int flags);
ssize_t __wrap_recvmsg(int fd, struct msghdr *msg, int flags);
time_t __wrap_time(time_t *t);
unsigned int __wrap_sleep(unsigned int s);

int __wrap_select(int nfds, fd_set *rfds, fd_set *wfds, fd_set *efds, struct timeval *tv)
{
	int side = cur;
	struct task *t = &tasks[side];
	int dnsfd = side == CLI ? CLI_DNS : SRV_DNS;
	int tunfd = side == CLI ? CLI_TUN : SRV_TUN;
	int want_dns = rfds && FD_ISSET(dnsfd, rfds);
	int want_tun = rfds && FD_ISSET(tunfd, rfds);
	usec_t deadline = tv ? now + (usec_t)tv->tv_sec * 1000000 + tv->tv_usec : INF;
	(void)nfds; (void)wfds; (void)efds;

	for (;;) {
		int rd = want_dns && sockq[side] != NULL;
		int rt = want_tun && tunq_len[side] > 0;
		if (rd || rt) {
			FD_ZERO(rfds);
			if (rd) FD_SET(dnsfd, rfds);
			if (rt) FD_SET(tunfd, rfds);
			return rd + rt;
		}
		if (now >= deadline) {
			if (rfds) FD_ZERO(rfds);
			return 0;
		}
		t->state = 1; t->deadline = deadline;
		t->want_dns = want_dns; t->want_tun = want_tun;
		yield_to_main();
	}
}

unsigned int __wrap_sleep(unsigned int s)
{
	struct task *t = &tasks[cur];
	t->deadline = now + (usec_t)s * 1000000;
	while (now < t->deadline) {
		t->state = 2;
		yield_to_main();
	}
	return 0;
}

time_t __wrap_time(time_t *t)
{
	time_t v = TBASE + now / 1000000;
	if (t) *t = v;
	return v;
}

ssize_t __wrap_sendto(int fd, const void *buf, size_t len, int flags, const struct sockaddr *to, socklen_t tolen)
{
	(void)flags; (void)to; (void)tolen;
	net_send(fd_side(fd), buf, (int)len);
	return len;
}

static ssize_t pop_into(int side, void *buf, size_t len)
{
	struct dgram *d = sock_pop(side);
	ssize_t n;
	if (!d) return -1;
	n = d->len < (int)len ? d->len : (int)len;
	memcpy(buf, d->data, n);
	free(d->data); free(d);
	return n;
}

static void fill_addr(struct sockaddr_in *a, int side)
{
	memset(a, 0, sizeof(*a));
	a->sin_family = AF_INET;
	a->sin_port = htons(side == SRV ? 53 : 40000);
	a->sin_addr.s_addr = inet_addr(side == SRV ? "10.9.9.1" : "10.9.9.2");
}

ssize_t __wrap_recvfrom(int fd, void *buf, size_t len, int flags, struct sockaddr *from, socklen_t *fromlen)
{
	int side = fd_side(fd);
	(void)flags;
	if (from && fromlen && *fromlen >= sizeof(struct sockaddr_in)) {
		fill_addr((struct sockaddr_in *) from, 1 - side);
		*fromlen = sizeof(struct sockaddr_in);
	}
	return pop_into(side, buf, len);
}

ssize_t __wrap_recv(int fd, void *buf, size_t len, int flags)
{
	(void)flags;
	return pop_into(fd_side(fd), buf, len);
}

ssize_t __wrap_recvmsg(int fd, struct msghdr *msg, int flags)
{
	int side = fd_side(fd);
	(void)flags;
	if (msg->msg_name && msg->msg_namelen >= sizeof(struct sockaddr_in)) {
		memset(msg->msg_name, 0, msg->msg_namelen);
		fill_addr((struct sockaddr_in *) msg->msg_name, 1 - side);
	}
	msg->msg_controllen = 0;
	return pop_into(side, msg->msg_iov[0].iov_base, msg->msg_iov[0].iov_len);
}

/* ------------------------------------------------------------ task bodies */

static const char *opt_qtype = "NULL";
static const char *opt_downenc = NULL;
static int opt_lazy = 1, opt_raw = 0, opt_fragsize = 0, opt_maxhost = 0xFF, opt_interval = 4;
static int client_exit_reported;
static usec_t client_exit_time = -1;
static int handshake_rc = -1;

static void client_body(void)
{
	struct sockaddr_storage ns;
	struct sockaddr_in *a = (struct sockaddr_in *) &ns;

	memset(&ns, 0, sizeof(ns));
	fill_addr(a, SRV);
	client_init();
	client_set_nameserver(&ns, sizeof(struct sockaddr_in));
	client_set_selecttimeout(opt_interval);
	client_set_lazymode(opt_lazy);
	client_set_topdomain("t.example.com");
	client_set_hostname_maxlen(opt_maxhost);
	{ static char pw[33]; strcpy(pw, "secret"); client_set_password(pw); }
	client_set_qtype((char *) opt_qtype);
	if (opt_downenc) client_set_downenc((char *) opt_downenc);

	handshake_rc = client_handshake(CLI_DNS, opt_raw, opt_fragsize == 0, opt_fragsize ? opt_fragsize : 3072);
	if (handshake_rc == 0) {
		T0 = now;
		next_offer[CLI] = offer_int_ms[CLI] ? T0 + (usec_t)(offer_start[CLI] * 1e6) : INF;
		next_offer[SRV] = offer_int_ms[SRV] ? T0 + (usec_t)(offer_start[SRV] * 1e6) : INF;
		printf("handshake complete after %.3f virtual seconds; conn=%s; tunnel time starts at 0\n",
		       now / 1e6, client_get_conn() == CONN_RAW_UDP ? "raw UDP" : "DNS");
		client_tunnel(CLI_TUN, CLI_DNS);
		client_exit_time = now;
	}
	tasks[CLI].state = 3;
	yield_to_main();
}

static void server_body(void)
{
	srv_run(SRV_TUN, SRV_DNS);
	tasks[SRV].state = 3;
	yield_to_main();
}

static void start_task(int i, void (*fn)(void))
{
	size_t sz = 16 << 20;
	tasks[i].stack = malloc(sz);
	getcontext(&tasks[i].ctx);
	tasks[i].ctx.uc_stack.ss_sp = tasks[i].stack;
	tasks[i].ctx.uc_stack.ss_size = sz;
	tasks[i].ctx.uc_link = &main_ctx;
	makecontext(&tasks[i].ctx, fn, 0);
	tasks[i].state = 0;
}

static int task_ready(int i)
{
	struct task *t = &tasks[i];
	if (t->state == 0) return 1;
	if (t->state == 3) return 0;
	if (now >= t->deadline) return 1;
	if (t->state == 1) {
		if (t->want_dns && sockq[i]) return 1;
		if (t->want_tun && tunq_len[i] > 0) return 1;
	}
	return 0;
}

/* ------------------------------------------------------------------ main */

static double t_end = 120, t_settle = 30, t_margin = 10, max_latency = 10;

static void report(void)
{
	int side, i, bad = 0;
	double t_clean = 0;
	char sbuf[512];

	for (i = 0; i < nrules; i++)
		if (rules[i].t2 + rules[i].maxdelay_ms / 1000.0 > t_clean)
			t_clean = rules[i].t2 + rules[i].maxdelay_ms / 1000.0 + 0.1;

	printf("datagrams: up sent %ld dropped %ld duplicated %ld delayed %ld; down sent %ld dropped %ld duplicated %ld delayed %ld\n",
	       n_sent[CLI], n_dropped[CLI], n_duped[CLI], n_delayed[CLI],
	       n_sent[SRV], n_dropped[SRV], n_duped[SRV], n_delayed[SRV]);
	if (client_exit_time >= 0) {
		printf("VIOLATION: client program left client_tunnel() at t=%.3f\n", rel(client_exit_time));
		bad = 1;
	}
	if (nrules)
		printf("path is clean from t=%.1f; checking packets accepted in [%.1f, %.1f]\n",
		       t_clean, t_clean + t_settle, t_end - t_margin);
	else
		printf("path is clean for the whole run; checking all packets accepted up to t=%.1f\n", t_end - t_margin);

	for (side = 0; side < 2; side++) {
		const char *nm = side == CLI ? "client->server" : "server->client";
		long offered = 0, kdrop = 0, accepted = 0, delivered = 0, lost = 0, late = 0, dup = 0;
		long tot_acc = 0, tot_del = 0;
		double lo = nrules ? t_clean + t_settle : 0, hi = t_end - t_margin;
		int first_lost = -1;
		double worst = 0;

		if (!offer_int_ms[side]) continue;
		for (i = 0; i < npk[side]; i++) {
			struct pkt *p = &pk[side][i];
			if (p->accepted) tot_acc++;
			if (p->ndeliver) tot_del++;
			if (rel(p->t_offer) < lo || rel(p->t_offer) > hi) continue;
			offered++;
			if (p->kerneldrop) { kdrop++; continue; }
			if (!p->accepted) continue;	/* still in tun queue */
			if (rel(p->t_accept) > hi) continue;
			accepted++;
			if (p->ndeliver == 0) { lost++; if (first_lost < 0) first_lost = i; continue; }
			delivered++;
			if (p->ndeliver > 1) dup++;
			if ((p->t_deliver - p->t_accept) / 1e6 > worst) worst = (p->t_deliver - p->t_accept) / 1e6;
			if ((p->t_deliver - p->t_accept) / 1e6 > max_latency) late++;
		}
		printf("%s: whole run: offered %d, accepted from tun %ld, written to peer tun %ld, duplicates %ld, out-of-order %ld, garbage %ld\n",
		       nm, npk[side], tot_acc, tot_del, n_dup[side], n_ooo[side], n_garbage[side]);
		printf("%s: checked window: offered %ld, never read from tun %ld, accepted %ld, delivered %ld, lost %ld, delivered twice %ld, late(>%.0fs) %ld, worst latency %.3fs\n",
		       nm, offered, offered - accepted, accepted, delivered, lost, dup, max_latency, late, worst);
		if (n_garbage[side]) {
			printf("VIOLATION (%s): %ld packets written to the peer's tun device that were never offered (garbage)\n", nm, n_garbage[side]);
			bad = 1;
		}
		if (offered > 0 && accepted == 0) {
			printf("VIOLATION (%s): WEDGED - packets are offered on the tun device but none is ever read/forwarded\n", nm);
			bad = 1;
		}
		if (offered - accepted > TUNQ_CAP + 2 && accepted > 0) {
			printf("VIOLATION (%s): %ld offered packets were not taken from the tun device\n", nm, offered - accepted);
			bad = 1;
		}
		if (lost) {
			printf("VIOLATION (%s): %ld accepted packets never written to the peer tun (first: #%d accepted at t=%.3f)\n",
			       nm, lost, first_lost, rel(pk[side][first_lost].t_accept));
			bad = 1;
		}
		if (dup) { printf("VIOLATION (%s): %ld packets written more than once\n", nm, dup); bad = 1; }
		if (late) { printf("VIOLATION (%s): %ld packets later than %.0f s\n", nm, late, max_latency); bad = 1; }
		if (!nrules && n_ooo[side]) { printf("VIOLATION (%s): %ld packets out of order\n", nm, n_ooo[side]); bad = 1; }
	}
	srv_dbg_state(sbuf, sizeof(sbuf));
	printf("final %s\n", sbuf);
	printf("RESULT: %s\n", bad ? "PROPERTY VIOLATED" : "property holds on this run");
	fflush(stdout);
	_exit(bad ? 1 : 0);
}

static void usage(void)
{
	fprintf(stderr,
	"sim [--end S] [--settle S] [--seed N] [--trace] [--qtype T] [--downenc E] [--lazy 0|1] [--raw 0|1]\n"
	"    [--fragsize N] [--maxhost N] [--latency-us N]\n"
	"    [--cli-int MS] [--srv-int MS] [--cli-size B] [--srv-size B] [--cli-start S] [--srv-start S] [--cli-stop S] [--srv-stop S]\n"
	"    [--fault DIR T1 T2 PDROP PDUP MAXDELAYMS]...   DIR = up|down|both\n");
	exit(2);
}

int main(int argc, char **argv)
{
	int i, seed = 1;

	setvbuf(stdout, NULL, _IOLBF, 0);
	for (i = 1; i < argc; i++) {
#define ARG(n) (!strcmp(argv[i], n) && i + 1 < argc)
		if (ARG("--end")) t_end = atof(argv[++i]);
		else if (ARG("--settle")) t_settle = atof(argv[++i]);
		else if (ARG("--maxlat")) max_latency = atof(argv[++i]);
		else if (ARG("--seed")) seed = atoi(argv[++i]);
		else if (!strcmp(argv[i], "--trace")) trace = 1;
		else if (ARG("--qtype")) opt_qtype = argv[++i];
		else if (ARG("--downenc")) opt_downenc = argv[++i];
		else if (ARG("--lazy")) opt_lazy = atoi(argv[++i]);
		else if (ARG("--raw")) opt_raw = atoi(argv[++i]);
		else if (ARG("--interval")) opt_interval = atoi(argv[++i]);
		else if (ARG("--fragsize")) opt_fragsize = atoi(argv[++i]);
		else if (ARG("--maxhost")) opt_maxhost = atoi(argv[++i]);
		else if (ARG("--latency-us")) latency_us = atoi(argv[++i]);
		else if (ARG("--cli-int")) offer_int_ms[CLI] = atoi(argv[++i]);
		else if (ARG("--srv-int")) offer_int_ms[SRV] = atoi(argv[++i]);
		else if (ARG("--cli-size")) offer_size[CLI] = atoi(argv[++i]);
		else if (ARG("--srv-size")) offer_size[SRV] = atoi(argv[++i]);
		else if (ARG("--srv-early-us")) offer_early_us = atoi(argv[++i]);
		else if (ARG("--cli-big")) { offer_big[CLI] = atoi(argv[++i]); offer_big_every[CLI] = 5; }
		else if (ARG("--srv-big")) { offer_big[SRV] = atoi(argv[++i]); offer_big_every[SRV] = 5; }
		else if (ARG("--cli-start")) offer_start[CLI] = atof(argv[++i]);
		else if (ARG("--srv-start")) offer_start[SRV] = atof(argv[++i]);
		else if (ARG("--cli-stop")) offer_stop[CLI] = atof(argv[++i]);
		else if (ARG("--srv-stop")) offer_stop[SRV] = atof(argv[++i]);
		else if (!strcmp(argv[i], "--fault") && i + 6 < argc && nrules < 16) {
			struct rule *r = &rules[nrules++];
			const char *d = argv[++i];
			r->dirmask = !strcmp(d, "up") ? 1 : !strcmp(d, "down") ? 2 : 3;
			r->t1 = atof(argv[++i]); r->t2 = atof(argv[++i]);
			r->pdrop = atof(argv[++i]); r->pdup = atof(argv[++i]);
			r->maxdelay_ms = atoi(argv[++i]);
		} else usage();
	}
	srand(seed);
	frng = 12345 + seed * 7919;

	srv_setup("t.example.com", "secret", 1130, 0);
	start_task(SRV, server_body);
	start_task(CLI, client_body);

	for (;;) {
		int progressed = 0;
		usec_t next = INF;
		struct task *t;

		if (T0 >= 0 && rel(now) >= t_end)
			break;
		if (T0 < 0 && now > 300 * 1000000LL) {
			printf("handshake did not complete (rc=%d)\n", handshake_rc);
			return 3;
		}
		deliver_due();
		if (T0 < 0 && offer_early_us > 0 && offer_int_ms[SRV]) {
			/* handshake phase: packets for the client keep arriving at the server's tun device (they are outside the
			   checked window: a packet for a client that is not logged in yet is dropped by design) */
			if (next_offer[SRV] >= INF)
				next_offer[SRV] = 0;
			while (next_offer[SRV] <= now) {
				if (offer_early_left > 0 && npk[SRV] < MAXP) {
					offer_packet(SRV);
					offer_early_left--;
				}
				next_offer[SRV] += offer_early_us;
			}
		} else
		for (i = 0; i < 2; i++)
			while (next_offer[i] <= now) {
				if (rel(next_offer[i]) <= offer_stop[i] && npk[i] < MAXP)
					offer_packet(i);
				next_offer[i] += (usec_t) offer_int_ms[i] * 1000;
			}
		for (i = 0; i < 2; i++) {
			if (task_ready(i)) {
				cur = i;
				tasks[i].state = 0;
				swapcontext(&main_ctx, &tasks[i].ctx);
				cur = -1;
				progressed = 1;
			}
		}
		if (tasks[CLI].state == 3 && !client_exit_reported) {
			client_exit_reported = 1;
			if (handshake_rc != 0) {
				printf("client handshake failed rc=%d\n", handshake_rc);
				return 3;
			}
			printf("[%9.3f] client program exited its tunnel loop\n", rel(now));
		}
		if (progressed)
			continue;
		if (inflight && inflight->t < next) next = inflight->t;
		for (i = 0; i < 2; i++) {
			t = &tasks[i];
			if (next_offer[i] < next) next = next_offer[i];
			if (t->state != 3 && t->deadline < next) next = t->deadline;
		}
		if (T0 >= 0 && T0 + (usec_t)(t_end * 1e6) < next) next = T0 + (usec_t)(t_end * 1e6);
		if (next >= INF) break;
		if (next <= now) next = now + 1;
		now = next;
	}
	report();
	return 0;
}
