/* h_c19srv.c -- C19, server side: the real static handle_raw_login of src/iodined.c reached by
 * including the file (main renamed).  Linked with -Wl,--wrap=sendto,--wrap=time,--wrap=rand: the
 * wrapper records the datagram the server answers with.
 * SV: the real handle_null_request on a version query ('V' branch: users[].seed = rand() with the
 * scripted rand() value, send_version_response) and then on a login query carrying the given 16
 * hash bytes; the DNS answers are decoded with the repository's dns_decode. */
#include "hlib.h"
#define main iodined_main
#include "iodined.c"	/* found through -I <snapshot>/src */
#undef main

ssize_t __wrap_sendto(int fd, const void *buf, size_t len, int flags, const struct sockaddr *to, socklen_t tolen);

static unsigned char sent[4096];
static size_t sent_len;
static int sent_count;

ssize_t __wrap_sendto(int fd, const void *buf, size_t len, int flags, const struct sockaddr *to, socklen_t tolen)
{
	if (len > sizeof(sent))
		len = sizeof(sent);
	memcpy(sent, buf, len);
	sent_len = len;
	sent_count++;
	return len;
}

static int srv_ready;

int __wrap_rand(void);
int __real_rand(void);
static int rand_scripted, rand_value, rand_calls;
int __wrap_rand(void)
{
	rand_calls++;
	return rand_scripted ? rand_value : __real_rand();
}

static char srv_topdomain[] = "t.example.com";

/* one query "<cmd><Base32 of data>.<topdomain>" of the given type through handle_null_request;
 * returns the length of the answer's payload decoded into out (TXT: 't' + Base32 undone), -1
 * when nothing (or not exactly one datagram) was sent, -2 when the answer does not decode */
static int srv_query(char cmd, const unsigned char *data, size_t dlen, int qtype, unsigned short id,
		     unsigned char *out, size_t outlen)
{
	struct query q, a;
	struct sockaddr_in *sin;
	struct dnsfd fds;
	char enc[256], buf[4096];
	size_t space = sizeof(enc) - 1;
	int n;

	memset(&q, 0, sizeof(q));
	n = base32_ops.encode(enc, &space, data, dlen);	/* returns the number of characters */
	enc[n] = 0;
	snprintf(q.name, sizeof(q.name), "%c%s.%s", cmd, enc, srv_topdomain);
	q.type = qtype;
	q.id = id;
	sin = (struct sockaddr_in *)&q.from;
	sin->sin_family = AF_INET;
	sin->sin_port = htons(4711);
	sin->sin_addr.s_addr = inet_addr("192.0.2.7");
	q.fromlen = sizeof(*sin);
	memset(&fds, 0, sizeof(fds));
	fds.v4fd = 10;
	fds.v6fd = -1;
	sent_len = 0;
	sent_count = 0;
	handle_null_request(11, 10, &fds, &q, query_datalen(q.name, topdomain));
	if (sent_count != 1)
		return -1;
	memset(&a, 0, sizeof(a));
	n = dns_decode(buf, sizeof(buf), &a, QR_ANSWER, (char *)sent, sent_len);
	if (n <= 0 || a.id != id)
		return -2;
	if (qtype == T_TXT) {
		size_t ol = outlen;
		if (buf[0] != 't' && buf[0] != 'T')
			return -2;
		return base32_ops.decode(out, &ol, buf + 1, n - 1);
	}
	if ((size_t)n > outlen)
		return -2;
	memcpy(out, buf, n);
	return n;
}

/* SV passhex rand uid kind loginhex -- rand: the value rand() returns (decimal, 32-bit pattern of
 * the int); uid: the slot the version handler is to find free (lower slots are made busy);
 * kind N / T: NULL or TXT queries; loginhex: the 16 hash bytes of the login message */
static void do_version_login(char *args)
{
	unsigned char pw[64], hash[64], msg[32], out[256], rawpkt[64];
	size_t n, hl, rawlen;
	char *sp, *rawtok;
	uint32_t r;
	int uid, i, qtype, len, twin;

	if (!srv_ready) {
		created_users = init_users(inet_addr("10.9.0.1"), 27);
		srv_ready = 1;
	}
	topdomain = srv_topdomain;
	check_ip = 1;	/* the default of iodined (no -c) */
	my_ip = inet_addr("10.9.0.1");
	my_mtu = 1130;
	netmask = 27;
	n = unhex(args, in);
	memcpy(pw, in, n > 32 ? 32 : n);
	memset(password, 0, sizeof(password));
	memcpy(password, pw, n > 32 ? 32 : n);
	sp = strchr(args, ' ');
	if (!sp) { printf("BADCASE\n"); return; }
	r = (uint32_t)strtoul(sp + 1, &sp, 10);
	uid = (int)strtol(sp, &sp, 10);
	while (*sp == ' ') sp++;
	twin = (*sp == 'n' || *sp == 't');
	if (twin) *sp = (char)toupper((unsigned char)*sp);
	if ((*sp != 'N' && *sp != 'T') || uid < 0 || uid >= created_users) { printf("BADCASE\n"); return; }
	qtype = *sp == 'T' ? T_TXT : T_NULL;
	sp++;
	while (*sp == ' ') sp++;
	hl = unhex(sp, in);
	if (hl > 16) hl = 16;
	memset(hash, 0, sizeof(hash));
	memcpy(hash, in, hl);
	/* optional: the payload of a raw login datagram sent after the DNS login */
	rawtok = strchr(sp, ' ');
	rawlen = 0;
	if (rawtok) {
		while (*rawtok == ' ') rawtok++;
		rawlen = unhex(rawtok, in);
		if (rawlen > sizeof(rawpkt)) rawlen = sizeof(rawpkt);
		memcpy(rawpkt, in, rawlen);
	}

	for (i = 0; i < created_users; i++) {
		users[i].active = i < uid;
		users[i].disabled = 0;
		users[i].last_pkt = time(NULL);
		users[i].seed = 0x5a5a5a5a;
		users[i].authenticated = 0;
	}
	/* client.c send_version: version, 2 CMC bytes */
	msg[0] = (PROTOCOL_VERSION >> 24) & 0xff;
	msg[1] = (PROTOCOL_VERSION >> 16) & 0xff;
	msg[2] = (PROTOCOL_VERSION >> 8) & 0xff;
	msg[3] = PROTOCOL_VERSION & 0xff;
	msg[4] = 0x12;
	msg[5] = 0x34;
	rand_scripted = 1;
	rand_value = (int)r;
	rand_calls = 0;
	len = srv_query('v', msg, 6, qtype, 0x1001, out, sizeof(out));
	rand_scripted = 0;
	if (len < 0) {
		printf("NO-VERSION-ANSWER %d count=%d\n", len, sent_count);
		return;
	}
	printf("reply=");
	puthex(out, len);
	printf(" seed=%u rand_calls=%d", (unsigned int)users[uid].seed, rand_calls);
	if (twin) {
		/* a second version request from the same address before the login (other CMC bytes, other DNS id) */
		unsigned char out2[256];
		msg[4] = 0x77;
		msg[5] = 0x01;
		rand_scripted = 1;
		rand_value = (int)(r ^ 0x5bd1e995u);
		srv_query('v', msg, 6, qtype, 0x1003, out2, sizeof(out2));
		rand_scripted = 0;
	}
	/* client.c send_login: userid, 16 hash bytes, 2 CMC bytes */
	msg[0] = (unsigned char)uid;
	memcpy(msg + 1, hash, 16);
	msg[17] = 0x12;
	msg[18] = 0x35;
	len = srv_query('l', msg, 19, qtype, 0x1002, out, sizeof(out));
	if (len < 0)
		printf(" login=NO-ANSWER %d", len);
	else if (len == 4 && !memcmp(out, "LNAK", 4))
		printf(" login=LNAK auth=%d", users[uid].authenticated);
	else if (len >= 7 && isdigit(out[0]) && users[uid].authenticated)
		printf(" login=ACCEPT auth=1");
	else {
		printf(" login=OTHER ");
		puthex(out, len);
		printf(" auth=%d", users[uid].authenticated);
	}
	if (rawtok) {
		/* the raw login that follows the DNS login of the same session: still the challenge of the version reply */
		struct query q;
		struct sockaddr_in *sin;
		unsigned char *pkt = malloc(rawlen ? rawlen : 1);
		memcpy(pkt, rawpkt, rawlen);
		memset(&q, 0, sizeof(q));
		sin = (struct sockaddr_in *)&q.from;
		sin->sin_family = AF_INET;
		sin->sin_port = htons(4712);
		sin->sin_addr.s_addr = inet_addr("192.0.2.7");
		q.fromlen = sizeof(*sin);
		sent_len = 0;
		sent_count = 0;
		handle_raw_login((char *)pkt, (int)rawlen, &q, 7, uid);
		if (sent_count == 0)
			printf(" raw=NONE");
		else if (sent_count != 1 || sent_len != RAW_HDR_LEN + 16 || memcmp(sent, raw_header, RAW_HDR_IDENT_LEN) != 0 ||
			 (sent[RAW_HDR_CMD] & 0xff) != (RAW_HDR_CMD_LOGIN | (uid & 0x0F))) {
			printf(" raw=BAD:");
			puthex(sent, sent_len);
		} else {
			printf(" raw=");
			puthex(sent + RAW_HDR_LEN, 16);
		}
		free(pkt);
	}
	printf("\n");
}

/* SR passhex seed pkthex -- pkthex is the payload of a raw login datagram (after the header) */
static void do_raw_login(char *args)
{
	size_t n, plen;
	char *sp;
	uint32_t useed;
	struct query q;
	struct sockaddr_in *sin;
	unsigned char *pkt;
	int uid = 2;

	if (!srv_ready) {
		created_users = init_users(inet_addr("10.9.0.1"), 27);
		srv_ready = 1;
	}
	n = unhex(args, in);
	sp = strchr(args, ' ');
	if (!sp) {
		printf("BADCASE\n");
		return;
	}
	/* password as iodined.c holds it: static char[33], strncpy + terminator */
	memset(password, 0, sizeof(password));
	memcpy(password, in, n > 32 ? 32 : n);
	useed = (uint32_t)strtoul(sp + 1, &sp, 10);
	while (*sp == ' ') sp++;
	plen = unhex(sp, in);
	pkt = malloc(plen ? plen : 1);	/* exact size: a sanitizer build sees over-reads */
	memcpy(pkt, in, plen);

	users[uid].active = 1;
	users[uid].disabled = 0;
	users[uid].authenticated = 1;
	users[uid].authenticated_raw = 0;
	users[uid].last_pkt = time(NULL);
	users[uid].seed = (int)useed;
	users[uid].conn = CONN_DNS_NULL;
	memset(&q, 0, sizeof(q));
	sin = (struct sockaddr_in *)&q.from;
	sin->sin_family = AF_INET;
	sin->sin_port = htons(4711);
	sin->sin_addr.s_addr = inet_addr("192.0.2.7");
	q.fromlen = sizeof(*sin);
	sent_len = 0;
	sent_count = 0;

	handle_raw_login((char *)pkt, (int)plen, &q, 7, uid);

	if (sent_count == 0) {
		printf(users[uid].authenticated_raw ? "NONE-BUT-AUTHENTICATED\n" : "NONE\n");
	} else if (sent_count != 1 || sent_len != RAW_HDR_LEN + 16 ||
		   memcmp(sent, raw_header, RAW_HDR_IDENT_LEN) != 0 ||
		   (sent[RAW_HDR_CMD] & 0xff) != (RAW_HDR_CMD_LOGIN | (uid & 0x0F)) ||
		   !users[uid].authenticated_raw || users[uid].conn != CONN_RAW_UDP) {
		printf("BAD-RAW-LOGIN-ANSWER count=%d ", sent_count);
		puthex(sent, sent_len);
		putchar('\n');
	} else {
		printf("REPLY ");
		puthex(sent + RAW_HDR_LEN, 16);
		putchar('\n');
	}
	free(pkt);
}

/* SN msghex kind -- a version message (version bytes + CMC bytes) that does not carry the
 * server's version: the answer must be VNAK + the server's version, and rand() is not called */
static void do_version_nak(char *args)
{
	unsigned char msg[64], out[256];
	size_t n;
	char *sp;
	int i, len;

	if (!srv_ready) {
		created_users = init_users(inet_addr("10.9.0.1"), 27);
		srv_ready = 1;
	}
	topdomain = srv_topdomain;
	n = unhex(args, in);
	sp = strchr(args, ' ');
	if (!sp || n == 0 || n > 40 || (sp[1] != 'N' && sp[1] != 'T')) { printf("BADCASE\n"); return; }
	memcpy(msg, in, n);
	for (i = 0; i < created_users; i++) {
		users[i].active = 0;
		users[i].disabled = 0;
		users[i].seed = 0x5a5a5a5a;
	}
	rand_scripted = 1;
	rand_value = 0x11223344;
	rand_calls = 0;
	len = srv_query('v', msg, n, sp[1] == 'T' ? T_TXT : T_NULL, 0x1003, out, sizeof(out));
	rand_scripted = 0;
	if (len < 0) {
		printf("NO-VERSION-ANSWER %d count=%d\n", len, sent_count);
		return;
	}
	if (len >= 4 && !memcmp(out, "VACK", 4)) {
		printf("VERSION-MATCHES\n");
		return;
	}
	printf("reply=");
	puthex(out, len);
	printf(" rand_calls=%d\n", rand_calls);
}

int handle_line(char *l)
{
	if (!strncmp(l, "SR ", 3)) { do_raw_login(l + 3); return 1; }
	if (!strncmp(l, "SV ", 3)) { do_version_login(l + 3); return 1; }
	if (!strncmp(l, "SN ", 3)) { do_version_nak(l + 3); return 1; }
	return 0;
}
