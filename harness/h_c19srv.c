/* h_c19srv.c -- C19, server side: the real static handle_raw_login of src/iodined.c reached by
 * including the file (main renamed).  Linked with -Wl,--wrap=sendto,--wrap=time: the wrapper
 * records the raw datagram the server answers with. */
#include "hlib.h"
#define main iodined_main
#include "iodined.c"	/* found through -I <snapshot>/src */
#undef main

ssize_t __wrap_sendto(int fd, const void *buf, size_t len, int flags, const struct sockaddr *to, socklen_t tolen);

static unsigned char sent[4096];
static size_t sent_len;
static int sent_count;

ssize_t __wrap_sendto(int fd, const void *buf, size_t len, int flags, const struct sockaddr *to, socklen_t tolen)
{
	if (len > sizeof(sent))
		len = sizeof(sent);
	memcpy(sent, buf, len);
	sent_len = len;
	sent_count++;
	return len;
}

static int srv_ready;

/* SR passhex seed pkthex -- pkthex is the payload of a raw login datagram (after the header) */
static void do_raw_login(char *args)
{
	size_t n, plen;
	char *sp;
	uint32_t useed;
	struct query q;
	struct sockaddr_in *sin;
	unsigned char *pkt;
	int uid = 2;

	if (!srv_ready) {
		created_users = init_users(inet_addr("10.9.0.1"), 27);
		srv_ready = 1;
	}
	n = unhex(args, in);
	sp = strchr(args, ' ');
	if (!sp) {
		printf("BADCASE\n");
		return;
	}
	/* password as iodined.c holds it: static char[33], strncpy + terminator */
	memset(password, 0, sizeof(password));
	memcpy(password, in, n > 32 ? 32 : n);
	useed = (uint32_t)strtoul(sp + 1, &sp, 10);
	while (*sp == ' ') sp++;
	plen = unhex(sp, in);
	pkt = malloc(plen ? plen : 1);	/* exact size: a sanitizer build sees over-reads */
	memcpy(pkt, in, plen);

	users[uid].active = 1;
	users[uid].disabled = 0;
	users[uid].authenticated = 1;
	users[uid].authenticated_raw = 0;
	users[uid].last_pkt = time(NULL);
	users[uid].seed = (int)useed;
	users[uid].conn = CONN_DNS_NULL;
	memset(&q, 0, sizeof(q));
	sin = (struct sockaddr_in *)&q.from;
	sin->sin_family = AF_INET;
	sin->sin_port = htons(4711);
	sin->sin_addr.s_addr = inet_addr("192.0.2.7");
	q.fromlen = sizeof(*sin);
	sent_len = 0;
	sent_count = 0;

	handle_raw_login((char *)pkt, (int)plen, &q, 7, uid);

	if (sent_count == 0) {
		printf(users[uid].authenticated_raw ? "NONE-BUT-AUTHENTICATED\n" : "NONE\n");
	} else if (sent_count != 1 || sent_len != RAW_HDR_LEN + 16 ||
		   memcmp(sent, raw_header, RAW_HDR_IDENT_LEN) != 0 ||
		   (sent[RAW_HDR_CMD] & 0xff) != (RAW_HDR_CMD_LOGIN | (uid & 0x0F)) ||
		   !users[uid].authenticated_raw || users[uid].conn != CONN_RAW_UDP) {
		printf("BAD-RAW-LOGIN-ANSWER count=%d ", sent_count);
		puthex(sent, sent_len);
		putchar('\n');
	} else {
		printf("REPLY ");
		puthex(sent + RAW_HDR_LEN, 16);
		putchar('\n');
	}
	free(pkt);
}

int handle_line(char *l)
{
	if (!strncmp(l, "SR ", 3)) { do_raw_login(l + 3); return 1; }
	return 0;
}
