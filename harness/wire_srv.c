/* wire_srv.c -- the real server (iodined.c of the snapshot) as a translation unit, with thin
 * exported entry points to its static functions. */
#include "wire.h"

#define main iodined_main
#include "iodined.c"	/* found through -I <snapshot>/src */
#undef main

static struct dnsfd srv_fds = { 10, -1 };
static char srv_topdomain_buf[300];

void srv_init(const char *topdom, const char *pass, int checkip, const char *myip, int netbits, int mtu)
{
	int i;
	strncpy(srv_topdomain_buf, topdom, sizeof(srv_topdomain_buf) - 1);
	topdomain = srv_topdomain_buf;
	memset(password, 0, sizeof(password));
	strncpy(password, pass, sizeof(password) - 1);
	check_ip = checkip;
	my_ip = inet_addr(myip);
	netmask = netbits;
	my_mtu = mtu;
	ns_ip = INADDR_ANY;
	bind_port = 0;
	debug = 0;
	running = 1;
	if (users) {
		free(users);
		users = NULL;
	}
	created_users = init_users(my_ip, netbits);
	for (i = 0; i < created_users; i++) {
		/* calloc'ed: make the fields the C leaves for the 'V' handler deterministic */
		users[i].q.id = 0;
		users[i].q_sendrealsoon.id = 0;
	}
	fw_query_init();
}

void srv_write_dns(struct query *q, const char *data, int datalen, char downenc)
{
	write_dns(10, q, data, datalen, downenc);
}

int srv_read_dns(struct query *q)
{
	return read_dns(10, &srv_fds, 11, q);
}

void srv_tunnel_dns(void)
{
	tunnel_dns(11, 10, &srv_fds, bind_port ? 12 : 0);
}

void srv_tunnel_tun(void)
{
	tunnel_tun(11, &srv_fds);
}

/* the real select loop of the server (max_idle_time 0); srv_stop() ends it from the select() hook */
int srv_tunnel_loop(void)
{
	return tunnel(11, &srv_fds, bind_port ? 12 : 0, 0);
}

void srv_stop(void)
{
	running = 0;
}

void srv_set_ns_ip(const unsigned char *ip4)
{
	if (ip4)
		memcpy(&ns_ip, ip4, 4);
	else
		ns_ip = INADDR_ANY;
}

void srv_set_bind_port(int port)
{
	bind_port = port;
}

void srv_sweep(void)
{
	/* the two per-iteration loops of tunnel(): clear q_sendrealsoon_new before select(),
	   answer held send-real-soon queries after it */
	int userid;
	for (userid = 0; userid < created_users; userid++) {
		if (users[userid].active && !users[userid].disabled &&
		    users[userid].last_pkt + 60 > time(NULL)) {
			users[userid].q_sendrealsoon_new = 0;
		}
	}
	for (userid = 0; userid < created_users; userid++)
		if (users[userid].active && !users[userid].disabled &&
		    users[userid].last_pkt + 60 > time(NULL) &&
		    users[userid].q_sendrealsoon.id != 0 &&
		    users[userid].conn == CONN_DNS_NULL &&
		    !users[userid].q_sendrealsoon_new) {
			int dns_fd = get_dns_fd(&srv_fds, &users[userid].q_sendrealsoon.from);
			send_chunk_or_dataless(dns_fd, userid, &users[userid].q_sendrealsoon);
		}
}

/* the two halves of the sweep separately: top of the select loop / bottom of the loop */
void srv_sweep_clear(void)
{
	int userid;
	for (userid = 0; userid < created_users; userid++) {
		if (users[userid].active && !users[userid].disabled &&
		    users[userid].last_pkt + 60 > time(NULL)) {
			users[userid].q_sendrealsoon_new = 0;
		}
	}
}

void srv_sweep_send(void)
{
	int userid;
	for (userid = 0; userid < created_users; userid++)
		if (users[userid].active && !users[userid].disabled &&
		    users[userid].last_pkt + 60 > time(NULL) &&
		    users[userid].q_sendrealsoon.id != 0 &&
		    users[userid].conn == CONN_DNS_NULL &&
		    !users[userid].q_sendrealsoon_new) {
			int dns_fd = get_dns_fd(&srv_fds, &users[userid].q_sendrealsoon.from);
			send_chunk_or_dataless(dns_fd, userid, &users[userid].q_sendrealsoon);
		}
}

void srv_handle_null_request(struct query *q, int domain_len)
{
	handle_null_request(11, 10, &srv_fds, q, domain_len);
}

const char *srv_topdomain(void)
{
	return topdomain;
}

struct tun_user *srv_user(int i)
{
	return &users[i];
}
