/* h_c17.c -- C17: the real check_topdomain() and query_datalen() of src/common.c.
 *
 *   V <w> <hex>,<hex>,...            one result char per string: '0' accepted / '1' rejected
 *                                    (the C return value); 'E' if the call with errormsg=NULL
 *                                    and the call with &msg disagree, or msg is not set
 *                                    exactly on rejection, or the return value is not 0/1
 *   M <dhex>,<dhex>,.. <qhex>,<qhex>,..
 *                                    for each query name: query_datalen against each domain,
 *                                    results joined by ',', query names separated by ' '
 *
 * "-" is the empty string.  Every string is copied into an exact-size heap block (len+1) so
 * that a sanitizer build sees any read outside the string. */
#include "hlib.h"

#define MAXDOM 64

/* next comma-separated item of *p (terminated by ',' ' ' or NUL) as an exact-size C string */
static char *next_item(char **p, size_t *len)
{
	char *s = *p, *e = s, *out;
	size_t n;
	char save;

	while (*e && *e != ',' && *e != ' ')
		e++;
	save = *e;
	*e = 0;
	n = unhex(s, in);
	*e = save;
	out = malloc(n + 1);
	memcpy(out, in, n);
	out[n] = 0;
	if (len)
		*len = n;
	*p = e;
	return out;
}

static void do_valid(char *args)
{
	int w = strtol(args, &args, 10);

	while (*args == ' ') args++;
	for (;;) {
		char *s = next_item(&args, NULL);
		char *msg = NULL;
		int r1 = check_topdomain(s, w, NULL);
		int r2 = check_topdomain(s, w, &msg);

		if (r1 != r2 || (r1 != 0 && r1 != 1) || (r1 == 0) != (msg == NULL))
			putchar('E');
		else
			putchar('0' + r1);
		free(s);
		if (*args != ',')
			break;
		args++;
	}
	putchar('\n');
}

static void do_match(char *args)
{
	char *dom[MAXDOM];
	int nd = 0, i, firstq = 1;

	for (;;) {
		if (nd == MAXDOM) {
			printf("TOO-MANY-DOMAINS\n");
			return;
		}
		dom[nd++] = next_item(&args, NULL);
		if (*args != ',')
			break;
		args++;
	}
	while (*args == ' ') args++;
	for (;;) {
		char *q = next_item(&args, NULL);

		if (!firstq)
			putchar(' ');
		firstq = 0;
		for (i = 0; i < nd; i++)
			printf("%s%d", i ? "," : "", query_datalen(q, dom[i]));
		free(q);
		if (*args != ',')
			break;
		args++;
	}
	putchar('\n');
	for (i = 0; i < nd; i++)
		free(dom[i]);
}

int handle_line(char *l)
{
	if (!strncmp(l, "V ", 2)) { do_valid(l + 2); return 1; }
	if (!strncmp(l, "M ", 2)) { do_match(l + 2); return 1; }
	return 0;
}
