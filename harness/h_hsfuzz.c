/* h_hsfuzz.c -- single handshake steps of the real client (client.c of the snapshot, included
 * here to reach its static functions) driven by a scripted sequence of replies (C06).
 * Linked with hmain.c and wire_net.c only (no server): the replies come from the case line.
 *
 * H step qtype uid lazy downenc seed arg ; item ; item ...
 *   step   : version login rawudp edns0 upenctest upenc_auto downenctest downenc_auto qtypetest
 *            qtype_auto switch_codec switch_downenc try_lazy lazyoff autoprobe set_fragsize full
 *            tunnel (arg x tunnel_dns on the items, DNS mode) rawtunnel (same, raw UDP mode)
 *   qtype  : do_qtype (0: T_UNSET);  downenc: character code (32 ' ' = autodetect)
 *   seed   : the login seed (int) passed to handshake_login / handshake_raw_udp
 *   arg    : switch_codec: bits; downenctest: codec char; upenctest: pattern number 0..6;
 *            qtypetest: timeout; set_fragsize: fragsize; full: raw_mode + 2*autodetect_frag_size
 *            (fragsize 1000)
 *   item   : T            select() times out
 *            HEX          datagram delivered as it is
 *            =HEX         bytes 0-1 replaced by the id of the client's latest query
 *            @HEX         same, and the first character of the question name (byte 13) replaced
 *                         by the first character of the name of the client's latest query
 *            each item may be followed by /R (R = residue pattern 0..4 of the receive buffer)
 *   when the script is exhausted every further select() times out.
 * Result: "rv=.. uid=.. seed=.. qtype=.. up=.. down=.. lazy=.. st=.. conn=.. edns=.. q=.. left=.. sys=[..]"
 * or "BAIL code" (errx/err/exit or more than 400 time-outs).  stderr of the client is discarded
 * by the runner; sanitizer reports go there. */
#include "hlib.h"
#include "wire.h"
#include <setjmp.h>
#include <stdarg.h>

#include "client.c"	/* found through -I <snapshot>/src */

#ifdef __SANITIZE_ADDRESS__
#define NGUARD 0	/* the heap redzone is the guard */
#else
#define NGUARD GUARD
#endif

static jmp_buf bail;
static int bail_code;

void __wrap_errx(int eval, const char *fmt, ...);
void __wrap_errx(int eval, const char *fmt, ...) { (void)fmt; bail_code = 100 + eval; longjmp(bail, 1); }
void __wrap_err(int eval, const char *fmt, ...);
void __wrap_err(int eval, const char *fmt, ...) { (void)fmt; bail_code = 200 + eval; longjmp(bail, 1); }
void __wrap_exit(int code);
void __wrap_exit(int code) { bail_code = 300 + code; longjmp(bail, 1); }

#define MAXITEMS 512
static char *items[MAXITEMS];
static int nitems, nextitem;
static unsigned char lastq[4096];
static int lastq_len;
static long queries;
static int timeouts;
static unsigned char dgram[65536];

static void on_sendto(int fd, const void *buf, size_t len, const struct sockaddr *to, socklen_t tolen)
{
	(void)fd; (void)to; (void)tolen;
	queries++;
	if (len >= 4 && !memcmp(buf, raw_header, 3))
		return;
	lastq_len = len > sizeof(lastq) ? (int)sizeof(lastq) : (int)len;
	memcpy(lastq, buf, lastq_len);
}

static int deliver(char *it)
{
	/* returns 0 for a time-out item */
	int mode = 0, n, res = -1;
	char *sl;
	while (*it == ' ') it++;
	if (*it == 'T' || *it == 0)
		return 0;
	if (*it == '=') { mode = 1; it++; }
	else if (*it == '@') { mode = 2; it++; }
	sl = strchr(it, '/');
	if (sl)
		res = atoi(sl + 1);
	if (strspn(it, "0123456789abcdefABCDEF") > 2 * sizeof(dgram))
		return 0;	/* does not fit a UDP datagram */
	n = (int)unhex(it, dgram);
	if (mode >= 1 && n >= 2) {
		/* chunkid is the id of the latest query (1000 before the first one) */
		dgram[0] = (unsigned char)(chunkid >> 8);
		dgram[1] = (unsigned char)(chunkid & 0xff);
	}
	if (mode == 2 && n >= 14 && lastq_len >= 14 && dgram[12] >= 1 && dgram[12] < 64)
		dgram[13] = lastq[13];
	inj_fromlen = 0;
	inj_set(dgram, n);
	inj_residue = res;
	return 1;
}

static int on_select(int nfds, fd_set *rfds, struct timeval *tv)
{
	(void)nfds;
	while (nextitem < nitems) {
		if (deliver(items[nextitem++])) {
			if (rfds) {
				FD_ZERO(rfds);
				FD_SET(20, rfds);
			}
			return 1;
		}
		break;	/* explicit time-out item */
	}
	if (++timeouts > 400) {
		bail_code = 999;
		longjmp(bail, 1);
	}
	if (tv)
		verif_now += tv->tv_sec ? tv->tv_sec : 1;
	if (rfds)
		FD_ZERO(rfds);
	return 0;
}

static char topdom_buf[64];
static char pwbuf[33];
void wire_srand(unsigned long s);

static void setup(int qtype, int uid, int lazy, int denc)
{
	struct sockaddr_in *a = (struct sockaddr_in *)&nameserv;
	client_init();
	strcpy(topdom_buf, "t.example.com");
	topdomain = topdom_buf;
	memset(pwbuf, 0, sizeof(pwbuf));
	strcpy(pwbuf, "sesame");
	client_set_password(pwbuf);
	do_qtype = qtype ? qtype : T_UNSET;
	downenc = (char)denc;
	dataenc = &base32_ops;
	lazymode = lazy;
	hostname_maxlen = 255;
	selecttimeout = 4;
	conn = CONN_DNS_NULL;
	userid = uid;
	userid_char = "0123456789abcdef"[uid & 15];
	userid_char2 = "0123456789ABCDEF"[uid & 15];
	memset(&nameserv, 0, sizeof(nameserv));
	a->sin_family = AF_INET;
	a->sin_port = htons(53);
	a->sin_addr.s_addr = inet_addr("192.0.2.53");
	nameserv_len = sizeof(struct sockaddr_in);
	memset(&raw_serv, 0, sizeof(raw_serv));
	((struct sockaddr_in *)&raw_serv)->sin_family = AF_INET;
	raw_serv_len = sizeof(struct sockaddr_in);
	send_query_sendcnt = -1;
	send_query_recvcnt = 0;
	send_ping_soon = 1;
	outpkt.sentlen = 0;
	outpkt.offset = 0;
	outpkt.len = 0;
	inpkt.len = 0;
	chunkid = 1000;
	chunkid_prev = chunkid_prev2 = 0;
	rand_seed = 77;
	dnsc_use_edns0 = 0;
	running = 1;
	wire_srand(4711);
}

static const char *upenc_pattern(int k)
{
	switch (k) {
	case 0: return "aAbBcCdDeEfFgGhHiIjJkKlLmMnNoOpPqQrRsStTuUvVwWxXyYzZ+0129-";
	case 1: return "aAbBcCdDeEfFgGhHiIjJkKlLmMnNoOpPqQrRsStTuUvVwWxXyYzZ_0129-";
	case 2: return "aA-Aaahhh-Drink-mal-ein-J\344germeister-";
	case 3: return "aA-La-fl\373te-na\357ve-fran\347aise-est-retir\351-\340-Cr\350te";
	case 4: return "aAbBcCdDeEfFgGhHiIjJkKlLmMnNoOpPqQrRsStTuUvVwWxXyYzZ";
	case 5: return "aA0123456789\274\275\276\277\300\301\302\303\304\305\306\307\310\311\312\313\314\315\316\317";
	default: return "aA";
	}
}

/* the handshake functions keep their reply buffer in[4096] on the stack and some of them look at bytes the
 * reply did not fill: give every case the same stack contents so that such a read does not depend on which
 * case ran before */
static void __attribute__((noinline)) scrub_stack(void)
{
	volatile unsigned char big[400000];
	size_t i;
	for (i = 0; i < sizeof(big); i++)
		big[i] = 0xa5;
}

int handle_line(char *l)
{
	char *p = l, *save, *hd, *it, step[32];
	int qtype, uid, lazy, denc, seed, arg, rv = 0, i, seedout = 0;
	if (!strncmp(l, "N ", 2)) {
		/* N outlen hex : dns_namedec(out, outlen, buf, buflen = number of bytes given).  out is a
		   heap block of outlen + 1 bytes (the decoders document that they store a NUL behind the
		   last byte: "*buf space should be at least 1 byte more than *buflen"); the ASan redzone /
		   guard bytes follow directly */
		char *q = l + 2, *out, *src;
		int outlen = (int)strtol(q, &q, 10), n, r;
		while (*q == ' ') q++;
		n = (int)unhex(q, dgram);
		out = malloc((size_t)outlen + 1 + NGUARD);
		src = malloc((size_t)n + 1);
		memset(out, 0x5a, (size_t)outlen + 1 + NGUARD);
		memcpy(src, dgram, n);
		src[n] = 0;
		r = dns_namedec(out, outlen, src, n);
		printf("%d ", r);
		putsum((unsigned char *)out, r > 0 && r <= outlen ? r : 0);
		for (i = 0; i < NGUARD; i++)
			if ((unsigned char)out[outlen + 1 + i] != 0x5a)
				break;
		if (i < NGUARD || r > outlen)
			printf(" GUARD-VIOLATED");
		putchar('\n');
		free(out);
		free(src);
		return 1;
	}
	if (strncmp(l, "H ", 2))
		return 0;
	scrub_stack();
	hd = strtok_r(p + 2, ";", &save);
	if (!hd || sscanf(hd, "%31s %d %d %d %d %d %d", step, &qtype, &uid, &lazy, &denc, &seed, &arg) != 7)
		return 0;
	nitems = 0;
	nextitem = 0;
	while ((it = strtok_r(NULL, ";", &save)) != NULL && nitems < MAXITEMS)
		items[nitems++] = it;
	setup(qtype, uid, lazy, denc);
	queries = 0;
	timeouts = 0;
	lastq_len = 0;
	verif_now = 3000000;
	wire_sendto_hook = on_sendto;
	wire_select_hook = on_select;
	cap_reset();
	sys_ret = 0;
	seedout = seed;
	if (setjmp(bail)) {
		printf("BAIL %d q=%ld left=%d\n", bail_code, queries, nitems - nextitem);
		wire_sendto_hook = NULL;
		wire_select_hook = NULL;
		return 1;
	}
	if (!strcmp(step, "version")) rv = handshake_version(20, &seedout);
	else if (!strcmp(step, "login")) rv = handshake_login(20, seed);
	else if (!strcmp(step, "rawudp")) rv = handshake_raw_udp(20, seed);
	else if (!strcmp(step, "edns0")) rv = handshake_edns0_check(20);
	else if (!strcmp(step, "upenctest")) rv = handshake_upenctest(20, upenc_pattern(arg));
	else if (!strcmp(step, "upenc_auto")) rv = handshake_upenc_autodetect(20);
	else if (!strcmp(step, "downenctest")) rv = handshake_downenctest(20, (char)arg);
	else if (!strcmp(step, "downenc_auto")) rv = handshake_downenc_autodetect(20);
	else if (!strcmp(step, "qtypetest")) rv = handshake_qtypetest(20, arg);
	else if (!strcmp(step, "qtype_auto")) rv = handshake_qtype_autodetect(20);
	else if (!strcmp(step, "switch_codec")) handshake_switch_codec(20, arg);
	else if (!strcmp(step, "switch_downenc")) handshake_switch_downenc(20);
	else if (!strcmp(step, "try_lazy")) handshake_try_lazy(20);
	else if (!strcmp(step, "lazyoff")) handshake_lazyoff(20);
	else if (!strcmp(step, "autoprobe")) rv = handshake_autoprobe_fragsize(20);
	else if (!strcmp(step, "set_fragsize")) handshake_set_fragsize(20, arg);
	else if (!strcmp(step, "full")) rv = client_handshake(20, arg & 1, (arg >> 1) & 1, 1000);
	else if (!strcmp(step, "tunnel") || !strcmp(step, "rawtunnel")) {
		if (step[0] == 'r')
			conn = CONN_RAW_UDP;
		lastdownstreamtime = time(NULL);
		send_query_sendcnt = 0;
		for (i = 0; i < arg && nextitem < nitems; i++) {
			if (!deliver(items[nextitem++]))
				continue;
			rv = tunnel_dns(21, 20);
		}
	} else
		return 0;
	printf("rv=%d uid=%d seed=%d qtype=%d up=%s down=%d lazy=%d st=%d conn=%d edns=%d q=%ld left=%d tun=%d sys=[",
	       rv, userid, seedout, do_qtype, dataenc->name, downenc, lazymode, selecttimeout, conn == CONN_DNS_NULL,
	       dnsc_use_edns0, queries, nitems - nextitem, tun_written_count);
	for (i = 0; i < sys_count; i++)
		printf("%s%s", i ? "|" : "", sys_cmds[i]);
	printf("]\n");
	wire_sendto_hook = NULL;
	wire_select_hook = NULL;
	return 1;
}
