/* h_c17cli.c -- the command line of the real client: main() of src/iodine.c, see h_mainargs.inc */
#include "hlib.h"
#define main iodine_main
#include "iodine.c"	/* found through -I <snapshot>/src */
#undef main
#define MAIN_FN iodine_main
#define MAIN_NAME "iodine"
#include "h_mainargs.inc"

static void ma_details(void)
{
	printf("client");
}
