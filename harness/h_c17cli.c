/* h_c17cli.c -- the command line of the real client: main() of src/iodine.c, see h_mainargs.inc.
 * Everything main() hands to client.c is recorded by link-time wrappers (which then call the real functions); the run ends
 * when main() calls client_handshake(). */
#include "hlib.h"
#define main iodine_main
#include "iodine.c"	/* found through -I <snapshot>/src */
#undef main
#define MAIN_FN iodine_main
#define MAIN_NAME "iodine"
#define MAIN_PASS_ENV PASSWORD_ENV_VAR
#define MAIN_CONTINUES_PAST_TUN

#include "h_mainargs.inc"

static struct {
	int have_topdomain, have_password, maxlen, selecttimeout, lazy, tun_reached;
	char topdomain[1100];
	unsigned char password[33];
	char qtype[64], downenc[64];
	int qtype_set, downenc_set, ns_family;
} rec;

static void ma_reached_tun(void) { rec.tun_reached = 1; }

void __real_client_set_topdomain(const char *cp);
void __wrap_client_set_topdomain(const char *cp);
void __wrap_client_set_topdomain(const char *cp)
{
	rec.have_topdomain = 1;
	snprintf(rec.topdomain, sizeof(rec.topdomain), "%s", cp);
	__real_client_set_topdomain(cp);
}
void __real_client_set_password(const char *cp);
void __wrap_client_set_password(const char *cp);
void __wrap_client_set_password(const char *cp)
{
	rec.have_password = 1;
	memcpy(rec.password, cp, 33);	/* login_calculate reads 32 bytes of this buffer, whatever the string length */
	__real_client_set_password(cp);
}
void __real_client_set_hostname_maxlen(int i);
void __wrap_client_set_hostname_maxlen(int i);
void __wrap_client_set_hostname_maxlen(int i) { rec.maxlen = i; __real_client_set_hostname_maxlen(i); }
void __real_client_set_selecttimeout(int i);
void __wrap_client_set_selecttimeout(int i);
void __wrap_client_set_selecttimeout(int i) { rec.selecttimeout = i; __real_client_set_selecttimeout(i); }
void __real_client_set_lazymode(int i);
void __wrap_client_set_lazymode(int i);
void __wrap_client_set_lazymode(int i) { rec.lazy = i; __real_client_set_lazymode(i); }
int __real_client_set_qtype(char *s);
int __wrap_client_set_qtype(char *s);
int __wrap_client_set_qtype(char *s) { rec.qtype_set = 1; snprintf(rec.qtype, sizeof(rec.qtype), "%s", s); return __real_client_set_qtype(s); }
void __real_client_set_downenc(char *s);
void __wrap_client_set_downenc(char *s);
void __wrap_client_set_downenc(char *s) { rec.downenc_set = 1; snprintf(rec.downenc, sizeof(rec.downenc), "%s", s); __real_client_set_downenc(s); }
void __real_client_set_nameserver(struct sockaddr_storage *addr, int addrlen);
void __wrap_client_set_nameserver(struct sockaddr_storage *addr, int addrlen);
void __wrap_client_set_nameserver(struct sockaddr_storage *addr, int addrlen) { rec.ns_family = addr->ss_family; __real_client_set_nameserver(addr, addrlen); }
void __wrap_client_init(void);
void __real_client_init(void);
void __wrap_client_init(void) { memset(&rec, 0, sizeof(rec)); rec.maxlen = -1; rec.selecttimeout = -1; rec.lazy = -1; __real_client_init(); }

int __wrap_open_dns_from_host(char *host, int port, int addr_family, int flags);
int __wrap_open_dns_from_host(char *host, int port, int addr_family, int flags) { (void)host; (void)port; (void)addr_family; (void)flags; return 20; }

static int hs_raw, hs_autofrag, hs_fragsize;
int __wrap_client_handshake(int dns_fd, int raw_mode, int autodetect_frag_size, int fragsize);
int __wrap_client_handshake(int dns_fd, int raw_mode, int autodetect_frag_size, int fragsize)
{
	(void)dns_fd;
	hs_raw = raw_mode; hs_autofrag = autodetect_frag_size; hs_fragsize = fragsize;
	ma_accept = 1;
	longjmp(ma_bail, 1);
}

static void ma_details(void)
{
	printf("client topdomain=");
	if (rec.have_topdomain) puthex((unsigned char *)rec.topdomain, strlen(rec.topdomain)); else printf("UNSET");
	printf(" password=");
	if (rec.have_password) puthex(rec.password, 33); else printf("UNSET");
	printf(" maxlen=%d selecttimeout=%d lazy=%d qtype=", rec.maxlen, rec.selecttimeout, rec.lazy);
	if (rec.qtype_set) puthex((unsigned char *)rec.qtype, strlen(rec.qtype)); else printf("UNSET");
	printf(" downenc=");
	if (rec.downenc_set) puthex((unsigned char *)rec.downenc, strlen(rec.downenc)); else printf("UNSET");
	printf(" raw=%d autofrag=%d fragsize=%d nsfam=%d tun=%d", hs_raw, hs_autofrag, hs_fragsize, rec.ns_family, rec.tun_reached);
}
